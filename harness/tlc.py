"""Running TLC / SANY and reading what they produce.

- model_check(): exhaustive run, parses statistics / violations
- dump_graph(): -dump dot,actionlabels -> Graph(nodes, edges, inits)
- simulate():   -simulate file=... -> list of behaviours [(label, state), ...]
- parse_value(): TLA+ value syntax -> python
- validate_traces(): batch trace validation (Trace_*.tla)
"""

from __future__ import annotations

import json
import os
import re
import shutil
import subprocess
import tempfile
import time
from dataclasses import dataclass, field

SPEC_DIR = os.path.join(os.path.dirname(os.path.dirname(
    os.path.abspath(__file__))), 'spec')
JAR = '/opt/veriftools/tla/tla2tools.jar'


class TLCError(Exception):
    """Machinery failure (parse error, TLC crash): exit 2, never a VIOLATION."""


# --------------------------------------------------------------------------
# TLA+ value parser


class FrozenDict(dict):
    def __hash__(self):
        return hash(frozenset(self.items()))


class ModelValue(str):
    pass


class _P:
    def __init__(self, s: str):
        self.s = s
        self.i = 0

    def ws(self):
        s = self.s
        while self.i < len(s) and s[self.i] in ' \t\r\n':
            self.i += 1

    def peek(self, k: int = 1) -> str:
        return self.s[self.i:self.i + k]

    def expect(self, tok: str):
        self.ws()
        if not self.s.startswith(tok, self.i):
            raise ValueError(f'expected {tok!r} at {self.i}: '
                             f'{self.s[self.i:self.i+40]!r}')
        self.i += len(tok)

    def value(self):
        self.ws()
        s = self.s
        c = s[self.i]
        if c == '"':
            j = self.i + 1
            out = []
            while s[j] != '"':
                if s[j] == '\\':
                    j += 1
                    out.append({'n': '\n', 't': '\t', 'r': '\r'}.get(s[j], s[j]))
                else:
                    out.append(s[j])
                j += 1
            self.i = j + 1
            return ''.join(out)
        if c == '-' or c.isdigit():
            m = re.compile(r'-?\d+').match(s, self.i)
            self.i = m.end()
            v = int(m.group())
            self.ws()
            if self.peek(2) == '..':
                self.i += 2
                hi = self.value()
                return tuple(range(v, hi + 1)) if False else frozenset(range(v, hi + 1))
            return v
        if s.startswith('<<', self.i):
            self.i += 2
            items = []
            self.ws()
            if s.startswith('>>', self.i):
                self.i += 2
                return ()
            while True:
                items.append(self.value())
                self.ws()
                if s.startswith('>>', self.i):
                    self.i += 2
                    return tuple(items)
                self.expect(',')
        if c == '{':
            self.i += 1
            items = []
            self.ws()
            if s[self.i] == '}':
                self.i += 1
                return frozenset()
            while True:
                items.append(self.value())
                self.ws()
                if s[self.i] == '}':
                    self.i += 1
                    return frozenset(items)
                self.expect(',')
        if c == '[':
            self.i += 1
            d = FrozenDict()
            self.ws()
            if s[self.i] == ']':
                self.i += 1
                return d
            while True:
                self.ws()
                m = re.compile(r'[A-Za-z_][A-Za-z0-9_]*').match(s, self.i)
                key = m.group()
                self.i = m.end()
                self.expect('|->')
                d[key] = self.value()
                self.ws()
                if s[self.i] == ']':
                    self.i += 1
                    return d
                self.expect(',')
        if c == '(':
            # function: (a :> v @@ b :> w)
            self.i += 1
            d = FrozenDict()
            while True:
                k = self.value()
                self.expect(':>')
                d[k] = self.value()
                self.ws()
                if s[self.i] == ')':
                    self.i += 1
                    return d
                self.expect('@@')
        m = re.compile(r'[A-Za-z_][A-Za-z0-9_]*').match(s, self.i)
        if not m:
            raise ValueError(f'cannot parse at {self.i}: {s[self.i:self.i+40]!r}')
        self.i = m.end()
        w = m.group()
        if w == 'TRUE':
            return True
        if w == 'FALSE':
            return False
        return ModelValue(w)


def parse_value(s: str):
    p = _P(s)
    v = p.value()
    p.ws()
    if p.i != len(p.s):
        raise ValueError(f'trailing text: {p.s[p.i:p.i+40]!r}')
    return v


def parse_state(text: str) -> dict:
    """'/\\ a = v\n/\\ b = w' -> {a: v, b: w}"""
    st = {}
    p = _P(text)
    while True:
        p.ws()
        if p.i >= len(p.s):
            return st
        p.expect('/\\')
        p.ws()
        m = re.compile(r'[A-Za-z_][A-Za-z0-9_]*').match(p.s, p.i)
        name = m.group()
        p.i = m.end()
        p.expect('=')
        st[name] = p.value()


def to_tla(v) -> str:
    """python -> TLA+ value syntax (for generated cfg/modules)"""
    if isinstance(v, bool):
        return 'TRUE' if v else 'FALSE'
    if isinstance(v, ModelValue):
        return str(v)
    if isinstance(v, int):
        return str(v)
    if isinstance(v, str):
        return '"' + v.replace('\\', '\\\\').replace('"', '\\"') + '"'
    if isinstance(v, (tuple, list)):
        return '<<' + ', '.join(to_tla(x) for x in v) + '>>'
    if isinstance(v, (set, frozenset)):
        return '{' + ', '.join(sorted(to_tla(x) for x in v)) + '}'
    if isinstance(v, dict):
        if not v:
            return '<<>>'
        if all(isinstance(k, str) and not isinstance(k, ModelValue)
               and re.fullmatch(r'[A-Za-z_][A-Za-z0-9_]*', k) for k in v):
            return '[' + ', '.join(f'{k} |-> {to_tla(x)}'
                                   for k, x in v.items()) + ']'
        return '(' + ' @@ '.join(f'{to_tla(k)} :> {to_tla(x)}'
                                 for k, x in v.items()) + ')'
    raise TypeError(v)


# --------------------------------------------------------------------------
# running TLC


def _scratch(prefix: str = 'tlc') -> str:
    base = os.environ.get('VERIF_SCRATCH') or tempfile.gettempdir()
    return tempfile.mkdtemp(prefix=f'verif.{prefix}.', dir=base)


@dataclass
class TLCResult:
    ok: bool
    generated: int = 0
    distinct: int = 0
    depth: int = 0
    violated: list = field(default_factory=list)   # names
    error: str | None = None
    wall_s: float = 0.0
    output: str = ''
    coverage: dict = field(default_factory=dict)
    trace: list = field(default_factory=list)      # counterexample [(label,state)]


_LABEL = re.compile(r'<(\w+(?:\([^)]*\))?) line \d+')


def _parse_counterexample(out: str) -> list:
    trace = []
    for m in re.finditer(
            r'^State \d+: <([^>]*)>\n((?:/\\ .*\n(?:  .*\n)*)+)', out, re.M):
        head = m.group(1)
        lm = re.match(r'(\w+(?:\([^)]*\))?)', head)
        label = lm.group(1) if lm else head
        if head.startswith('Initial predicate'):
            label = 'Init'
        try:
            st = parse_state(m.group(2))
        except Exception:
            st = {'_raw': m.group(2)}
        trace.append((label, st))
    return trace


def run_tlc(spec: str, cfg: str, *, workers: int = 16, timeout: int = 1800,
            extra: list | None = None, deadlock: bool = True,
            env: dict | None = None, cwd: str | None = None,
            java_opts: str | None = None) -> TLCResult:
    """spec, cfg: file names relative to SPEC_DIR (or absolute)."""
    meta = _scratch('meta')
    cwd = cwd or SPEC_DIR
    cmd = ['tlc', '-workers', str(workers), '-metadir', meta,
           '-noGenerateSpecTE', '-config', cfg]
    if not deadlock:
        cmd.append('-deadlock')
    if extra:
        cmd += extra
    cmd.append(spec)
    e = dict(os.environ)
    if env:
        e.update(env)
    if java_opts:
        e['JAVA_TOOL_OPTIONS'] = (e.get('JAVA_TOOL_OPTIONS', '') + ' ' + java_opts).strip()
    t0 = time.time()
    try:
        p = subprocess.run(cmd, cwd=cwd, env=e, capture_output=True,
                           text=True, timeout=timeout)
        out = p.stdout + p.stderr
    except subprocess.TimeoutExpired as exc:
        out = (exc.stdout or b'').decode('utf-8', 'replace') if isinstance(
            exc.stdout, bytes) else (exc.stdout or '')
        shutil.rmtree(meta, ignore_errors=True)
        return TLCResult(False, error='timeout', wall_s=time.time() - t0,
                         output=out)
    finally:
        shutil.rmtree(meta, ignore_errors=True)
    res = TLCResult(True, wall_s=time.time() - t0, output=out)
    m = re.search(r'(\d[\d,]*) states generated, (\d[\d,]*) distinct states found', out)
    if m:
        res.generated = int(m.group(1).replace(',', ''))
        res.distinct = int(m.group(2).replace(',', ''))
    m = re.search(r'The number of states generated: (\d+)', out)
    if m and not res.generated:
        res.generated = int(m.group(1))
    m = re.search(r'depth of the complete state graph search is (\d+)', out)
    if m:
        res.depth = int(m.group(1))
    for m in re.finditer(r'Error: Invariant (\w+) is violated', out):
        res.violated.append(m.group(1))
    for m in re.finditer(r'Error: Action property (\w+) is violated', out):
        res.violated.append(m.group(1))
    if 'Temporal properties were violated' in out:
        res.violated.append('TEMPORAL')
    if 'Error: Deadlock reached' in out:
        res.violated.append('DEADLOCK')
    if res.violated:
        res.ok = False
        res.trace = _parse_counterexample(out)
    elif 'Model checking completed. No error has been found' in out \
            or re.search(r'Finished in ', out) and 'Error:' not in out:
        res.ok = True
    else:
        res.ok = False
        m = re.search(r'Error: (.*(?:\n.*){0,6})', out)
        res.error = m.group(1) if m else out[-2000:]
    # coverage lines: <Action line .. of module M>: distinct:generated
    for m in re.finditer(r'^<(\w+) line \d+, col \d+ to line \d+, col \d+ of '
                         r'module (\w+)>: (\d+):(\d+)', out, re.M):
        res.coverage[m.group(1)] = (int(m.group(3)), int(m.group(4)))
    return res


def sany(module: str) -> tuple[bool, str]:
    p = subprocess.run(['tla-sany', module], cwd=SPEC_DIR,
                       capture_output=True, text=True, timeout=120)
    out = p.stdout + p.stderr
    ok = p.returncode == 0 and 'error' not in out.lower().replace(
        'semantic errors:\n', '') or ('Semantic processing' in out and
                                      '*** Errors' not in out and
                                      'Fatal' not in out and
                                      'Could not' not in out and p.returncode == 0)
    return ok, out


# --------------------------------------------------------------------------
# state graph


@dataclass
class Graph:
    nodes: dict            # id -> state dict
    edges: dict            # id -> list[(label, dst)]
    inits: list

    @property
    def n_edges(self) -> int:
        return sum(len(v) for v in self.edges.values())


_NODE = re.compile(r'^(-?\d+) \[label="((?:[^"\\]|\\.)*)"(,style = filled\])?', re.M)
_EDGE = re.compile(r'^(-?\d+) -> (-?\d+) \[label="((?:[^"\\]|\\.)*)"', re.M)


def _unescape(s: str) -> str:
    return s.replace('\\n', '\n').replace('\\"', '"').replace('\\\\', '\\')


def dump_graph(spec: str, cfg: str, *, workers: int = 8, timeout: int = 1800,
               skip_labels=('Terminated',), env=None) -> tuple[Graph, TLCResult]:
    d = _scratch('dump')
    try:
        path = os.path.join(d, 'g.dot')
        res = run_tlc(spec, cfg, workers=workers, timeout=timeout,
                      extra=['-dump', 'dot,actionlabels', path], env=env)
        if not os.path.exists(path):
            raise TLCError('no graph dumped: ' + (res.error or res.output[-1500:]))
        text = open(path).read()
    finally:
        shutil.rmtree(d, ignore_errors=True)
    nodes, edges, inits = {}, {}, []
    for m in _NODE.finditer(text):
        nid = m.group(1)
        if nid in nodes:
            continue
        nodes[nid] = parse_state(_unescape(m.group(2)))
        if m.group(3):
            inits.append(nid)
    seen = set()
    for m in _EDGE.finditer(text):
        src, dst, label = m.group(1), m.group(2), _unescape(m.group(3))
        if label in skip_labels or (src, dst, label) in seen:
            continue
        seen.add((src, dst, label))
        edges.setdefault(src, []).append((label, dst))
    for k in edges:
        edges[k].sort()
    return Graph(nodes, edges, inits), res


def edge_cover(graph: Graph, max_len: int = 60, limit: int | None = None,
               inits: list | None = None, rng=None) -> list:
    """Paths from initial states that together traverse every edge reachable
    from them: list of (init_id, [(label, dst_id), ...])."""
    from collections import deque
    remaining = {}
    for src, outs in graph.edges.items():
        for e in outs:
            remaining.setdefault(src, set()).add(e)
    paths = []
    inits = inits if inits is not None else graph.inits

    def nearest_with_work(start):
        # BFS to nearest node that has an untraversed out-edge
        prev = {start: None}
        dq = deque([start])
        while dq:
            n = dq.popleft()
            if remaining.get(n):
                path = []
                while prev[n] is not None:
                    p, e = prev[n]
                    path.append(e)
                    n = p
                path.reverse()
                return path
            for e in graph.edges.get(n, []):
                if e[1] not in prev:
                    prev[e[1]] = (n, e)
                    dq.append(e[1])
        return None

    for init in inits:
        while True:
            pre = nearest_with_work(init)
            if pre is None:
                break
            path = list(pre)
            cur = path[-1][1] if path else init
            while len(path) < max_len:
                todo = remaining.get(cur)
                if todo:
                    e = min(todo) if rng is None else rng.choice(sorted(todo))
                    todo.discard(e)
                    path.append(e)
                    cur = e[1]
                    continue
                hop = nearest_with_work(cur)
                if hop is None or len(path) + len(hop) >= max_len:
                    break
                path.extend(hop)
                cur = hop[-1][1]
            if len(path) == len(pre):
                # could not make progress within max_len: force the one edge
                todo = remaining.get(cur)
                if todo:
                    e = min(todo)
                    todo.discard(e)
                    path.append(e)
            paths.append((init, path))
            if limit and len(paths) >= limit:
                return paths
    return paths


# --------------------------------------------------------------------------
# simulation


def simulate(spec: str, cfg: str, *, num: int, depth: int, seed: int,
             timeout: int = 900, env=None) -> tuple[list, TLCResult]:
    """Returns behaviours: list of [(label, state), ...] (label of the first
    is 'Init')."""
    d = _scratch('sim')
    try:
        res = run_tlc(spec, cfg, workers=1, timeout=timeout, deadlock=False,
                      extra=['-simulate', f'file={d}/tr,num={num}',
                             '-depth', str(depth), '-seed', str(seed)],
                      env=env)
        behaviours = []
        for fn in sorted(os.listdir(d)):
            if not fn.startswith('tr_'):
                continue
            text = open(os.path.join(d, fn)).read()
            beh = []
            for m in re.finditer(r'^\\\* <(.*)>\nSTATE_\d+ == \n((?:.*\n)*?)\n\n',
                                 text, re.M):
                head = m.group(1)
                cut = re.search(r' line \d+, col \d+ to line', head)
                label = head[:cut.start()] if cut else head
                if label.startswith('Init'):
                    label = 'Init'
                beh.append((label, parse_state(m.group(2))))
            if beh:
                behaviours.append(beh)
    finally:
        shutil.rmtree(d, ignore_errors=True)
    return behaviours, res


def parse_label(label: str) -> tuple[str, list]:
    """'StartR(t1, 3)' -> ('StartR', [ModelValue('t1'), 3])"""
    m = re.fullmatch(r'(\w+)(?:\((.*)\))?', label, re.S)
    if not m:
        raise ValueError(label)
    name, args = m.group(1), m.group(2)
    if not args:
        return name, []
    vals = parse_value('<<' + args + '>>')
    return name, list(vals)


# --------------------------------------------------------------------------
# batch trace validation


def validate_traces(trace_spec: str, cfg: str, traces: list, *,
                    timeout: int = 1800, extra_env: dict | None = None,
                    dfs: bool = False) -> dict:
    """traces: list of event lists (JSON-able).  The trace spec reads
    IOEnv.TRACE_FILE = {"traces": [...]} and prints, from its POSTCONDITION,
    one line per trace:  VERDICT <tid> <reached> <len>
    Returns {tid(1-based): (reached, length)} plus '_res'."""
    d = _scratch('trace')
    try:
        path = os.path.join(d, 'traces.json')
        with open(path, 'w') as f:
            json.dump({'traces': traces}, f)
        env = {'TRACE_FILE': path}
        if extra_env:
            env.update(extra_env)
        res = run_tlc(trace_spec, cfg, workers=1, timeout=timeout,
                      deadlock=False, env=env,
                      java_opts=('-Dtlc2.tool.queue.IStateQueue=StateDeque'
                                 if dfs else None))
    finally:
        shutil.rmtree(d, ignore_errors=True)
    verdicts = {}
    for m in re.finditer(r'<<"VERDICT", (\d+), (\d+), (\d+)>>', res.output):
        verdicts[int(m.group(1))] = (int(m.group(2)), int(m.group(3)))
    verdicts['_res'] = res
    return verdicts


def validate_total(trace_spec: str, cfg: str, traces: list, *,
                   timeout: int = 1800, known: list | None = None) -> tuple[dict, TLCResult]:
    """Batch validation against a *total* observer (Trace_Sync idiom): the spec
    never rejects, it records the first failed clause.  Returns
    {tid(1-based): (line(1-based, 0 = accepted), clause)}."""
    d = _scratch('trace')
    try:
        path = os.path.join(d, 'traces.json')
        with open(path, 'w') as f:
            json.dump({'traces': traces, 'known': list(known or [])}, f)
        res = run_tlc(trace_spec, cfg, workers=1, timeout=timeout,
                      deadlock=False, env={'TRACE_FILE': path})
    finally:
        shutil.rmtree(d, ignore_errors=True)
    out = {}
    for m in re.finditer(r'<<\s*"VERDICT",\s*(\d+),\s*(\d+),\s*"([^"]*)"(?:,\s*\{([^}]*)\})?\s*>>',
                         res.output):
        if m.group(4) is not None:
            used = [x.strip().strip('"') for x in m.group(4).split(',') if x.strip()]
            out[int(m.group(1))] = (int(m.group(2)), m.group(3), used)
        else:
            out[int(m.group(1))] = (int(m.group(2)), m.group(3))
    return out, res


def dump_states(spec: str, cfg: str, *, workers: int = 8, timeout: int = 900,
                env=None) -> tuple[list, TLCResult]:
    """All reachable states (plain -dump): list of state dicts."""
    d = _scratch('states')
    try:
        path = os.path.join(d, 'st')
        res = run_tlc(spec, cfg, workers=workers, timeout=timeout,
                      extra=['-dump', path], env=env)
        fn = path + '.dump'
        if not os.path.exists(fn):
            raise TLCError('no state dump: ' + (res.error or res.output[-800:]))
        text = open(fn).read()
    finally:
        shutil.rmtree(d, ignore_errors=True)
    states = []
    for block in re.split(r'^State \d+:\n', text, flags=re.M)[1:]:
        block = block.strip()
        if not block:
            continue
        if not block.startswith('/\\'):
            block = '/\\ ' + block
        states.append(parse_state(block))
    return states, res
