"""Strict, independent parser for IMAP4rev1 server responses (RFC 3501 section 9
plus the extensions pymap advertises: LITERAL+, ID, UIDPLUS, MOVE, BINARY,
OBJECTID, APPENDLIMIT, IDLE, MULTIAPPEND, CHILDREN).

It is the only way bytes become events in the checks.  Bytes that do not parse
are the C07 violation.  Nothing here imports pymap.
"""

from __future__ import annotations

import re
from dataclasses import dataclass, field


class Malformed(Exception):
    def __init__(self, pos: int, why: str):
        super().__init__(f'at byte {pos}: {why}')
        self.pos = pos
        self.why = why


class Incomplete(Exception):
    """The stream ends in the middle of a response (not an error by itself
    while the server is still writing)."""


@dataclass
class Quoted:
    value: bytes


@dataclass
class Literal:
    value: bytes
    binary: bool = False


@dataclass
class Atom:
    value: bytes


NIL = Atom(b'NIL')


@dataclass
class Resp:
    kind: str                      # 'tagged' | 'untagged' | 'cont'
    tag: bytes = b''
    cond: bytes | None = None      # OK NO BAD BYE PREAUTH
    code: tuple | None = None      # (NAME, raw-args-bytes)
    text: bytes = b''
    name: bytes | None = None      # untagged data name: EXISTS FETCH LIST ...
    num: int | None = None
    data: object = None
    raw: bytes = b''
    start: int = 0
    end: int = 0


ATOM_SPECIALS = b'(){ %*"\\]'
_TAG_RE = re.compile(rb'[\x21\x23\x24\x26\x27\x2c-\x5b\x5d-\x7a\x7c\x7e]+')
_NUM_RE = re.compile(rb'\d+')


def is_atom_char(c: int) -> bool:
    return 0x20 < c < 0x7f and c not in ATOM_SPECIALS


class _S:
    def __init__(self, data: bytes, pos: int = 0):
        self.d = data
        self.i = pos

    def need(self, n: int = 1):
        if self.i + n > len(self.d):
            raise Incomplete()

    def peek(self) -> int:
        self.need()
        return self.d[self.i]

    def lit(self, tok: bytes):
        self.need(len(tok))
        if self.d[self.i:self.i + len(tok)] != tok:
            raise Malformed(self.i, f'expected {tok!r}, got '
                            f'{self.d[self.i:self.i + 12]!r}')
        self.i += len(tok)

    def sp(self):
        self.lit(b' ')

    def crlf(self):
        self.lit(b'\r\n')

    def number(self) -> int:
        m = _NUM_RE.match(self.d, self.i)
        if not m:
            self.need()
            raise Malformed(self.i, 'number expected')
        if m.end() == len(self.d):
            raise Incomplete()
        self.i = m.end()
        return int(m.group())

    def atom(self, extra_ok: bytes = b'') -> bytes:
        j = self.i
        d = self.d
        while j < len(d) and (is_atom_char(d[j]) or d[j] in extra_ok):
            j += 1
        if j == len(d):
            raise Incomplete()
        if j == self.i:
            raise Malformed(self.i, f'atom expected, got {d[j:j+10]!r}')
        v = d[self.i:j]
        self.i = j
        return v

    def quoted(self) -> Quoted:
        self.lit(b'"')
        out = bytearray()
        d = self.d
        while True:
            self.need()
            c = d[self.i]
            if c == 0x22:
                self.i += 1
                return Quoted(bytes(out))
            if c == 0x5c:
                self.need(2)
                n = d[self.i + 1]
                if n not in (0x22, 0x5c):
                    raise Malformed(self.i, 'bad escape in quoted string')
                out.append(n)
                self.i += 2
                continue
            if c in (0x0d, 0x0a, 0x00):
                raise Malformed(self.i, f'byte {c:#04x} inside quoted string')
            if c >= 0x80:
                raise Malformed(self.i, '8-bit byte inside quoted string')
            out.append(c)
            self.i += 1

    def literal(self) -> Literal:
        binary = False
        if self.peek() == 0x7e:
            binary = True
            self.i += 1
        self.lit(b'{')
        n = self.number()
        self.lit(b'}')
        self.crlf()
        self.need(n)
        v = self.d[self.i:self.i + n]
        self.i += n
        # RFC 3501 CHAR8 excludes NUL, but a server that stores messages verbatim (C03) has
        # no way to send a NUL-containing body other than in a literal; the property's own
        # clauses only forbid NUL in QUOTED strings, so it is not flagged here.
        return Literal(bytes(v), binary)

    def string(self):
        c = self.peek()
        if c == 0x22:
            return self.quoted()
        if c in (0x7b, 0x7e):
            return self.literal()
        raise Malformed(self.i, 'string expected')

    def nstring(self):
        c = self.peek()
        if c in (0x22, 0x7b, 0x7e):
            return self.string()
        self.lit(b'NIL')
        return NIL

    def astring(self):
        c = self.peek()
        if c in (0x22, 0x7b):
            return self.string()
        return Atom(self.atom(extra_ok=b']'))

    def value(self):
        """generic: number | NIL/atom | string | list"""
        c = self.peek()
        if c == 0x28:
            return self.plist()
        if c in (0x22, 0x7b, 0x7e):
            return self.string()
        if 0x30 <= c <= 0x39:
            m = _NUM_RE.match(self.d, self.i)
            if m.end() < len(self.d) and not is_atom_char(self.d[m.end()]):
                self.i = m.end()
                return int(m.group())
        return Atom(self.atom(extra_ok=b'\\]'))

    def plist(self) -> list:
        self.lit(b'(')
        out = []
        if self.peek() == 0x29:
            self.i += 1
            return out
        while True:
            out.append(self.value())
            c = self.peek()
            if c == 0x29:
                self.i += 1
                return out
            if c == 0x28 and out and isinstance(out[-1], list):
                # body structure: adjacent lists without SP
                continue
            self.sp()

    def text_to_crlf(self) -> bytes:
        j = self.d.find(b'\r\n', self.i)
        if j < 0:
            if b'\n' in self.d[self.i:] or b'\r' in self.d[self.i:-1]:
                k = min(x for x in (self.d.find(b'\n', self.i),
                                    self.d.find(b'\r', self.i)) if x >= 0)
                if k + 1 < len(self.d) or self.d[k:k + 1] == b'\n':
                    raise Malformed(k, 'bare CR or LF in response text')
            raise Incomplete()
        t = self.d[self.i:j]
        for off, c in enumerate(t):
            if c in (0x0a, 0x0d, 0x00):
                raise Malformed(self.i + off, f'byte {c:#04x} in text')
            if c >= 0x80:
                raise Malformed(self.i + off, '8-bit byte in response text')
        self.i = j
        return bytes(t)


_CODES_NOARG = {b'ALERT', b'PARSE', b'READ-ONLY', b'READ-WRITE', b'TRYCREATE',
                b'CLOSED', b'EXPUNGEISSUED', b'SERVERBUG', b'UNAVAILABLE',
                b'CANNOT', b'ALREADYEXISTS', b'NONEXISTENT', b'TIMEOUT',
                b'AUTHENTICATIONFAILED', b'AUTHORIZATIONFAILED', b'NOPERM',
                b'LIMIT', b'OVERQUOTA', b'INUSE', b'CORRUPTION',
                b'CLIENTBUG', b'CONTACTADMIN', b'EXPIRED', b'PRIVACYREQUIRED',
                b'UNKNOWN-CTE', b'TOOBIG', b'UIDNOTSTICKY', b'NOTSAVED'}


def _resp_text(s: _S, r: Resp) -> None:
    """resp-text = ["[" resp-text-code "]" SP] text   (text may be empty only
    if pymap sends it so: RFC requires 1*TEXT-CHAR)"""
    if s.peek() == 0x5b:
        s.i += 1
        start = s.i
        name = s.atom().upper()
        if s.peek() == 0x20:
            s.sp()
            a0 = s.i
            if name in (b'UIDNEXT', b'UIDVALIDITY', b'UNSEEN', b'HIGHESTMODSEQ'):
                s.number()
            elif name in (b'PERMANENTFLAGS',):
                lst = s.plist()
                for f in lst:
                    if not isinstance(f, Atom):
                        raise Malformed(a0, 'flag expected')
            elif name == b'CAPABILITY':
                while True:
                    s.atom()
                    if s.peek() == 0x5d:
                        break
                    s.sp()
            elif name == b'APPENDUID':
                s.number()
                s.sp()
                _uidset(s)
            elif name == b'COPYUID':
                s.number()
                s.sp()
                _uidset(s)
                s.sp()
                _uidset(s)
            elif name == b'MAILBOXID':
                lst = s.plist()
                if len(lst) != 1 or not isinstance(lst[0], Atom):
                    raise Malformed(a0, 'MAILBOXID (objectid) expected')
            elif name == b'BADCHARSET':
                s.plist()
            else:
                # unknown code with arguments: any text without ']' or CR/LF
                j = s.i
                while s.peek() not in (0x5d, 0x0d, 0x0a):
                    s.i += 1
                if s.i == j:
                    raise Malformed(j, 'empty response-code argument')
            args = bytes(s.d[a0:s.i])
        else:
            args = b''
        s.lit(b']')
        r.code = (name, args)
        if s.peek() == 0x0d:
            # "[CODE]" CRLF without text: tolerated by no RFC 3501 client
            # grammar; resp-text requires SP text
            raise Malformed(s.i, 'response code not followed by SP text')
        s.sp()
    r.text = s.text_to_crlf()
    if not r.text:
        raise Malformed(s.i, 'empty response text')


def _uidset(s: _S) -> None:
    j = s.i
    m = re.compile(rb'\d+(?::\d+)?(?:,\d+(?::\d+)?)*').match(s.d, s.i)
    if not m:
        s.need()
        raise Malformed(j, 'uid-set expected')
    if m.end() == len(s.d):
        raise Incomplete()
    s.i = m.end()


def _flag_list(s: _S) -> list:
    pos = s.i
    lst = s.plist()
    out = []
    for f in lst:
        if not isinstance(f, Atom):
            raise Malformed(pos, 'flag must be an atom')
        v = f.value
        body = v[1:] if v.startswith(b'\\') else v
        if not body or any(not is_atom_char(c) or c == 0x5c for c in body):
            if v != b'\\*':
                raise Malformed(pos, f'bad flag {v!r}')
        out.append(v)
    return out


def _check_nstring(v, pos, what):
    if v is NIL or (isinstance(v, Atom) and v.value == b'NIL'):
        return
    if not isinstance(v, (Quoted, Literal)):
        raise Malformed(pos, f'{what}: nstring expected, got {v!r}')


def _check_envelope(v, pos):
    if not isinstance(v, list) or len(v) != 10:
        raise Malformed(pos, 'ENVELOPE must be a list of 10 fields')
    for i in (0, 1, 8, 9):
        _check_nstring(v[i], pos, f'envelope field {i}')
    for i in range(2, 8):
        a = v[i]
        if isinstance(a, Atom) and a.value == b'NIL':
            continue
        if not isinstance(a, list) or not a:
            raise Malformed(pos, f'envelope address list {i} malformed')
        for addr in a:
            if not isinstance(addr, list) or len(addr) != 4:
                raise Malformed(pos, f'envelope address in field {i} is not a 4-tuple')
            for x in addr:
                _check_nstring(x, pos, 'address part')


def _is_string(v) -> bool:
    return isinstance(v, (Quoted, Literal))


def _is_nil(v) -> bool:
    return v is NIL or (isinstance(v, Atom) and v.value == b'NIL')


def _envelope_strict(s: '_S') -> list:
    """RFC 3501 section 9, to the octet:
    envelope = "(" env-date SP env-subject SP env-from SP env-sender SP env-reply-to SP
               env-to SP env-cc SP env-bcc SP env-in-reply-to SP env-message-id ")"
    env-from... = "(" 1*address ")" / nil       (no SP between the addresses)
    address  = "(" addr-name SP addr-adl SP addr-mailbox SP addr-host ")"   (nstrings)"""
    out = []
    s.lit(b'(')
    for i in range(10):
        if i:
            s.sp()
        if i in (0, 1, 8, 9):
            out.append(s.nstring())
            continue
        if s.peek() != 0x28:
            s.lit(b'NIL')
            out.append(NIL)
            continue
        s.lit(b'(')
        addrs = []
        while True:
            if s.peek() != 0x28:
                raise Malformed(s.i, 'envelope address list: "(" of an address expected '
                                     '(1*address, no separator)')
            s.lit(b'(')
            a = [s.nstring()]
            for _ in range(3):
                s.sp()
                a.append(s.nstring())
            s.lit(b')')
            addrs.append(a)
            if s.peek() == 0x29:
                s.i += 1
                break
        out.append(addrs)
    s.lit(b')')
    return out


def _check_dsp(v, pos):
    # body-fld-dsp = "(" string SP body-fld-param ")" / nil
    if _is_nil(v):
        return
    if not isinstance(v, list) or len(v) != 2 or not _is_string(v[0]):
        raise Malformed(pos, f'body disposition must be NIL or (string params), got {v!r:.80}')
    _check_params(v[1], pos)


def _check_params(p, pos):
    if _is_nil(p):
        return
    if not isinstance(p, list) or len(p) % 2 or not p or not all(_is_string(x) for x in p):
        raise Malformed(pos, 'body parameter list malformed')


def _check_lang(v, pos):
    # body-fld-lang = nstring / "(" string *(SP string) ")"
    if _is_nil(v) or _is_string(v):
        return
    if not isinstance(v, list) or not v or not all(_is_string(x) for x in v):
        raise Malformed(pos, 'body language must be an nstring or a list of strings')


def _check_ext(v, i, pos, multipart):
    """extension data from index i: [params (multipart) | md5 (single)] [dsp [lang [loc *ext]]]"""
    if i >= len(v):
        return
    if multipart:
        _check_params(v[i], pos)
    else:
        _check_nstring(v[i], pos, 'body MD5')
    if i + 1 < len(v):
        _check_dsp(v[i + 1], pos)
    if i + 2 < len(v):
        _check_lang(v[i + 2], pos)
    if i + 3 < len(v):
        _check_nstring(v[i + 3], pos, 'body location')


def _check_body(v, pos, depth=0):
    if not isinstance(v, list) or not v:
        raise Malformed(pos, 'body structure must be a non-empty list')
    if depth > 200:
        raise Malformed(pos, 'body structure too deep')
    if isinstance(v[0], list):
        # multipart: 1*body SP media-subtype [SP ext...]
        i = 0
        while i < len(v) and isinstance(v[i], list):
            _check_body(v[i], pos, depth + 1)
            i += 1
        if i >= len(v) or not _is_string(v[i]):
            raise Malformed(pos, 'multipart body lacks subtype string')
        _check_ext(v, i + 1, pos, True)
        return
    # single part: type subtype params id desc enc size ...
    if len(v) < 7:
        raise Malformed(pos, f'single-part body has {len(v)} < 7 fields')
    if not _is_string(v[0]) or not _is_string(v[1]):
        raise Malformed(pos, 'body type/subtype must be strings')
    p = v[2]
    if not (isinstance(p, Atom) and p.value == b'NIL'):
        if not isinstance(p, list) or len(p) % 2 or not p \
                or not all(_is_string(x) for x in p):
            raise Malformed(pos, 'body parameter list malformed')
    _check_nstring(v[3], pos, 'body id')
    _check_nstring(v[4], pos, 'body description')
    if not _is_string(v[5]):
        raise Malformed(pos, 'body encoding must be a string')
    if not isinstance(v[6], int):
        raise Malformed(pos, 'body size must be a number')
    t = v[0].value.upper()
    st = v[1].value.upper()
    if t == b'TEXT':
        if len(v) < 8 or not isinstance(v[7], int):
            raise Malformed(pos, 'text body lacks line count')
        _check_ext(v, 8, pos, False)
    elif t == b'MESSAGE' and st == b'RFC822':
        if len(v) < 10:
            raise Malformed(pos, 'message/rfc822 body lacks envelope/body/lines')
        _check_envelope(v[7], pos)
        _check_body(v[8], pos, depth + 1)
        if not isinstance(v[9], int):
            raise Malformed(pos, 'message/rfc822 body lacks line count')
        _check_ext(v, 10, pos, False)
    else:
        _check_ext(v, 7, pos, False)


_SECTION_RE = re.compile(
    rb'\[(?:(?:\d+(?:\.\d+)*)(?:\.(?:HEADER\.FIELDS(?:\.NOT)?|HEADER|TEXT|MIME))?'
    rb'|HEADER\.FIELDS(?:\.NOT)?|HEADER|TEXT)?', re.I)


def _fetch_att(s: _S) -> dict:
    s.lit(b'(')
    out = {}
    while True:
        pos = s.i
        name = s.atom(extra_ok=b'').upper()  # stops at '[' ? '[' is atom char
        # the atom may have swallowed "BODY[...": split at first '['
        br = name.find(b'[')
        if br >= 0:
            s.i = pos + br
            name = name[:br]
        key = name
        if s.peek() == 0x5b:
            m = _SECTION_RE.match(s.d, s.i)
            s.i = m.end()
            sec = bytes(m.group())
            if s.peek() == 0x20 and sec.upper().endswith((b'FIELDS', b'.NOT')):
                s.sp()
                hl = s.plist()
                if not hl or not all(isinstance(x, (Atom, Quoted, Literal)) for x in hl):
                    raise Malformed(s.i, 'header-list malformed')
                sec += b' (...)'
            s.lit(b']')
            sec += b']'
            if s.peek() == 0x3c:
                s.lit(b'<')
                org = s.number()
                s.lit(b'>')
                sec += b'<%d>' % org
            key = name + sec
        s.sp()
        vpos = s.i
        if name == b'FLAGS':
            val = _flag_list(s)
        elif name in (b'UID', b'RFC822.SIZE', b'MODSEQ'):
            val = s.number() if name != b'MODSEQ' else s.plist()
        elif name == b'BINARY.SIZE':
            val = s.number()
        elif name == b'INTERNALDATE':
            q = s.quoted()
            if not re.fullmatch(rb'[ \d]\d-(Jan|Feb|Mar|Apr|May|Jun|Jul|Aug|Sep|Oct|Nov|Dec)'
                                rb'-\d{4} \d\d:\d\d:\d\d [+-]\d{4}', q.value):
                raise Malformed(vpos, f'bad date-time {q.value!r}')
            val = q.value
        elif name == b'ENVELOPE':
            val = _envelope_strict(s)
        elif name in (b'BODYSTRUCTURE',) or (name == b'BODY' and key == b'BODY'):
            val = s.value()
            _check_body(val, vpos)
        elif name in (b'BODY', b'RFC822', b'RFC822.HEADER', b'RFC822.TEXT', b'BINARY'):
            val = s.nstring()
            if isinstance(val, Literal) and val.binary and name != b'BINARY':
                raise Malformed(vpos, 'literal8 outside BINARY')
        elif name in (b'EMAILID', b'THREADID'):
            if s.peek() == 0x28:
                lst = s.plist()
                if len(lst) != 1 or not isinstance(lst[0], Atom):
                    raise Malformed(vpos, 'objectid list malformed')
                val = lst[0].value
            else:
                s.lit(b'NIL')
                val = None
        else:
            raise Malformed(pos, f'unknown FETCH item {name!r}')
        out[key] = val
        if s.peek() == 0x29:
            s.i += 1
            return out
        s.sp()


_MBX_FLAG = re.compile(rb'\\[A-Za-z]+')


def _untagged(s: _S, r: Resp) -> None:
    c = s.peek()
    if 0x30 <= c <= 0x39:
        r.num = s.number()
        s.sp()
        word = s.atom().upper()
        r.name = word
        if word in (b'EXISTS', b'RECENT', b'EXPUNGE'):
            if word == b'EXPUNGE' and r.num == 0:
                raise Malformed(s.i, 'EXPUNGE 0')
            return
        if word == b'FETCH':
            if r.num == 0:
                raise Malformed(s.i, 'FETCH 0')
            s.sp()
            r.data = _fetch_att(s)
            return
        raise Malformed(s.i, f'unknown message-data {word!r}')
    word = s.atom().upper()
    if word in (b'OK', b'NO', b'BAD', b'BYE', b'PREAUTH'):
        r.cond = word
        s.sp()
        _resp_text(s, r)
        return
    r.name = word
    if word == b'CAPABILITY':
        caps = []
        while s.peek() == 0x20:
            s.sp()
            caps.append(s.atom())
        if b'IMAP4REV1' not in [c.upper() for c in caps]:
            raise Malformed(s.i, 'CAPABILITY without IMAP4rev1')
        r.data = caps
    elif word == b'FLAGS':
        s.sp()
        r.data = _flag_list(s)
    elif word in (b'LIST', b'LSUB'):
        s.sp()
        pos = s.i
        flags = s.plist()
        for f in flags:
            if not isinstance(f, Atom) or not _MBX_FLAG.fullmatch(f.value):
                raise Malformed(pos, f'bad mailbox flag {f!r}')
        s.sp()
        if s.peek() == 0x22:
            q = s.quoted()
            if len(q.value) != 1:
                raise Malformed(s.i, 'delimiter must be one QUOTED-CHAR')
            delim = q.value
        else:
            s.lit(b'NIL')
            delim = None
        s.sp()
        name = s.astring()
        r.data = ([f.value for f in flags], delim, name)
    elif word == b'STATUS':
        s.sp()
        name = s.astring()
        s.sp()
        pos = s.i
        lst = s.plist()
        if len(lst) % 2:
            raise Malformed(pos, 'status-att-list has odd length')
        st = {}
        for k, v in zip(lst[::2], lst[1::2]):
            if not isinstance(k, Atom):
                raise Malformed(pos, 'status attribute must be an atom')
            ku = k.value.upper()
            if ku == b'MAILBOXID':
                if not (isinstance(v, list) and len(v) == 1):
                    raise Malformed(pos, 'MAILBOXID value malformed')
            elif not isinstance(v, int):
                raise Malformed(pos, f'status value of {ku!r} must be a number')
            st[ku] = v
        r.data = (name, st)
    elif word == b'SEARCH':
        nums = []
        while s.peek() == 0x20:
            s.sp()
            n = s.number()
            if n == 0:
                raise Malformed(s.i, 'SEARCH result 0')
            nums.append(n)
        r.data = nums
    elif word == b'ID':
        s.sp()
        if s.peek() == 0x28:
            pos = s.i
            lst = s.plist()
            if len(lst) % 2:
                raise Malformed(pos, 'ID list has odd length')
            for k, v in zip(lst[::2], lst[1::2]):
                if not _is_string(k):
                    raise Malformed(pos, 'ID field name must be a string')
                _check_nstring(v, pos, 'ID value')
            r.data = lst
        else:
            s.lit(b'NIL')
    elif word == b'ESEARCH':
        r.data = s.text_to_crlf()
    else:
        raise Malformed(s.i, f'unknown untagged response {word!r}')


def parse_one(data: bytes, pos: int = 0) -> Resp:
    s = _S(data, pos)
    r = Resp('untagged', start=pos)
    c = s.peek()
    if c == 0x2b:                      # '+'
        r.kind = 'cont'
        s.i += 1
        if s.peek() == 0x0d:
            # "+" CRLF: RFC requires SP; pymap never sends it bare
            raise Malformed(s.i, 'continuation without SP')
        s.sp()
        # resp-text or base64 (possibly empty for SASL)
        j = s.d.find(b'\r\n', s.i)
        if j < 0:
            raise Incomplete()
        if j == s.i:
            r.text = b''
        else:
            _resp_text(s, r) if s.peek() == 0x5b else None
            if r.code is None:
                r.text = s.text_to_crlf()
    elif c == 0x2a:                    # '*'
        s.i += 1
        s.sp()
        _untagged(s, r)
    else:
        r.kind = 'tagged'
        m = _TAG_RE.match(s.d, s.i)
        if not m or m.end() == s.i:
            raise Malformed(s.i, f'tag expected, got {s.d[s.i:s.i+10]!r}')
        if m.end() == len(s.d):
            raise Incomplete()
        r.tag = m.group()
        s.i = m.end()
        s.sp()
        cond = s.atom().upper()
        if cond not in (b'OK', b'NO', b'BAD'):
            raise Malformed(s.i, f'tagged condition {cond!r}')
        r.cond = cond
        s.sp()
        _resp_text(s, r)
    s.crlf()
    r.end = s.i
    r.raw = bytes(data[pos:s.i])
    return r


def parse_stream(data: bytes, complete: bool = True) -> list:
    """Parse a whole byte stream into responses.  With complete=True trailing
    partial data is Malformed; otherwise parsing stops there."""
    out = []
    pos = 0
    while pos < len(data):
        try:
            r = parse_one(data, pos)
        except Incomplete:
            if complete:
                raise Malformed(pos, 'stream ends inside a response: '
                                + repr(data[pos:pos + 60]))
            break
        out.append(r)
        pos = r.end
    return out


def check_wellformed(data: bytes, complete: bool = True):
    """None if fine, else (pos, why)."""
    try:
        parse_stream(data, complete)
    except Malformed as exc:
        return exc.pos, exc.why
    return None
