"""In-process pymap servers driven through hand-fed streams on a VLoop.

No change to pymap is needed: the harness installs its own ``Subsystem`` (a
public extension point) whose read/write locks park the calling task at a named
checkpoint before delegating to the real lock, and builds IMAPConnection +
ConnectionState itself so it can project the glass-box state.
"""

from __future__ import annotations

import asyncio
import gc
import os
import socket
import sys
from argparse import Namespace
from contextlib import asynccontextmanager, closing, AsyncExitStack

os.environ.setdefault('FQDN', 'verif.test')

REPO = os.environ.get('VERIF_REPO', '/repo')
if REPO not in sys.path:
    sys.path.insert(0, REPO)

from .vloop import VLoop, OWNER  # noqa: E402

from proxyprotocol.sock import SocketInfoLocal  # noqa: E402
from pysasl.hashing import BuiltinHash  # noqa: E402
from pymap.concurrent import Subsystem, ReadWriteLock  # noqa: E402
from pymap import context as pymap_context  # noqa: E402
from pymap.imap import IMAPConnection  # noqa: E402
from pymap.imap.state import ConnectionState  # noqa: E402
from pymap.context import connection_exit  # noqa: E402


def _cache_sasl_entry_points() -> None:
    """pysasl scans importlib.metadata entry points on EVERY SASLAuth.defaults() call
    (9 ms, twice per connection).  The set of installed mechanisms cannot change
    during a run: cache the scan in the harness process (a third-party library, not
    pymap; semantics unchanged)."""
    import pysasl
    if getattr(pysasl.SASLAuth, '_verif_cached', False):
        return
    orig = pysasl.SASLAuth._get_builtin_mechanisms.__func__
    cache: list = []

    def cached(cls):
        if not cache:
            cache.extend(orig(cls))
        return list(cache)
    pysasl.SASLAuth._get_builtin_mechanisms = classmethod(cached)
    pysasl.SASLAuth._verif_cached = True


_cache_sasl_entry_points()


class FakeArgs(Namespace):
    debug = False
    demo_data = None
    demo_user = 'user1'
    demo_password = 'pass1'

    def __init__(self, **kw):
        super().__init__()
        self.__dict__.update(kw)

    def __getattr__(self, key):
        return None


class _Sock:
    def __init__(self, fd: int, family=socket.AF_INET):
        self.fd = fd
        self.family = family

    def fileno(self):
        return self.fd


# --------------------------------------------------------------------------
# checkpoint subsystem


class Checkpoints:
    """Registry of parked tasks.  ``controlled`` is the set of owners whose
    lock acquisitions park; everybody else passes straight through."""

    def __init__(self, loop: VLoop):
        self.loop = loop
        self.controlled: set[str] = set()
        self.parked: dict[str, tuple[str, asyncio.Future]] = {}
        self.namer = None   # callable(lock) -> name
        self.log: list[tuple[str, str]] = []
        self.on_park = None

    async def park(self, kind: str, lock) -> None:
        owner = OWNER.get()
        if owner is None or owner not in self.controlled:
            return
        name = self.namer(lock) if self.namer else '?'
        label = f'{kind}:{name}'
        fut = self.loop.create_future()
        self.parked[owner] = (label, fut)
        self.log.append((owner, label))
        try:
            await fut
        finally:
            if self.parked.get(owner, (None, None))[1] is fut:
                del self.parked[owner]

    def fail(self, owner: str, exc: BaseException) -> str:
        """make the parked lock acquisition raise instead of proceeding"""
        label, fut = self.parked[owner]
        if not fut.done():
            fut.set_exception(exc)
        return label

    def release(self, owner: str) -> str:
        label, fut = self.parked[owner]
        if not fut.done():
            fut.set_result(None)
        return label


class CkptRWLock(ReadWriteLock):

    def __init__(self, ck: Checkpoints, real: ReadWriteLock):
        super().__init__()
        self._ck = ck
        self._real = real

    @property
    def subsystem(self) -> str:
        return 'asyncio'

    @asynccontextmanager
    async def read_lock(self):
        await self._ck.park('r', self)
        async with self._real.read_lock():
            yield

    @asynccontextmanager
    async def write_lock(self):
        await self._ck.park('w', self)
        async with self._real.write_lock():
            yield


class VerifSubsystem(Subsystem):

    def __init__(self, ck: Checkpoints):
        super().__init__()
        self._ck = ck

    @property
    def subsystem(self) -> str:
        return 'asyncio'

    def execute(self, future):
        return future

    def new_rwlock(self):
        return CkptRWLock(self._ck, ReadWriteLock.for_asyncio())

    def new_event(self):
        from pymap.concurrent import Event
        return Event.for_asyncio()


# --------------------------------------------------------------------------
# transport


class FakeWriter:

    def __init__(self, world: 'World', name: str, fd: int, local: bool):
        self.world = world
        self.name = name
        self.out = bytearray()
        self.chunks: list[tuple[int, bytes]] = []   # (global seq, bytes)
        self.closed = False
        self.gate_drain = False
        self.drain_fut: asyncio.Future | None = None
        self.tls = False
        self.sock = _Sock(fd, socket.AF_UNIX if local else socket.AF_INET)
        self.local = local
        self.fail_writes = False

    # StreamWriter API used by pymap
    def write(self, data) -> None:
        if self.fail_writes:
            raise ConnectionResetError()
        data = bytes(data)
        self.out += data
        self.world.seq += 1
        self.chunks.append((self.world.seq, data))

    def writelines(self, lines) -> None:
        for ln in lines:
            self.write(ln)

    async def drain(self) -> None:
        if self.fail_writes:
            raise ConnectionResetError()
        if self.gate_drain:
            self.drain_fut = self.world.loop.create_future()
            self.world.ck.log.append((self.name, 'drain'))
            try:
                await self.drain_fut
            finally:
                self.drain_fut = None

    def release_drain(self) -> None:
        if self.drain_fut is not None and not self.drain_fut.done():
            self.drain_fut.set_result(None)

    def close(self) -> None:
        self.closed = True

    def is_closing(self) -> bool:
        return self.closed

    async def wait_closed(self) -> None:
        return None

    async def start_tls(self, ssl_context, **kw) -> None:
        self.tls = True

    def get_extra_info(self, name: str, default=None):
        if name == 'socket':
            return self.sock
        if name == 'peername':
            return '/tmp/peer' if self.local else ('10.1.2.3', 40000 + self.sock.fd)
        if name == 'sockname':
            return '/tmp/sock' if self.local else ('10.0.0.1', 143)
        if name == 'ssl_object':
            return None
        return default

    # SocketInfoLocal(transport) wants these
    @property
    def socket(self):
        return self.sock


class Conn:
    """Driver-side handle of one connection."""

    def __init__(self, world: 'World', name: str, local: bool):
        self.world = world
        self.name = name
        self.reader = asyncio.StreamReader(limit=2 ** 16, loop=world.loop)
        self.writer = FakeWriter(world, name, world.next_fd(), local)
        self.state = None
        self.conn = None
        self.task: asyncio.Task | None = None
        self.consumed = 0
        self.tagno = 0

    # output handling
    def take(self) -> bytes:
        data = bytes(self.writer.out[self.consumed:])
        self.consumed = len(self.writer.out)
        return data

    def peek(self) -> bytes:
        return bytes(self.writer.out[self.consumed:])

    def feed(self, data: bytes) -> None:
        rng = getattr(self.world, 'segment_rng', None)
        if rng is None or len(data) < 2:
            self.reader.feed_data(data)
            return
        # the bytes arrive in several segments (TCP does not keep a command, or a literal, in
        # one piece): the server runs on what has arrived before the next piece is delivered
        cuts = sorted({rng.randrange(1, len(data)) for _ in range(rng.choice([1, 1, 2, 3]))})
        pos = 0
        for c in cuts + [len(data)]:
            self.reader.feed_data(data[pos:c])
            pos = c
            if c < len(data):
                self.world.loop.run_owner(self.name)

    def eof(self) -> None:
        self.reader.feed_eof()

    @property
    def done(self) -> bool:
        return self.task is not None and self.task.done()

    @property
    def parked(self) -> str | None:
        p = self.world.ck.parked.get(self.name)
        if p:
            return p[0]
        if self.writer.drain_fut is not None:
            return 'drain'
        return None

    def outcome(self):
        """None (running) | 'ok' | ('exc', repr) | 'cancelled'"""
        if not self.done:
            return None
        if self.task.cancelled():
            return 'cancelled'
        exc = self.task.exception()
        if exc is None:
            return 'ok'
        return ('exc', repr(exc))


class World:
    """One backend + any number of connections on one VLoop."""

    def __init__(self, backend: str = 'dict', *, tls: bool = False,
                 demo: bool = False, users=None, config_kw=None,
                 maildir_dir: str | None = None, layout: str = '++'):
        self.loop = VLoop()
        self.seq = 0
        self._fd = 10
        self.ck = Checkpoints(self.loop)
        self.sub = VerifSubsystem(self.ck)
        self.conns: dict[str, Conn] = {}
        self.backend_kind = backend
        self.ck.namer = self._lock_name
        self.users = users or {'user1': 'pass1'}
        self.hash_context = BuiltinHash(hash_name='sha1', salt_len=0, rounds=1)
        tok = pymap_context.subsystem.set(self.sub)
        self._tok = tok
        if backend == 'dict':
            self._init_dict(tls, demo, config_kw or {})
        elif backend == 'maildir':
            from . import maildirsrv
            maildirsrv.init_world(self, maildir_dir, layout, tls,
                                  config_kw or {})
        else:
            raise ValueError(backend)

    def next_fd(self) -> int:
        self._fd += 1
        return self._fd

    # -- dict backend --------------------------------------------------------

    def _init_dict(self, tls: bool, demo: bool, config_kw: dict) -> None:
        from pymap.backend.dict import DictBackend
        from pymap.user import UserMetadata, Passwords
        first = next(iter(self.users))
        args = FakeArgs(demo_user=first, demo_password=self.users[first],
                        demo_data=('pymap.backend.dict' if demo else None),
                        tls=tls)

        async def init():
            kw = dict(hash_context=self.hash_context, invalid_user_sleep=0.0,
                      subsystem=self.sub,
                      cpu_subsystem=Subsystem.for_asyncio())
            kw.update(config_kw)
            backend, config = await DictBackend.init(args, **kw)
            pw = Passwords(config)
            from pymap.backend.dict import Identity
            for name, spec in list(self.users.items())[1:]:
                if isinstance(spec, tuple):
                    password, roles = spec
                else:
                    password, roles = spec, frozenset()
                hashed = await pw.hash_password(password)
                ident = Identity(name, backend.login, None, {'admin'})
                await ident.set(UserMetadata(config, name, password=hashed,
                                             roles=frozenset(roles)))
            return backend, config
        self.backend, self.config = self.loop.run_coro(init())

    def mailbox_set(self, user: str | None = None):
        user = user or next(iter(self.users))
        ent = self.config.set_cache.get(user)
        return ent[0] if ent else None

    def _lock_name(self, lock) -> str:
        if self.backend_kind == 'dict':
            for user, (mset, _f) in self.config.set_cache.items():
                if mset._set_lock is lock:
                    return 'set'
                if mset._inbox._messages_lock is lock:
                    return 'INBOX'
                for name, mbx in mset._set.items():
                    if mbx._messages_lock is lock:
                        return name
            return '?'
        return '?'

    # -- connections ---------------------------------------------------------

    def connect(self, name: str, *, local: bool = True, service: str = 'imap',
                run_greeting: bool = True) -> Conn:
        c = Conn(self, name, local)
        self.conns[name] = c
        if service == 'imap':
            async def serve():
                conn = IMAPConnection(self.config.commands, self.config,
                                      c.reader, c.writer,
                                      SocketInfoLocal(c.writer))
                state = ConnectionState(self.backend.login, self.config)
                c.conn, c.state = conn, state
                async with AsyncExitStack() as stack:
                    connection_exit.set(stack)
                    stack.enter_context(closing(conn))
                    await conn.run(state)
        elif service == 'sieve':
            from pymap.sieve.manage import ManageSieveServer
            server = ManageSieveServer(self.backend.login, self.config)

            async def serve():
                await server(c.reader, c.writer, SocketInfoLocal(c.writer))
        else:
            raise ValueError(service)
        c.task = self.loop.spawn(serve(), name)
        if run_greeting:
            self.loop.run_owner(name)
        return c

    # -- stepping --------------------------------------------------------------

    def run(self, name: str, budget: int = 200000) -> None:
        """Advance one session until it has nothing ready (it is parked at a
        checkpoint, waiting for input, waiting for an event, or finished)."""
        self.loop.run_owner(name, budget)

    def step(self, name: str) -> str | None:
        """Release ``name`` from its parking point and advance it to the next
        one.  Returns the label it was released from."""
        c = self.conns[name]
        label = None
        if name in self.ck.parked:
            label = self.ck.release(name)
        elif c.writer.drain_fut is not None:
            c.writer.release_drain()
            label = 'drain'
        self.loop.run_owner(name)
        return label

    def send(self, name: str, data: bytes, run: bool = True) -> None:
        self.conns[name].feed(data)
        if run:
            self.loop.run_owner(name)

    def run_to_completion(self, name: str, limit: int = 10000) -> None:
        """Step through all checkpoints of the current command."""
        n = 0
        c = self.conns[name]
        self.loop.run_owner(name)
        while c.parked is not None:
            self.step(name)
            n += 1
            if n > limit:
                raise RuntimeError('too many checkpoints')

    def cmd(self, name: str, line: bytes, tag: bytes | None = None) -> bytes:
        """Send one complete command (with any literals inline as LITERAL+) and
        run the session through every checkpoint until it is idle again.
        Returns the bytes written."""
        c = self.conns[name]
        if tag is None:
            c.tagno += 1
            tag = b'%s%d' % (name.encode(), c.tagno)
        c.feed(tag + b' ' + line + b'\r\n')
        self.run_to_completion(name)
        return c.take()

    def login(self, name: str, user: str | None = None,
              password: str | None = None) -> bytes:
        user = user or next(iter(self.users))
        if password is None:
            spec = self.users[user]
            password = spec[0] if isinstance(spec, tuple) else spec
        return self.cmd(name, b'LOGIN %s %s' % (user.encode(),
                                                password.encode()))

    def settle_all(self, max_vtime: float | None = None) -> None:
        self.loop.settle(max_vtime=max_vtime)

    def drop_refs(self) -> None:
        gc.collect()

    def close(self) -> None:
        for c in self.conns.values():
            if not c.done:
                try:
                    c.eof()
                except Exception:
                    pass
        self.ck.controlled.clear()
        for o in list(self.ck.parked):
            self.ck.release(o)
        for c in self.conns.values():
            c.writer.gate_drain = False
            c.writer.release_drain()
        try:
            self.loop.settle(200000, max_vtime=self.loop.time() + 5)
        except Exception:
            pass
        self.loop.shutdown()
        try:
            pymap_context.subsystem.reset(self._tok)
        except Exception:
            pass
        if self.backend_kind == 'maildir':
            from . import maildirsrv
            maildirsrv.cleanup(self)
