"""C09 - authentication and authorization are sound.

1. TLC checks spec/Conn.tla in the C09 configurations (three users - two
   ordinary, one admin -, every authentication form x credential class:
   right / wrong password / empty password / unknown user / empty user /
   authzid = self, another user, a non-existent user / malformed base64 or
   PLAIN message / '*' cancel at either step / empty response / oversized /
   a command line instead of a response; server without TLS, TLS required
   with a remote and with a local peer): AuthSound (whoever the connection
   acts as, that user's or an admin's credentials verified) and the step
   clauses (failed exchange => nothing changes, LOGIN refused while
   LOGINDISABLED, identity = verified user or requested user for an admin),
   for IMAP and for ManageSieve; and dumps both state graphs.
2. spec -> code: transition tour of both graphs on the real listeners with
   identity probes after each input (IMAP: CAPABILITY for what is advertised,
   LIST of the per-user marker mailbox; ManageSieve: CAPABILITY (SASL, OWNER),
   LISTSCRIPTS with a per-user marker script); all sequences of two inputs,
   TLC -simulate behaviours and seeded walks (all orders of failed and
   successful attempts).
"""

from __future__ import annotations

import random
import time

from ..common import Run
from .. import tlc
from . import conn_common as cc

NOLIMIT = {'bad_command_limit': None}
IMAP_CFG = 'Conn_c09_imap.cfg'
SIEVE_CFG = 'Conn_c09_sieve.cfg'


def make_driver_for(cfg: str):
    def make(env: str, rng):
        # without TLS the peer may be local or remote: both are the model's
        # "plain" environment
        local = rng.random() < 0.5 if env == 'plain' else None
        if cfg.startswith('Conn_c09_sieve'):
            return cc.SieveDriver(env, rng, local=local)
        return cc.ImapDriver(env, rng, rich=False, local=local, config_kw=NOLIMIT)
    return make


def part(run: Run, rng, cfg: str, tier: str, deadline: float, first_id: int) -> dict | None:
    quick = tier == 'quick'
    model = cc.load_model(run, cfg)
    if model is None:
        return None
    if not quick:
        # the step clauses once more, as temporal formulas over the raw actions
        res = tlc.run_tlc('Conn.tla', cfg.replace('.cfg', '_props.cfg'), workers=8,
                          timeout=600)
        run.add_model(res, cfg.replace('.cfg', '_props.cfg'))
        if not res.ok:
            run.machinery(f'temporal clauses of {cfg} failed: {res.violated or res.error}')
            return None
    info: dict = {'graph': {'nodes': len(model.nodes), 'core_states': len(model.core_nodes),
                            'inputs': len(model.labels)}}
    ex = cc.Exec(run, 'C09', model, cfg, make_driver_for(cfg), first_id=first_id)
    t0 = time.time()
    info['tour'] = cc.tour(ex, 300, deadline)
    info['tour_wall_s'] = round(time.time() - t0, 1)

    # all sequences of two inputs from every initial state the server starts in
    t1 = time.time()
    nseq = 0
    seen_env = set()
    for n in model.inits:
        env = cc.env_of_init(model, n)[0]
        if env in seen_env:
            continue
        seen_env.add(env)
        seqs = list(cc.label_sequences(model, n, 2))
        if quick:
            cap = 300 if env != 'plain' else 6000 if cfg == IMAP_CFG else 3000
            seqs = rng.sample(seqs, min(len(seqs), cap))
        for labels in seqs:
            if time.time() > deadline:
                info['seq_len2_cut'] = True
                break
            cc.run_labels(ex, env, labels, 'seq2', probe_every=2)
            nseq += 1
    info['seq_len2'] = nseq
    info['seq_wall_s'] = round(time.time() - t1, 1)

    # orders of failed and successful attempts: sequences of exchanges only
    t2 = time.time()
    auths = [l for l in model.labels if model.parsed[l]['kind'] == 'auth']
    good = [l for l in auths if model.parsed[l]['cred']['k'] == 'right']
    others = [l for l in model.labels if model.parsed[l]['kind'] == 'cmd']
    envs = sorted(cc.ENVS)
    for i in range(400 if quick else 8000):
        seq = []
        for _ in range(rng.randint(3, 7)):
            x = rng.random()
            seq.append(rng.choice(good) if x < 0.3 else
                       rng.choice(auths) if x < 0.85 else rng.choice(others))
        cc.run_labels(ex, rng.choice(envs), seq, 'attempts')
    try:
        behs, sres = tlc.simulate('Conn.tla', cfg, num=100 if quick else 3000,
                                  depth=25, seed=run.seed + 1)
        run.add_model(sres, cfg + ' -simulate')
    except Exception as exc:               # noqa: BLE001
        run.machinery(f'simulation failed: {exc!r}')
        return None
    for beh in behs:
        labels = [l for l, _ in beh[1:] if l != 'Terminated']
        st0 = beh[0][1]
        env = 'plain' if not st0['stls'] else ('tlslocal' if st0['mechs'] else 'tlsremote')
        cc.run_labels(ex, env, labels, 'simulate')
    info['simulated_behaviours'] = len(behs)
    for i in range(150 if quick else 3000):
        cc.biased_walk(ex, rng.choice(envs), rng, rng.randint(6, 25))
    info['random_wall_s'] = round(time.time() - t2, 1)
    info['executions'] = ex.execs
    info['steps_on_server'] = ex.steps
    info['observations'] = sorted(ex.notes)[:10]
    return info


def starttls_pipelining(run) -> None:
    """Conn.tla: LOGIN (and AUTHENTICATE PLAIN) change `auth` only in a state in which the
    mechanism is offered, i.e. - remote peer, TLS configured - only after STARTTLS.  What the
    client sent in plain text BEHIND the STARTTLS line (one segment) was not sent inside TLS:
    it must not authenticate anybody."""
    import base64
    from ..server import World
    cred = base64.b64encode(b'\x00user1\x00pass1')
    cases = {
        'imap LOGIN': ('imap', b'a1 STARTTLS\r\na2 LOGIN user1 pass1\r\n', b'a3 LIST "" *\r\n'),
        'imap AUTHENTICATE PLAIN': ('imap', b'a1 STARTTLS\r\na2 AUTHENTICATE PLAIN ' + cred + b'\r\n',
                                    b'a3 LIST "" *\r\n'),
        'sieve AUTHENTICATE PLAIN': ('sieve', b'STARTTLS\r\nAUTHENTICATE "PLAIN" "' + cred + b'"\r\n',
                                     b'LISTSCRIPTS\r\n'),
    }
    for name, (service, blob, probe) in cases.items():
        w = World('dict', demo=False, users=cc.USERS, tls=True,
                  config_kw={'bad_command_limit': None})
        try:
            cc.provision(w)
            c = w.connect('a', local=False, service=service)
            greeting = c.take()
            w.send('a', blob)                    # ONE plain-text segment
            w.run_to_completion('a')
            out = c.take()
            w.send('a', probe)
            w.run_to_completion('a')
            shown = c.take()
            run.count_exec(('starttls-pipelining', name), nontrivial=True)
            st = c.state
            authed = (st is not None and getattr(st, '_session', None) is not None) \
                or b'marker_' in shown
            if authed:
                run.violation(
                    f'{name}: sent in plain text behind STARTTLS in one segment, executed after '
                    f'the handshake: {out[-160:]!r}; then {probe!r} -> {shown[-120:]!r} '
                    f'(greeting {greeting[:80]!r})',
                    {'check': 'C09', 'part': 'starttls-pipelining', 'case': name}, None)
        finally:
            w.close()


def main(tier: str) -> int:
    run = Run('C09', tier)
    rng = random.Random(run.seed)
    t0 = time.time()
    quick = tier == 'quick'
    run.cov['rule'] = (
        'executions = sequences of authentication exchanges and commands run on a fresh '
        'in-process pymap server (IMAP listener and ManageSieve listener, dict backend, '
        'users user1/user2 ordinary and adm with the admin role) and tracked through the '
        'TLC state graph of Conn.tla; non-trivial = at least one input changed the '
        'connection state (authenticated as somebody / unauthenticated / TLS / closed); '
        'distinct = distinct (listener, environment, input sequence)')
    run.assumptions += [
        'dict backend Login/Identity (the maildir backend shares pymap.user.Passwords and '
        'the same authenticate/authorize structure; it is not run here)',
        'sha1 BuiltinHash with one round in the harness (the verification path through '
        'pysasl is the same for every hash)',
        'TLS is a flag on a fake transport; "local peer" = AF_UNIX socket family',
        'token credentials (pymap-admin login tokens) are out of scope: only LOGIN and '
        'the SASL mechanisms offered (PLAIN, LOGIN)',
        'the consecutive-BAD limit is switched off (bad_command_limit=None)']
    cc.fingerprints()
    imap = part(run, rng, IMAP_CFG, tier, t0 + (40 if quick else 500), 0)
    if imap is None:
        return run.finish()
    run.notes['imap'] = imap
    sieve = part(run, rng, SIEVE_CFG, tier, t0 + (75 if quick else 1000), 1000000)
    if sieve is None:
        return run.finish()
    run.notes['sieve'] = sieve
    starttls_pipelining(run)
    unc = imap['tour']['uncovered']
    run.cov['exhaustive'] = unc == 0
    run.notes['exhaustive_scope'] = (
        'every (state, input) pair of the two Conn_c09 graphs that the server can be '
        'driven to, with identity probes after each input; every sequence of two inputs '
        'from the IMAP configuration without TLS (the others sampled in the quick tier)')
    unc += sieve['tour']['uncovered']
    run.cov['exhaustive'] = unc == 0
    if sieve['tour']['pairs_in_states_the_server_never_enters']:
        run.notes['sieve_unrealised'] = (
            'the model leaves open (a) whether a local peer is offered mechanisms before '
            'STARTTLS and (b) whether an admin who names another user acts as that user or '
            'as himself; the ManageSieve listener offers none and ignores the authorization '
            'identity, so the model states behind the other choice are never entered')
    return run.finish()


def replay(path: str) -> int:
    return cc.replay_file('C09', path, make_driver_for)
