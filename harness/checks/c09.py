"""C09 - authentication and authorization are sound.

1. TLC checks spec/Conn.tla in the C09 configurations (three users - two
   ordinary, one admin -, every authentication form x credential class:
   right / wrong password / empty password / unknown user / empty user /
   authzid = self, another user, a non-existent user / malformed base64 or
   PLAIN message / '*' cancel at either step / empty response / oversized /
   a command line instead of a response; server without TLS, TLS required
   with a remote and with a local peer): AuthSound (whoever the connection
   acts as, that user's or an admin's credentials verified) and the step
   clauses (failed exchange => nothing changes, LOGIN refused while
   LOGINDISABLED, identity = verified user or requested user for an admin),
   for IMAP and for ManageSieve; and dumps both state graphs.
2. spec -> code: transition tour of both graphs on the real listeners with
   identity probes after each input (IMAP: CAPABILITY for what is advertised,
   LIST of the per-user marker mailbox; ManageSieve: CAPABILITY (SASL, OWNER),
   LISTSCRIPTS with a per-user marker script); all sequences of two inputs,
   TLC -simulate behaviours and seeded walks (all orders of failed and
   successful attempts).  On BOTH backends: the dict backend's Login/Identity
   and the maildir backend's (users in the passwd-style files pymap-etc-passwd /
   -shadow / -group under the base directory, provisioned through the backend's
   own Identity.set; the user's mailboxes are found through the path field of
   the users file).
3. maildir-specific histories for which Conn has no abstract input (a user
   without a password entry, a disabled and a locked one, a password entry
   without user, mailbox paths that lie elsewhere, the file format's separators
   ':' CR LF in names, '/' and '..' in names, case and Unicode look-alikes, the
   empty name of a blank line, long names, admin by the roles file / by uid 0):
   each attempt is followed by the
   probes "is the connection authenticated (LIST accepted)?  whose marker
   mailbox does it show?".
4. code -> spec: every execution of 2. and 3. is written down as a trace of
   (what was presented, what was observed) and TLC evaluates the clauses of
   Conn.tla on it (spec/Trace_C09.tla); for 3. that is the only judge.
"""

from __future__ import annotations

import os
import random
import time

from ..common import Run
from .. import tlc
from . import conn_common as cc

NOLIMIT = {'bad_command_limit': None}
IMAP_CFG = 'Conn_c09_imap.cfg'
SIEVE_CFG = 'Conn_c09_sieve.cfg'
BACKENDS = ('dict', 'maildir')


def make_driver_for(cfg: str, backend: str = 'dict'):
    def make(env: str, rng):
        # without TLS the peer may be local or remote: both are the model's
        # "plain" environment
        local = rng.random() < 0.5 if env == 'plain' else None
        if cfg.startswith('Conn_c09_sieve'):
            return cc.SieveDriver(env, rng, local=local, backend=backend)
        return cc.ImapDriver(env, rng, rich=False, local=local, config_kw=NOLIMIT,
                             backend=backend)
    return make


# how much of each kind of execution: (quick, thorough); None = all
SCALE = {
    ('dict', IMAP_CFG): {'seq_plain': (None, None), 'seq_other': (300, None),
                         'attempts': (400, 8000), 'sim': (100, 3000), 'walks': (150, 3000)},
    ('dict', SIEVE_CFG): {'seq_plain': (2400, None), 'seq_other': (300, None),
                          'attempts': (400, 8000), 'sim': (100, 3000), 'walks': (150, 3000)},
    ('maildir', IMAP_CFG): {'seq_plain': (1200, None), 'seq_other': (100, None),
                            'attempts': (150, 8000), 'sim': (30, 2000), 'walks': (60, 3000)},
    ('maildir', SIEVE_CFG): {'seq_plain': (500, None), 'seq_other': (60, None),
                             'attempts': (80, 4000), 'sim': (20, 1000), 'walks': (30, 1500)},
}

_MODELS: dict = {}
_SIMS: dict = {}


def model_of(run: Run, cfg: str, tier: str):
    if cfg in _MODELS:
        return _MODELS[cfg]
    model = cc.load_model(run, cfg)
    if model is not None and tier != 'quick':
        # the step clauses once more, as temporal formulas over the raw actions
        res = tlc.run_tlc('Conn.tla', cfg.replace('.cfg', '_props.cfg'), workers=8,
                          timeout=600)
        run.add_model(res, cfg.replace('.cfg', '_props.cfg'))
        if not res.ok:
            run.machinery(f'temporal clauses of {cfg} failed: {res.violated or res.error}')
            model = None
    _MODELS[cfg] = model
    return model


def simulated(run: Run, cfg: str, tier: str) -> list | None:
    """TLC -simulate behaviours of one configuration, shared out among the backends"""
    if cfg not in _SIMS:
        q = 0 if tier == 'quick' else 1
        num = sum(SCALE[(b, cfg)]['sim'][q] for b in BACKENDS)
        try:
            behs, sres = tlc.simulate('Conn.tla', cfg, num=num, depth=25, seed=run.seed + 1)
            run.add_model(sres, cfg + ' -simulate')
        except Exception as exc:               # noqa: BLE001
            run.machinery(f'simulation failed: {exc!r}')
            behs = None
        _SIMS[cfg] = behs
    return _SIMS[cfg]


def part(run: Run, rng, cfg: str, backend: str, tier: str, deadline: float,
         first_id: int, traces: list) -> dict | None:
    quick = tier == 'quick'
    q = 0 if quick else 1
    scale = {k: v[q] for k, v in SCALE[(backend, cfg)].items()}
    model = model_of(run, cfg, tier)
    if model is None:
        return None
    info: dict = {'graph': {'nodes': len(model.nodes), 'core_states': len(model.core_nodes),
                            'inputs': len(model.labels)}}
    ex = cc.Exec(run, 'C09', model, cfg, make_driver_for(cfg, backend), first_id=first_id)
    ex.keep_traces = True
    t0 = time.time()
    info['tour'] = cc.tour(ex, 300, deadline)
    info['tour_wall_s'] = round(time.time() - t0, 1)

    # all sequences of two inputs from every initial state the server starts in
    t1 = time.time()
    nseq = 0
    seen_env = set()
    for n in model.inits:
        env = cc.env_of_init(model, n)[0]
        if env in seen_env:
            continue
        seen_env.add(env)
        seqs = list(cc.label_sequences(model, n, 2))
        cap = scale['seq_plain'] if env == 'plain' else scale['seq_other']
        if cap is not None and cap < len(seqs):
            seqs = rng.sample(seqs, cap)
            info['seq_len2_sampled'] = True
        for labels in seqs:
            if time.time() > deadline:
                info['seq_len2_cut'] = True
                break
            cc.run_labels(ex, env, labels, 'seq2', probe_every=2)
            nseq += 1
    info['seq_len2'] = nseq
    info['seq_wall_s'] = round(time.time() - t1, 1)

    # orders of failed and successful attempts: sequences of exchanges only
    t2 = time.time()
    auths = [l for l in model.labels if model.parsed[l]['kind'] == 'auth']
    good = [l for l in auths if model.parsed[l]['cred']['k'] == 'right']
    others = [l for l in model.labels if model.parsed[l]['kind'] == 'cmd']
    envs = sorted(cc.ENVS)
    for i in range(scale['attempts']):
        seq = []
        for _ in range(rng.randint(3, 7)):
            x = rng.random()
            seq.append(rng.choice(good) if x < 0.3 else
                       rng.choice(auths) if x < 0.85 else rng.choice(others))
        cc.run_labels(ex, rng.choice(envs), seq, 'attempts')
    behs = simulated(run, cfg, tier)
    if behs is None:
        return None
    # the behaviours TLC simulated are shared out: dict takes the first ones
    lo = 0
    for b in BACKENDS:
        if b == backend:
            break
        lo += SCALE[(b, cfg)]['sim'][q]
    mine = behs[lo:lo + scale['sim']]
    for beh in mine:
        labels = [l for l, _ in beh[1:] if l != 'Terminated']
        st0 = beh[0][1]
        env = 'plain' if not st0['stls'] else ('tlslocal' if st0['mechs'] else 'tlsremote')
        cc.run_labels(ex, env, labels, 'simulate')
    info['simulated_behaviours'] = len(mine)
    for i in range(scale['walks']):
        cc.biased_walk(ex, rng.choice(envs), rng, rng.randint(6, 25))
    info['random_wall_s'] = round(time.time() - t2, 1)
    info['executions'] = ex.execs
    info['steps_on_server'] = ex.steps
    info['observations'] = sorted(ex.notes)[:10]
    traces += ex.traces
    return info


# --------------------------------------------------------------------------
# maildir-specific histories

# model name -> (name in the users file, present secret; None: no credentials verify)
MD_USERS = {
    'nopw': ('nopw', None),         # line in the users file, none in the passwords file
    'off': ('off', None),           # Identity.set without a password: '*'
    'locked': ('locked', None),     # the hash prefixed with '!' by hand (passwd -l)
    'far': ('far', 'farpw'),        # mailbox path elsewhere/deep/far
    'out': ('out', 'outpw'),        # mailbox path ../outside: next to the base directory
    'colon': ('co:lon', 'colonpw'),  # the separator of the file format inside the name
    'blank': ('', None),            # a blank line in the users file reads as a nameless user
    'gadm': ('gadm', 'gadmpw'),     # admin by a hand-written line of the roles file
    'root0': ('root0', 'root0pw'),  # uid 0 in the users file (the backend: admin)
}
# names that are nobody's although something of them is left in the files
MD_GHOSTS = {
    'orphan': 'orphanpw',           # line in the passwords file, none in the users file
}
# the secret these had while they could still log in (to create the marker mailbox)
MD_WAS = {'nopw': 'nopw-was', 'off': 'off-was', 'locked': 'lockedpw'}
MD_PATH = {'far': 'elsewhere/deep/far', 'out': '../outside'}
_MD: dict = {}


def _edit(base: str, fname: str, fn) -> None:
    """an operator with an editor: fn(lines) -> lines (CRLF line ends, as pymap writes them)"""
    path = os.path.join(base, fname)
    with open(path, newline='') as f:
        lines = f.read().split('\r\n')
    if lines and lines[-1] == '':
        lines.pop()
    lines = fn(lines)
    with open(path, 'w', newline='') as f:
        f.write(''.join(ln + '\r\n' for ln in lines))


def md_template() -> str:
    """The template store of cc.maildir_template() plus the accounts above, set up by an operator:
    Identity.set, a first IMAP session each (marker mailbox `marker_<model name>`), then the edits
    by hand."""
    if 'tpl' in _MD:
        return _MD['tpl']
    import shutil
    from ..server import World
    base_tpl = cc.maildir_template()
    tpl = os.path.join(os.path.dirname(base_tpl), 'tpl-histories')
    shutil.copytree(base_tpl, tpl, symlinks=True)
    base = os.path.join(tpl, 'base')
    w = World('maildir', users=cc.USERS, maildir_dir=base,
              config_kw={'_provision': False, 'bad_command_limit': None})
    try:
        first = {m: (real, MD_WAS.get(m, sec)) for m, (real, sec) in MD_USERS.items()
                 if m != 'blank'}
        first.update({m: (m, sec) for m, sec in MD_GHOSTS.items()})
        for n, (m, (real, sec)) in enumerate(first.items()):
            if m in MD_PATH:
                # (pymap creates the user's maildir at the first login with os.mkdir: the
                # directories above it have to exist, else BYE [SERVERBUG] FileNotFoundError)
                os.makedirs(os.path.dirname(os.path.normpath(os.path.join(base, MD_PATH[m]))),
                            exist_ok=True)
            cc.md_set_user(w, real, sec, path=MD_PATH.get(m))
            cc.md_first_session(w, f'h{n}', real, sec, 'marker_' + m, sieve=False)
        cc.md_set_user(w, 'off', None)
        # two more accounts, made AFTER user1, whose names differ from 'user1' by outer white
        # space only (own secrets, which are never presented): they are nobody the model knows;
        # a reader of the files that trims names would let their lines replace user1's
        cc.md_set_user(w, 'user1 ', 'tsp-7f3a-secret')
        cc.md_set_user(w, ' user1', 'lsp-91c2-secret')
    finally:
        w.close()

    # by hand
    def field(line, i, new=None):
        parts = line.split(':')
        if new is not None:
            parts[i] = new
        return ':'.join(parts)
    _edit(base, 'pymap-etc-shadow',
          lambda ls: [('locked:!' + ln.split(':', 1)[1]) if ln.startswith('locked:') else ln
                      for ln in ls if not ln.startswith('nopw:')])
    _edit(base, 'pymap-etc-passwd',
          lambda ls: [field(ln, 2, '0') if ln.startswith('root0:') else ln
                      for ln in ls if not ln.startswith('orphan:')] + [''])
    _edit(base, 'pymap-etc-group',
          lambda ls: [ln + ',gadm' if ln.startswith('admin:') else ln for ln in ls])
    _MD['tpl'] = tpl
    _MD['shadow'] = {}
    with open(os.path.join(base, 'pymap-etc-shadow'), newline='') as f:
        for ln in f.read().split('\r\n'):
            if ln:
                name, _, rest = ln.replace('\\:', '\0').partition(':')
                _MD['shadow'][name.replace('\0', ':')] = rest.split(':')[0].replace('\0', ':')
    return tpl


def md_table() -> dict:
    """real name -> (model name, present secret or None) of every EXISTING user"""
    t = {real: (m, cc.password(real)) for m, real in
         (('u1', 'user1'), ('u2', cc.U2), ('adm', 'adm'))}
    t.update({real: (m, sec) for m, (real, sec) in MD_USERS.items()})
    return t


def classify(name: bytes, secret: bytes) -> tuple[str, str]:
    """(k, c) of what was presented, from the table the store was provisioned with: c = the
    existing user whose name these octets are exactly, k = right iff the secret is that
    user's stored one."""
    table = md_table()
    try:
        ent = table.get(name.decode('utf-8'))
    except UnicodeDecodeError:
        ent = None
    if ent is None:
        return 'unknown', cc.NONE
    model, sec = ent
    if sec is not None and secret == sec.encode():
        return 'right', model
    return 'wrongpw', model


def model_name(name: bytes) -> str:
    """authorization identity as the trace names it: the existing user, or a string that is
    nobody's"""
    if not name:
        return cc.NONE
    try:
        ent = md_table().get(name.decode('utf-8'))
    except UnicodeDecodeError:
        ent = None
    return ent[0] if ent else 'ghost'


def presented_names(base_dir: str) -> list:
    """(octets presented as the name, the user whose secrets go with them)"""
    u2 = cc.U2
    out: list = []

    def add(near, *names):
        for n in names:
            out.append((n if isinstance(n, bytes) else n.encode(), near))
    # the accounts themselves
    add('user1', 'user1')
    add(u2, u2)
    add('adm', 'adm')
    for m, (real, _sec) in MD_USERS.items():
        add(real, real)
    add('orphan', 'orphan')
    # the separators of the file format; the fields next to the name
    add('user1', 'user1:x', 'user1:', ':user1', 'user1:x::::user1:', 'user1\r\n', 'user1\n',
        'user1\r', '\nuser1', '\r\nuser1', 'x\r\nuser1', 'user1\r\nadm', 'user1\\', 'user1\0',
        'user1:x::::adm:')
    add('co:lon', 'co', 'lon', 'co\\:lon', 'co:lon:', 'co:', 'co:lon:x')
    add('adm', 'adm\r\nuser1', 'admin', 'x::adm', 'admin:x::adm')
    add('root0', 'root0:x:0', '0', 'root')
    # the name as a path
    add('user1', '../user1', 'user1/', './user1', 'user1/.', 'user1/../user1', '/user1',
        os.path.join(base_dir, 'user1'), '..', '.', 'far/../user1', 'base/user1',
        '../base/user1', 'user1/cur', 'user1/.marker_u1', '.marker_u1')
    add('far', 'elsewhere/deep/far', 'elsewhere', 'deep/far', 'far/')
    add('out', '../outside', 'outside', '../out')
    # case, look-alikes (FULLWIDTH u, SOFT HYPHEN, ZERO WIDTH SPACE, SUPERSCRIPT ONE, NO-BREAK
    # SPACE - what SASLprep / NFKC / casefold map onto the ASCII name), blanks
    add('user1', 'USER1', 'User1', 'uSER1', '\uff55ser1', 'us\u00ader1', 'user1\u200b',
        'user\u00b9', 'user1 ', ' user1', 'user1\t', 'user1\u00a0', 'USER\uff11')
    add(u2, 'USER\uff11', 'user\uff11 ', 'user\U0001d7cf', 'user\uff11\u00ad')
    add('adm', 'ADM', 'Adm', 'adm ', '\u0430dm')          # CYRILLIC SMALL LETTER A
    add('far', 'FAR', 'Far')
    add('co:lon', 'CO:LON', 'Co:lon')
    # no name, long names, octets that are no UTF-8
    add('user1', '', ' ', 'user1' * 800, 'u' * 30000, b'user1\xff', b'\xffuser1', b'user\xc0\xb1')
    return out


def secrets_for(near: str, rng, name: bytes | None = None) -> list:
    table = md_table()
    cands = []
    sec = table.get(near, (None, MD_GHOSTS.get(near)))[1]
    was = None
    for m, (real, _s) in MD_USERS.items():
        if real == near and m in MD_WAS:
            was = MD_WAS[m]
    if near in MD_GHOSTS:
        sec = MD_GHOSTS[near]
    if sec is not None:
        cands.append(sec)
    if was is not None:
        cands.append(was)
    if near in cc.OLD_SECRET:
        cands.append(cc.OLD_SECRET[near])
    stored = _MD['shadow'].get(near)
    if stored:
        cands.append(stored)                    # the stored representation itself
        cands.append(stored.lstrip('!'))
    if name == b'user1':
        # the secrets of the accounts whose names are 'user1' with outer white space, presented
        # under the exact name 'user1' only (under their own names they are right)
        cands[1:1] = ['tsp-7f3a-secret', 'lsp-91c2-secret']
    cands += ['', rng.choice(['x', '*', '!', 'None', 'x' * 5000])]
    return [c.encode() for c in cands]


class History:
    """One server on a copy of the histories' template; every attempt on its own connection."""

    def __init__(self, env: str, rng):
        self.env = env
        self.rng = rng
        kw = dict(cc.ENVS[env])
        self.local = kw.pop('local', True)
        self.world = cc.maildir_world(kw['tls'], NOLIMIT, md_template())
        self.n = 0

    def close(self) -> None:
        self.world.close()

    def connection(self) -> cc.ImapDriver:
        self.n += 1
        return cc.ImapDriver(self.env, self.rng, rich=False, local=self.local,
                             world=self.world, conn=f'c{self.n}')


def attempt_trace(h: History, steps: list) -> tuple[list, dict]:
    """steps: [(form, name, secret, authzid) | 'STARTTLS'] on one new connection.  After every
    step the probes of ImapDriver.observe (LIST of the marker mailboxes: authenticated?  as
    whom?  CAPABILITY: what is advertised).  -> (events, replay dict)"""
    d = h.connection()
    obs = d.observe(True)
    obs['last'] = 'INIT'
    events = [cc.trace_init('imap', obs)]
    presented = []
    for st in steps:
        before = cc.snapshot(h.world)
        if st == 'STARTTLS':
            inp = {'kind': 'cmd', 'name': 'STARTTLS'}
            last = d.execute(inp)
            presented.append('STARTTLS')
        else:
            form, name, secret, authzid = st
            k, c = classify(name, secret)
            z = model_name(authzid)
            if authzid and authzid == name:
                z = c if c != cc.NONE else 'ghost'
            inp = {'kind': 'auth', 'form': form, 'cred': {'k': k, 'c': c, 'z': z}}
            last = d.auth_raw(form, name, secret, authzid)
            presented.append([form, _show(name), _show(secret), _show(authzid)])
        after = cc.snapshot(h.world)
        obs = d.observe(True)
        obs['last'] = last
        events.append(cc.trace_event(inp, obs, before != after, events))
        if obs.get('closed'):
            break
    replay = {'check': 'C09', 'kind': 'md-history', 'backend': 'maildir', 'env': h.env,
              'presented': presented,
              'steps': [s if s == 'STARTTLS' else [s[0]] + [x.decode('latin1') for x in s[1:]]
                        for s in steps],
              'transcript': [(a, b.decode('latin1')[:400]) for a, b in d.transcript[-30:]]}
    d.close()
    return events, replay


def _show(b: bytes) -> str:
    s = repr(b)
    return s if len(s) < 80 else s[:50] + f'...[{len(b)} octets]'


def maildir_histories(run: Run, rng, tier: str, traces: list) -> dict:
    quick = tier == 'quick'
    t0 = time.time()
    md_template()
    cc.register_users({real: m for m, (real, _s) in MD_USERS.items() if real})
    cc.register_users({m: m for m in MD_GHOSTS})
    consts = cc.trace_constants()
    table = md_table()
    if {m for m, _s in table.values()} != set(consts['Users']):
        run.machinery(f'Users of {cc.TRACE_SPEC[1]} {sorted(consts["Users"])} differ from the '
                      f'provisioned ones {sorted(m for m, _s in table.values())}')
        return {}
    n0 = len(traces)
    accepted = 0
    forms = ['LOGIN', 'PLAIN', 'LOGINMECH']

    def record(ev_rep):
        nonlocal accepted
        events, replay = ev_rep
        ok = any(e.get('auth') not in (cc.NONE, None) for e in events[1:])
        accepted += ok
        traces.append((events, replay, False))
        run.count_exec(['md-history', replay['env'], replay['steps']], nontrivial=ok)

    h = History('plain', rng)
    try:
        names = presented_names(h.world.base_dir)
        for name, near in names:
            secs = secrets_for(near, rng, name)
            if quick and len(secs) > 4 and name != b'user1':
                secs = secs[:1] + rng.sample(secs[1:], 3)
            for i, sec in enumerate(secs):
                # every secret in one form (all forms in the thorough tier); the first
                # secret - the one that verifies if the name were read as `near` - in all
                fs = forms if (i == 0 or not quick) else [forms[(i + len(name)) % 3]]
                for f in fs:
                    if f != 'LOGIN' and b'\0' in name:
                        continue
                    record(attempt_trace(h, [(f, name, sec, b'')]))
                    if f == 'PLAIN' and i == 0:
                        record(attempt_trace(h, [(f, name, sec, name)]))
        # authorization identities (PLAIN): admins by the roles file / uid 0, ordinary users,
        # names that are nobody's
        zs = [b'user1', cc.U2.encode(), b'adm', b'far', b'co:lon', b'orphan', b'User1',
              b'../user1', b'user1\r\n', b'nopw', b'ghost', b' ', b'user1/']
        for real, sec in (('gadm', 'gadmpw'), ('root0', 'root0pw'), ('adm', 'admpw'),
                          ('user1', 'pass1'), ('far', 'farpw'), ('co:lon', 'colonpw')):
            for z in zs:
                record(attempt_trace(h, [('PLAIN', real.encode(), sec.encode(), z)]))
                if not quick or z in (b'user1', b'orphan'):
                    record(attempt_trace(h, [('PLAIN', real.encode(), b'wrong', z)]))
        # several attempts on one connection: failures first, then a name that is not quite
        # an account's, then (re-authentication) another account's right credentials
        pool = [(n, s) for n, s in names if n and len(n) < 64]
        for i in range(60 if quick else 1500):
            steps = []
            for _ in range(rng.randint(2, 4)):
                n, near = rng.choice(pool)
                steps.append((rng.choice(forms), n, rng.choice(secrets_for(near, rng)), b''))
            if rng.random() < 0.5:
                real = rng.choice(['user1', 'far', 'co:lon', 'adm'])
                steps.insert(rng.randrange(len(steps) + 1),
                             (rng.choice(forms), real.encode(), table[real][1].encode(), b''))
            steps = [s for s in steps if not (s[0] != 'LOGIN' and b'\0' in s[1])]
            record(attempt_trace(h, steps))
    finally:
        h.close()
    # LOGINDISABLED environments: before and after STARTTLS
    for env in ('tlsremote', 'tlslocal'):
        h = History(env, rng)
        try:
            for real, sec in (('user1', 'pass1'), ('far', 'farpw'), ('co:lon', 'colonpw'),
                              ('nopw', 'nopw-was'), ('orphan', 'orphanpw'), ('User1', 'pass1')):
                for f in forms:
                    a = (f, real.encode(), sec.encode(), b'')
                    record(attempt_trace(h, [a, 'STARTTLS', a]))
        finally:
            h.close()
    return {'traces': len(traces) - n0, 'with_an_accepted_exchange': accepted,
            'names_presented': len(names), 'wall_s': round(time.time() - t0, 1),
            'accounts': sorted(MD_USERS) + sorted(MD_GHOSTS)}


# --------------------------------------------------------------------------

def starttls_pipelining(run, backend: str = 'dict') -> None:
    """Conn.tla: LOGIN (and AUTHENTICATE PLAIN) change `auth` only in a state in which the
    mechanism is offered, i.e. - remote peer, TLS configured - only after STARTTLS.  What the
    client sent in plain text BEHIND the STARTTLS line (one segment) was not sent inside TLS:
    it must not authenticate anybody."""
    import base64
    from ..server import World
    cred = base64.b64encode(b'\x00user1\x00pass1')
    cases = {
        'imap LOGIN': ('imap', b'a1 STARTTLS\r\na2 LOGIN user1 pass1\r\n', b'a3 LIST "" *\r\n'),
        'imap AUTHENTICATE PLAIN': ('imap', b'a1 STARTTLS\r\na2 AUTHENTICATE PLAIN ' + cred + b'\r\n',
                                    b'a3 LIST "" *\r\n'),
        'sieve AUTHENTICATE PLAIN': ('sieve', b'STARTTLS\r\nAUTHENTICATE "PLAIN" "' + cred + b'"\r\n',
                                     b'LISTSCRIPTS\r\n'),
    }
    for name, (service, blob, probe) in cases.items():
        if backend == 'dict':
            w = World('dict', demo=False, users=cc.USERS, tls=True,
                      config_kw={'bad_command_limit': None})
        else:
            w = cc.maildir_world(True, {'bad_command_limit': None})
        try:
            if backend == 'dict':
                cc.provision(w)
            c = w.connect('a', local=False, service=service)
            greeting = c.take()
            w.send('a', blob)                    # ONE plain-text segment
            w.run_to_completion('a')
            out = c.take()
            w.send('a', probe)
            w.run_to_completion('a')
            shown = c.take()
            run.count_exec(('starttls-pipelining', backend, name), nontrivial=True)
            st = c.state
            authed = (st is not None and getattr(st, '_session', None) is not None) \
                or b'marker_' in shown or b'"active"' in shown
            if authed:
                run.violation(
                    f'{name} ({backend}): sent in plain text behind STARTTLS in one segment, '
                    f'executed after the handshake: {out[-160:]!r}; then {probe!r} -> '
                    f'{shown[-120:]!r} (greeting {greeting[:80]!r})',
                    {'check': 'C09', 'part': 'starttls-pipelining', 'case': name,
                     'backend': backend}, None)
        finally:
            w.close()


def main(tier: str) -> int:
    run = Run('C09', tier)
    rng = random.Random(run.seed)
    t0 = time.time()
    quick = tier == 'quick'
    run.cov['rule'] = (
        'executions = sequences of authentication exchanges and commands run on a fresh '
        'in-process pymap server (IMAP listener and ManageSieve listener; dict backend and '
        'maildir backend; users user1 / its look-alike ordinary and adm with the admin role) and '
        'tracked through the TLC state graph of Conn.tla, plus - maildir - attempts with names '
        'and accounts Conn has no abstract input for, each judged by TLC on its trace '
        '(Trace_C09.tla); non-trivial = at least one input changed the '
        'connection state (authenticated as somebody / unauthenticated / TLS / closed); '
        'distinct = distinct (listener, backend, environment, input sequence)')
    run.assumptions += [
        'sha1 BuiltinHash with one round in the harness (the verification path through '
        'pysasl is the same for every hash)',
        'TLS is a flag on a fake transport; "local peer" = AF_UNIX socket family',
        'login tokens (pymap-admin) are out of scope: neither listener accepts them (only LOGIN '
        'and the SASL mechanisms PLAIN / LOGIN are offered), and the macaroon plugin cannot be '
        'loaded here (pymacaroons is not installed: Identity.new_token returns None)',
        'maildir: default layout (++); the store is a copy of a template an operator-like '
        'driver built through Identity.set, IMAP / ManageSieve sessions and edits of the '
        'pymap-etc-* files by hand',
        'the consecutive-BAD limit is switched off (bad_command_limit=None)']
    cc.fingerprints()
    traces: list = []
    # (backend, cfg, seconds from the start by which the part has to be done, first id)
    plan = [('dict', IMAP_CFG, 40 if quick else 500, 0),
            ('dict', SIEVE_CFG, 66 if quick else 1000, 1000000),
            ('maildir', IMAP_CFG, 84 if quick else 1600, 2000000),
            ('maildir', SIEVE_CFG, 94 if quick else 2000, 3000000)]
    parts: dict = {}
    for backend, cfg, by, first_id in plan:
        info = part(run, rng, cfg, backend, tier, t0 + by, first_id, traces)
        if info is None:
            return run.finish()
        key = 'imap' if cfg == IMAP_CFG else 'sieve'
        parts[(backend, key)] = info
        run.notes[key if backend == 'dict' else f'{key}_{backend}'] = info
    try:
        hist = maildir_histories(run, rng, tier, traces)
    except Exception as exc:                   # noqa: BLE001
        import traceback
        traceback.print_exc()
        run.machinery(f'maildir histories: {exc!r}')
        return run.finish()
    if run.machinery_errors:
        return run.finish()
    run.notes['maildir_histories'] = hist
    for backend in BACKENDS:
        starttls_pipelining(run, backend)
    run.notes['tlc_trace_validation'] = cc.validate_traces(run, 'C09', traces)
    run.notes['per_backend'] = {
        b: {'executions': sum(i['executions'] for (bb, _k), i in parts.items() if bb == b)
            + (hist.get('traces', 0) if b == 'maildir' else 0),
            'steps_on_server': sum(i['steps_on_server'] for (bb, _k), i in parts.items()
                                   if bb == b),
            'tour_pairs': sum(i['tour']['pairs'] for (bb, _k), i in parts.items() if bb == b),
            'tour_uncovered': sum(i['tour']['uncovered'] for (bb, _k), i in parts.items()
                                  if bb == b)}
        for b in BACKENDS}
    unc = sum(i['tour']['uncovered'] for i in parts.values())
    run.cov['exhaustive'] = unc == 0
    run.notes['exhaustive_scope'] = (
        'every (state, input) pair of the two Conn_c09 graphs that the server can be '
        'driven to, with identity probes after each input, on the dict and on the maildir '
        'backend; every sequence of two inputs from the IMAP configuration without TLS on '
        'dict; the other sequences of two inputs: all of them in the thorough tier, a seeded '
        'sample in the quick tier')
    for b in BACKENDS:
        info = parts[(b, 'sieve')]
        if info['tour']['pairs_in_states_the_server_never_enters']:
            run.notes['sieve_unrealised'] = (
                'the model leaves open (a) whether a local peer is offered mechanisms before '
                'STARTTLS and (b) whether an admin who names another user acts as that user or '
                'as himself; the ManageSieve listener offers none and ignores the authorization '
                'identity, so the model states behind the other choice are never entered')
    if parts[('maildir', 'imap')]['tour']['pairs_in_states_the_server_never_enters']:
        run.notes['maildir_unrealised'] = (
            'maildir Login.authenticate hands Identity a copy of the role set BEFORE the roles '
            "of the users / roles files are merged into it, so authorize() never sees a stored "
            'admin role: an admin who names another user is refused (the dict backend lets him '
            'act as that user).  The property allows either; the model states "acts as X on the '
            "admin's credentials\" are never entered on maildir")
    return run.finish()


def replay(path: str) -> int:
    import json
    rec = json.load(open(path))
    rep = rec.get('replay', {})
    if rep.get('kind') == 'md-history':
        run = Run('C09', 'replay')
        md_template()
        cc.register_users({real: m for m, (real, _s) in MD_USERS.items() if real})
        cc.register_users({m: m for m in MD_GHOSTS})
        h = History(rep['env'], random.Random(0))
        try:
            steps = [s if s == 'STARTTLS' else (s[0],) + tuple(x.encode('latin1') for x in s[1:])
                     for s in rep['steps']]
            events, again = attempt_trace(h, steps)
        finally:
            h.close()
        for a, b in again['transcript']:
            print(a, b[:200].encode('latin1'))
        for ev in events:
            print(ev)
        verdicts, res = tlc.validate_total(cc.TRACE_SPEC[0], cc.TRACE_SPEC[1], [events])
        print('TLC:', verdicts.get(1), '' if verdicts else res.output[-500:])
        return 1 if verdicts.get(1, (0, ''))[1] else 0
    return cc.replay_file('C09', path, make_driver_for)
