"""C08 - mailbox names cannot reach outside the user's own mail store.

1. TLC checks WirePath.tla: for every mailbox name over the abstract alphabet
   {a, DOT, SEP, U, NUL} up to a length bound, both maildir layouts and every
   command slot, the name -> parts -> path computation of layout.py followed by
   the kernel's resolution of '.', '..' and empty components.  `Confined` is
   expected to fail on the unchanged tree (the layouts join the parts
   unchecked); the *_asis.cfg configuration lists the escaping names as named
   deviation classes so that TLC passes and documents them, *_ideal.cfg has no
   deviations and its failure is the design-level finding.  WirePathUsers.tla:
   two users, an action of user x leaves user y's store unchanged.
2. spec -> code: every enumerated (layout, name) state is concretised and sent,
   as an IMAP literal, in every command slot that takes a mailbox argument, by
   user1 on a maildir store with user1 and user2 provisioned, inside a scratch
   directory, with the filesystem API of the harness process wrapped: every
   path handed to the os is recorded, resolved and classified relative to
   user1's root, and compared with the zone TLC computed for that name.
   Independently a snapshot (names, sizes, content hashes) of user2's tree and
   of the credential files is compared before/after.
3. dict backend: the same names in every slot by user1; user2's
   LIST/LSUB/STATUS/FETCH dump must be unchanged.

SAFETY: while a command runs, every writing / destructive filesystem call
whose resolved target is not inside the scratch tree of this run is refused
(PermissionError) and logged, whatever pymap asks for.
"""

from __future__ import annotations

import builtins
import hashlib
import io
import os
import random
import shutil
import signal
import sys
import tempfile
import time

from ..common import Run
from .. import tlc
from .. import respparse as rp
from ..server import World, REPO

# --------------------------------------------------------------------------
# filesystem guard / recorder


def _s(p) -> str | None:
    """path argument -> str (None for file descriptors / unknown)"""
    if isinstance(p, int):
        return None
    try:
        p = os.fspath(p)
    except TypeError:
        return None
    if isinstance(p, bytes):
        p = p.decode('utf-8', 'surrogateescape')
    return p


class FsGuard:
    """Wraps the filesystem API of this process.  Only while `armed`:
    records (function, kind, path) and refuses writes outside `top`."""

    READ, WRITE, DESTROY = 'read', 'write', 'destroy'

    # name -> (module, kinds of the positional path arguments)
    OS_FUNCS = {
        'rename': (DESTROY, DESTROY), 'replace': (DESTROY, DESTROY),
        'remove': (DESTROY,), 'unlink': (DESTROY,), 'rmdir': (DESTROY,),
        'removedirs': (DESTROY,),
        'mkdir': (WRITE,), 'makedirs': (WRITE,), 'link': (READ, WRITE),
        'symlink': (None, WRITE), 'utime': (WRITE,), 'chmod': (WRITE,),
        'chown': (WRITE,), 'truncate': (WRITE,), 'mkfifo': (WRITE,),
        'listdir': (READ,), 'scandir': (READ,), 'stat': (READ,),
        'lstat': (READ,), 'access': (READ,), 'walk': (READ,),
        'readlink': (READ,), 'chdir': (READ,),
    }

    def __init__(self, top: str):
        self.top = os.path.realpath(top)
        self.armed = False
        self.busy = False
        self.log: list[tuple[str, str, str]] = []     # (fn, kind, raw path)
        self.refused: list[tuple[str, str, str]] = []
        self.fd_calls = 0
        self._saved: list[tuple[object, str, object]] = []
        self._real = {n: getattr(os, n) for n in self.OS_FUNCS if hasattr(os, n)}
        self._real_open = builtins.open
        self._real_os_open = os.open
        self._real_rmtree = shutil.rmtree
        self._real_ntf = tempfile.NamedTemporaryFile
        self._realpath = os.path.realpath

    # -- path resolution (never recorded, never guarded) ----------------------

    def resolve(self, path: str, final: bool = True) -> str:
        """the path the kernel would act on.  final=False: do not follow a
        symbolic link in the last component (destructive calls act on the
        link itself)."""
        was, self.busy = self.busy, True
        try:
            p = path if os.path.isabs(path) else os.path.join(os.getcwd(), path)
            if '\x00' in p:
                return p
            stripped = p.rstrip('/') or '/'
            head, tail = os.path.split(stripped)
            if final or tail in ('', '.', '..'):
                return self._realpath(p)
            return os.path.join(self._realpath(head), tail)
        finally:
            self.busy = was

    def inside_top(self, resolved: str) -> bool:
        return resolved.startswith(self.top + '/')

    # -- wrappers --------------------------------------------------------------

    def _note(self, fn: str, kind: str, arg, kw=None) -> None:
        p = _s(arg)
        if p is None:
            self.fd_calls += 1
            return
        if kw and kw.get('dir_fd') is not None or kw and (
                kw.get('src_dir_fd') is not None or kw.get('dst_dir_fd') is not None):
            p = '<dir_fd>/' + p
            self.log.append((fn, kind, p))
            if kind != self.READ:
                self.refused.append((fn, kind, p))
                raise PermissionError(1, 'C08 guard: dir_fd-relative write refused', p)
            return
        self.log.append((fn, kind, p))
        if kind != self.READ and '\x00' not in p:
            r = self.resolve(p, final=(kind != self.DESTROY))
            if not self.inside_top(r):
                self.refused.append((fn, kind, p))
                raise PermissionError(1, 'C08 guard: write outside the scratch tree refused', p)

    def _wrap_os(self, name: str, kinds):
        real = self._real[name]
        guard = self

        def wrapper(*a, **kw):
            if guard.armed and not guard.busy:
                for i, kind in enumerate(kinds):
                    if kind is None:
                        continue
                    if i < len(a):
                        guard._note('os.' + name, kind, a[i], kw)
                    else:
                        key = (('src', 'dst') if len(kinds) == 2 else
                               ('path',))[i]
                        for alt in (key, 'top', 'name'):
                            if alt in kw:
                                guard._note('os.' + name, kind, kw[alt], kw)
                                break
            return real(*a, **kw)
        wrapper.__name__ = name
        wrapper.__wrapped__ = real
        return wrapper

    @staticmethod
    def _mode_kind(mode: str) -> str:
        return FsGuard.WRITE if any(c in mode for c in 'wax+') else FsGuard.READ

    def _open(self, file, mode='r', *a, **kw):
        if self.armed and not self.busy:
            self._note('open', self._mode_kind(mode), file)
        return self._real_open(file, mode, *a, **kw)

    def _os_open(self, path, flags, *a, **kw):
        if self.armed and not self.busy:
            w = flags & (os.O_WRONLY | os.O_RDWR | os.O_CREAT | os.O_TRUNC | os.O_APPEND)
            self._note('os.open', self.WRITE if w else self.READ, path, kw)
        return self._real_os_open(path, flags, *a, **kw)

    def _rmtree(self, path, *a, **kw):
        if self.armed and not self.busy:
            self._note('shutil.rmtree', self.DESTROY, path)
            self.busy = True
            try:
                return self._real_rmtree(path, *a, **kw)
            finally:
                self.busy = False
        return self._real_rmtree(path, *a, **kw)

    def _ntf(self, *a, **kw):
        # the underlying os.open is recorded by _os_open; this only marks the call
        if self.armed and not self.busy:
            self.log.append(('tempfile.NamedTemporaryFile', self.WRITE,
                             kw.get('dir') or tempfile.gettempdir()))
        return self._real_ntf(*a, **kw)

    # -- install / remove ------------------------------------------------------

    def install(self) -> None:
        assert not self._saved

        def put(obj, attr, new):
            self._saved.append((obj, attr, getattr(obj, attr)))
            setattr(obj, attr, new)
        for name, kinds in self.OS_FUNCS.items():
            if name in self._real:
                put(os, name, self._wrap_os(name, kinds))
        put(os, 'open', self._os_open)
        put(builtins, 'open', self._open)
        put(io, 'open', self._open)
        put(shutil, 'rmtree', self._rmtree)
        put(tempfile, 'NamedTemporaryFile', self._ntf)
        try:
            import pymap.backend.maildir.io as mio
            put(mio, 'NamedTemporaryFile', self._ntf)
        except Exception:
            pass

    def uninstall(self) -> None:
        while self._saved:
            obj, attr, old = self._saved.pop()
            setattr(obj, attr, old)
        self.armed = False

    def take(self) -> list:
        out, self.log = self.log, []
        return out


# --------------------------------------------------------------------------
# the store under test

WATCHDOG_S = 10.0
USERS = {'user1': 'pass1', 'user2': 'pass2'}
MSG = {u: (b'From: %s@example.com\r\nSubject: marker of %s\r\n\r\nprivate text of %s\r\n'
           % (u.encode(), u.encode(), u.encode())) for u in USERS}

SLOTS = ('SELECT', 'EXAMINE', 'CREATE', 'DELETE', 'RENAMEfrom', 'RENAMEto',
         'SUBSCRIBE', 'UNSUBSCRIBE', 'STATUS', 'APPEND', 'COPY', 'MOVE',
         'LISTref', 'LISTpat', 'LSUBref', 'LSUBpat')


def lit(b: bytes) -> bytes:
    return b'{%d+}\r\n%s' % (len(b), b)


def slot_command(slot: str, name: bytes) -> tuple[list, bytes, list]:
    """(commands before, the command under test, commands after if it was OK)"""
    n = lit(name)
    fetch = b'FETCH 1:* (UID FLAGS BODY.PEEK[])'
    if slot == 'SELECT':
        return [], b'SELECT ' + n, [fetch]
    if slot == 'EXAMINE':
        return [], b'EXAMINE ' + n, [fetch]
    if slot == 'CREATE':
        return [], b'CREATE ' + n, []
    if slot == 'DELETE':
        return [], b'DELETE ' + n, []
    if slot == 'RENAMEfrom':
        return [], b'RENAME ' + n + b' renamed', []
    if slot == 'RENAMEto':
        return [], b'RENAME a ' + n, []
    if slot == 'SUBSCRIBE':
        return [], b'SUBSCRIBE ' + n, [b'LSUB "" *']
    if slot == 'UNSUBSCRIBE':
        return [], b'UNSUBSCRIBE ' + n, [b'LSUB "" *']
    if slot == 'STATUS':
        return [], b'STATUS ' + n + b' (MESSAGES UIDNEXT UIDVALIDITY UNSEEN RECENT)', []
    if slot == 'APPEND':
        return [], b'APPEND ' + n + b' ' + lit(b'Subject: appended by user1\r\n\r\nx\r\n'), []
    if slot == 'COPY':
        return [b'SELECT INBOX'], b'COPY 1 ' + n, []
    if slot == 'MOVE':
        return [b'SELECT INBOX'], b'MOVE 1 ' + n, []
    if slot == 'LISTref':
        return [], b'LIST ' + n + b' "*"', []
    if slot == 'LISTpat':
        return [], b'LIST "" ' + n, []
    if slot == 'LSUBref':
        return [], b'LSUB ' + n + b' "*"', []
    if slot == 'LSUBpat':
        return [], b'LSUB "" ' + n, []
    raise ValueError(slot)


def snapshot(path: str) -> dict:
    """relative name -> ('d',) | ('f', size, sha1) | ('l', target); mtimes ignored"""
    out = {}
    if not os.path.lexists(path):
        return {'': ('missing',)}
    if not os.path.isdir(path):
        with open(path, 'rb') as f:
            data = f.read()
        return {'': ('f', len(data), hashlib.sha1(data).hexdigest())}
    out[''] = ('d',)
    for root, dirs, files in os.walk(path):
        rel = os.path.relpath(root, path)
        rel = '' if rel == '.' else rel + '/'
        for d in dirs:
            p = os.path.join(root, d)
            out[rel + d] = ('l', os.readlink(p)) if os.path.islink(p) else ('d',)
        for fn in files:
            p = os.path.join(root, fn)
            if os.path.islink(p):
                out[rel + fn] = ('l', os.readlink(p))
                continue
            with open(p, 'rb') as f:
                data = f.read()
            out[rel + fn] = ('f', len(data), hashlib.sha1(data).hexdigest())
    return out


def snap_diff(a: dict, b: dict) -> list:
    out = []
    for k in sorted(set(a) | set(b)):
        if a.get(k) != b.get(k):
            out.append((k or '.', 'removed' if k not in b else 'added' if k not in a
                        else 'changed'))
    return out


class Store:
    """scratch tree: top/tmp (temp files), top/tpl-<layout>/base (template),
    top/w<N>/base (one copy per execution)."""

    def __init__(self):
        self.top = os.path.realpath(tempfile.mkdtemp(prefix='verif.c08.'))
        self.tmp = os.path.join(self.top, 'tmp')
        os.mkdir(self.tmp)
        self.guard = FsGuard(self.top)
        self.n = 0
        self.tpl: dict = {}
        self.pristine: dict = {}
        self.cur: dict = {}      # (layout, variant) -> (dir, World) reusable
        self._old_tmp = None

    def close(self) -> None:
        for _d, w in self.cur.values():
            try:
                w.close()
            except Exception:
                pass
        self.cur.clear()
        shutil.rmtree(self.top, ignore_errors=True)

    def template(self, layout: str, variant: str) -> str:
        """variant 'A': both users hold INBOX(1 msg) + mailbox a (1 msg, subscribed);
        variant 'B': user1 has no mailbox but INBOX (1 msg)."""
        key = (layout, variant)
        if key in self.tpl:
            return self.tpl[key]
        base = os.path.join(self.top, f'tpl-{"pp" if layout == "++" else layout}-{variant}', 'base')
        os.makedirs(base)
        w = World('maildir', users=USERS, layout=layout, maildir_dir=base)
        try:
            for u in USERS:
                w.connect(u)
                self._ok(w.login(u, u))
                self._ok(w.cmd(u, b'APPEND INBOX ' + lit(MSG[u])))
                if not (variant == 'B' and u == 'user1'):
                    self._ok(w.cmd(u, b'CREATE a'))
                    self._ok(w.cmd(u, b'APPEND a ' + lit(MSG[u])))
                    self._ok(w.cmd(u, b'SUBSCRIBE a'))
                self._ok(w.cmd(u, b'LOGOUT'))
        finally:
            w.close()
        self.tpl[key] = base
        self.pristine[key] = snapshot(base)
        return base

    @staticmethod
    def _ok(resp: bytes) -> None:
        rs = rp.parse_stream(resp)
        t = [r for r in rs if r.kind == 'tagged']
        if not t or t[-1].cond != b'OK':
            raise RuntimeError(f'template set-up command failed: {resp!r}')

    def world(self, layout: str, variant: str):
        """a World on a pristine copy of the template (reused while pristine)"""
        key = (layout, variant)
        tpl = self.template(layout, variant)
        ent = self.cur.get(key)
        if ent is not None:
            d, w = ent
            if snapshot(d) == self.pristine[key]:
                return d, w
            w.close()
            shutil.rmtree(os.path.dirname(d), ignore_errors=True)
            del self.cur[key]
        self.n += 1
        d = os.path.join(self.top, f'w{self.n}', 'base')
        shutil.copytree(tpl, d, symlinks=True)
        w = World('maildir', users=USERS, layout=layout, maildir_dir=d,
                  config_kw={'_provision': False})
        self.cur[key] = (d, w)
        return d, w

    def discard(self, layout: str, variant: str) -> None:
        ent = self.cur.pop((layout, variant), None)
        if ent:
            d, w = ent
            try:
                w.close()
            except Exception:
                pass
            shutil.rmtree(os.path.dirname(d), ignore_errors=True)

    # -- zones -------------------------------------------------------------------

    def zone(self, base: str, resolved: str) -> str:
        root1 = os.path.join(base, 'user1')
        root2 = os.path.join(base, 'user2')
        if resolved == root1:
            return 'root'
        if resolved.startswith(root1 + '/'):
            return 'in'
        if resolved == base:
            return 'base'
        if resolved == root2:
            return 'other'
        if resolved.startswith(root2 + '/'):
            return 'otherIn'
        if resolved.startswith(base + '/'):
            rest = resolved[len(base) + 1:]
            if rest.startswith('pymap-etc-') and '/' not in rest:
                return 'cred'
            return 'baseEntry'
        if resolved == self.tmp or resolved.startswith(self.tmp + '/'):
            return 'tmp'
        return 'outside'


def is_python_file(resolved: str) -> bool:
    """reads made by the interpreter itself (lazy imports, zoneinfo, ...)"""
    pre = {sys.prefix, sys.base_prefix, sys.exec_prefix, os.path.realpath(REPO),
           '/usr/lib', '/usr/share/zoneinfo', '/venv'}
    return any(resolved == p or resolved.startswith(p.rstrip('/') + '/') for p in pre)


# --------------------------------------------------------------------------
# one execution


def tagged(resp: bytes):
    """(cond, code-name, text) of the last tagged response, parsed strictly"""
    try:
        rs = rp.parse_stream(resp)
    except rp.Malformed:
        return ('MALFORMED', None, resp[-80:].decode('latin-1'))
    t = [r for r in rs if r.kind == 'tagged']
    if not t:
        bye = [r for r in rs if r.kind == 'untagged' and r.cond == b'BYE']
        if bye:
            r = bye[-1]
            return ('BYE', r.code[0].decode('latin-1') if r.code else None,
                    r.text.decode('latin-1'))
        return ('NONE', None, resp[-80:].decode('latin-1'))
    r = t[-1]
    return (r.cond.decode('latin-1'), r.code[0].decode('latin-1') if r.code else None,
            r.text.decode('latin-1'))


class Hang(BaseException):
    """raised by the wall-clock watchdog inside a spinning pymap loop (a C06
    matter, e.g. the unterminated '&' loop of modutf7_decode): the name never
    reaches the store, so it is outside this property's antecedent."""


def _on_alarm(signum, frame):
    raise Hang()


class Exec:
    """result of one (layout, variant, slot, concrete name) execution"""

    def __init__(self):
        self.touch: list = []       # (phase, fn, kind, raw, resolved, zone)
        self.refused: list = []
        self.resp = None
        self.cond = None
        self.after: list = []
        self.other_diff: list = []
        self.cred_diff: list = []
        self.base_diff: list = []
        self.root1_gone = False
        self.inbox_lost: list = []
        self.exc = None


def execute(store: Store, layout: str, variant: str, slot: str, name: bytes) -> Exec:
    ex = Exec()
    base, w = store.world(layout, variant)
    key = (layout, variant)
    g = store.guard
    cname = f's{len(w.conns)}'
    pre, line, post = slot_command(slot, name)
    phases: list = []
    old_tmp = tempfile.tempdir
    tempfile.tempdir = store.tmp
    g.install()
    g.log, g.refused = [], []
    g.armed = True
    old_alarm = signal.signal(signal.SIGALRM, _on_alarm)
    signal.setitimer(signal.ITIMER_REAL, WATCHDOG_S)
    try:
        try:
            w.connect(cname)
            w.login(cname, 'user1')
            phases.append(('login', g.take()))
            for p in pre:
                w.cmd(cname, p)
            phases.append(('pre', g.take()))
            ex.resp = w.cmd(cname, line)
            ex.cond = tagged(ex.resp)
            phases.append(('cmd', g.take()))
            c = w.conns[cname]
            if ex.cond[0] == 'OK' and not c.done:
                for p in post:
                    ex.after.append(w.cmd(cname, p))
            phases.append(('post', g.take()))
            if not c.done:
                w.cmd(cname, b'LOGOUT')
                if not c.done:
                    c.eof()
                    w.run(cname)
            phases.append(('end', g.take()))
        except Hang:
            ex.exc = 'HANG'
            phases.append(('crash', g.take()))
        except Exception as exc:       # harness-visible crash of the session
            ex.exc = repr(exc)
            phases.append(('crash', g.take()))
    finally:
        signal.setitimer(signal.ITIMER_REAL, 0)
        signal.signal(signal.SIGALRM, old_alarm)
        g.armed = False
        g.uninstall()
        tempfile.tempdir = old_tmp
    ex.refused = list(g.refused)
    for phase, log in phases:
        for fn, kind, raw in log:
            if '\x00' in raw:
                ex.touch.append((phase, fn, kind, raw, None, 'nul'))
                continue
            r = g.resolve(raw, final=(kind != FsGuard.DESTROY))
            ex.touch.append((phase, fn, kind, raw, r, store.zone(base, r)))
    after = snapshot(base)
    pr = store.pristine[key]
    diff = snap_diff(pr, after)
    for k, what in diff:
        if k == 'user2' or k.startswith('user2/'):
            ex.other_diff.append((k, what))
        elif k.startswith('pymap-etc-'):
            ex.cred_diff.append((k, what))
        elif k == 'user1' or k.startswith('user1/'):
            if k == 'user1':
                ex.root1_gone = True
            rest = k[6:]
            top = rest.split('/')[0]
            if what != 'added' and top in ('cur', 'new', 'tmp', 'dovecot-uidlist') \
                    and slot in ('DELETE', 'RENAMEfrom', 'RENAMEto'):
                ex.inbox_lost.append((k, what))
        else:
            ex.base_diff.append((k, what))
    if diff or ex.exc:
        store.discard(layout, variant)
    return ex
