"""C08 - mailbox names cannot reach outside the user's own mail store.

1. TLC checks WirePath.tla: for every mailbox name over the abstract alphabet
   {a, DOT, SEP, U, NUL} up to a length bound, both maildir layouts and every
   command slot, the name -> parts -> path computation of layout.py (with
   the refusal of unsafe names in _BaseLayout._split) followed by the kernel's
   resolution of '.', '..' and empty components.  WirePath_asis.cfg is the
   tree under test and must satisfy `Confined` with no deviation;
   WirePath_ideal.cfg is the same one name length further;
   WirePath_asis_strict.cfg models the layouts WITHOUT the refusal and is
   expected to fail (it documents the fixed entries of known/C08.json and
   shows the invariant can tell the difference); WirePath_unchecked.cfg is
   that same model with its escaping name classes listed, dumped only to
   obtain the regression corpus (which names to run in every concretisation).
   WirePathUsers.tla:
   two users, an action of user x leaves user y's store unchanged.
2. spec -> code: every enumerated (layout, name) state is concretised and sent,
   as an IMAP literal, in every command slot that takes a mailbox argument, by
   user1 on a maildir store with user1 and user1x provisioned, inside a scratch
   directory, with the filesystem API of the harness process wrapped: every
   path handed to the os is recorded, resolved and classified relative to
   user1's root, and compared with the zone TLC computed for that name.
   Independently a snapshot (names, sizes, content hashes) of user1x's tree and
   of the credential files is compared before/after.
3. dict backend: the same names in every slot by user1; user1x's
   LIST/LSUB/STATUS/FETCH dump must be unchanged.

SAFETY: while a command runs, every writing / destructive filesystem call
whose resolved target is not inside the scratch tree of this run is refused
(PermissionError) and logged, whatever pymap asks for.
"""

from __future__ import annotations

import builtins
import hashlib
import io
import os
import random
import re
import shutil
import signal
import sys
import tempfile
import time

from ..common import Run
from .. import tlc
from .. import respparse as rp
from ..server import World, REPO

# --------------------------------------------------------------------------
# filesystem guard / recorder


def _s(p) -> str | None:
    """path argument -> str (None for file descriptors / unknown)"""
    if isinstance(p, int):
        return None
    try:
        p = os.fspath(p)
    except TypeError:
        return None
    if isinstance(p, bytes):
        p = p.decode('utf-8', 'surrogateescape')
    return p


class FsGuard:
    """Wraps the filesystem API of this process.  Only while `armed`:
    records (function, kind, path) and refuses writes outside `top`."""

    READ, WRITE, DESTROY = 'read', 'write', 'destroy'

    # name -> (module, kinds of the positional path arguments)
    OS_FUNCS = {
        'rename': (DESTROY, DESTROY), 'replace': (DESTROY, DESTROY),
        'remove': (DESTROY,), 'unlink': (DESTROY,), 'rmdir': (DESTROY,),
        'removedirs': (DESTROY,),
        'mkdir': (WRITE,), 'makedirs': (WRITE,), 'link': (READ, WRITE),
        'symlink': (None, WRITE), 'utime': (WRITE,), 'chmod': (WRITE,),
        'chown': (WRITE,), 'truncate': (WRITE,), 'mkfifo': (WRITE,),
        'listdir': (READ,), 'scandir': (READ,), 'stat': (READ,),
        'lstat': (READ,), 'access': (READ,), 'walk': (READ,),
        'readlink': (READ,), 'chdir': (READ,),
    }

    def __init__(self, top: str):
        self.top = os.path.realpath(top)
        self.armed = False
        self.busy = False
        self.log: list[tuple[str, str, str]] = []     # (fn, kind, raw path)
        self.refused: list[tuple[str, str, str]] = []
        self.fd_calls = 0
        self._saved: list[tuple[object, str, object]] = []
        self._real = {n: getattr(os, n) for n in self.OS_FUNCS if hasattr(os, n)}
        self._real_open = builtins.open
        self._real_os_open = os.open
        self._real_rmtree = shutil.rmtree
        self._real_ntf = tempfile.NamedTemporaryFile
        self._realpath = os.path.realpath

    # -- path resolution (never recorded, never guarded) ----------------------

    def resolve(self, path: str, final: bool = True) -> str:
        """the path the kernel would act on.  final=False: do not follow a
        symbolic link in the last component (destructive calls act on the
        link itself)."""
        was, self.busy = self.busy, True
        try:
            p = path if os.path.isabs(path) else os.path.join(os.getcwd(), path)
            if '\x00' in p:
                return p
            stripped = p.rstrip('/') or '/'
            head, tail = os.path.split(stripped)
            if final or tail in ('', '.', '..'):
                return self._realpath(p)
            return os.path.join(self._realpath(head), tail)
        finally:
            self.busy = was

    def inside_top(self, resolved: str) -> bool:
        return resolved.startswith(self.top + '/')

    # -- wrappers --------------------------------------------------------------

    def _note(self, fn: str, kind: str, arg, kw=None) -> None:
        p = _s(arg)
        if p is None:
            self.fd_calls += 1
            return
        if kw and kw.get('dir_fd') is not None or kw and (
                kw.get('src_dir_fd') is not None or kw.get('dst_dir_fd') is not None):
            p = '<dir_fd>/' + p
            self.log.append((fn, kind, p))
            if kind != self.READ:
                self.refused.append((fn, kind, p))
                raise PermissionError(1, 'C08 guard: dir_fd-relative write refused', p)
            return
        self.log.append((fn, kind, p))
        if kind != self.READ and '\x00' not in p:
            r = self.resolve(p, final=(kind != self.DESTROY))
            if not self.inside_top(r):
                self.refused.append((fn, kind, p))
                raise PermissionError(1, 'C08 guard: write outside the scratch tree refused', p)

    def _wrap_os(self, name: str, kinds):
        real = self._real[name]
        guard = self

        def wrapper(*a, **kw):
            if guard.armed and not guard.busy:
                for i, kind in enumerate(kinds):
                    if kind is None:
                        continue
                    if i < len(a):
                        guard._note('os.' + name, kind, a[i], kw)
                    else:
                        key = (('src', 'dst') if len(kinds) == 2 else
                               ('path',))[i]
                        for alt in (key, 'top', 'name'):
                            if alt in kw:
                                guard._note('os.' + name, kind, kw[alt], kw)
                                break
            return real(*a, **kw)
        wrapper.__name__ = name
        wrapper.__wrapped__ = real
        return wrapper

    @staticmethod
    def _mode_kind(mode: str) -> str:
        return FsGuard.WRITE if any(c in mode for c in 'wax+') else FsGuard.READ

    def _open(self, file, mode='r', *a, **kw):
        if self.armed and not self.busy:
            self._note('open', self._mode_kind(mode), file)
        return self._real_open(file, mode, *a, **kw)

    def _os_open(self, path, flags, *a, **kw):
        if self.armed and not self.busy:
            w = flags & (os.O_WRONLY | os.O_RDWR | os.O_CREAT | os.O_TRUNC | os.O_APPEND)
            self._note('os.open', self.WRITE if w else self.READ, path, kw)
        return self._real_os_open(path, flags, *a, **kw)

    def _rmtree(self, path, *a, **kw):
        if self.armed and not self.busy:
            self._note('shutil.rmtree', self.DESTROY, path)
            self.busy = True
            try:
                return self._real_rmtree(path, *a, **kw)
            finally:
                self.busy = False
        return self._real_rmtree(path, *a, **kw)

    def _ntf(self, *a, **kw):
        # the underlying os.open is recorded by _os_open; this only marks the call
        if self.armed and not self.busy:
            self.log.append(('tempfile.NamedTemporaryFile', self.WRITE,
                             kw.get('dir') or tempfile.gettempdir()))
        return self._real_ntf(*a, **kw)

    # -- install / remove ------------------------------------------------------

    def install(self) -> None:
        assert not self._saved

        def put(obj, attr, new):
            self._saved.append((obj, attr, getattr(obj, attr)))
            setattr(obj, attr, new)
        for name, kinds in self.OS_FUNCS.items():
            if name in self._real:
                put(os, name, self._wrap_os(name, kinds))
        put(os, 'open', self._os_open)
        put(builtins, 'open', self._open)
        put(io, 'open', self._open)
        put(shutil, 'rmtree', self._rmtree)
        put(tempfile, 'NamedTemporaryFile', self._ntf)
        try:
            import pymap.backend.maildir.io as mio
            put(mio, 'NamedTemporaryFile', self._ntf)
        except Exception:
            pass

    def uninstall(self) -> None:
        while self._saved:
            obj, attr, old = self._saved.pop()
            setattr(obj, attr, old)
        self.armed = False

    def take(self) -> list:
        out, self.log = self.log, []
        return out


# --------------------------------------------------------------------------
# the store under test

WATCHDOG_S = 10.0
# user1x: the actor's name is a string prefix of it; USER1: equal to it under casefold
USERS = {'user1': 'pass1', 'user1x': 'pass2', 'USER1': 'pass3'}
VICTIMS = ('user1x', 'USER1')
MSG = {u: (b'From: %s@example.com\r\nSubject: marker of %s\r\n\r\nprivate text of %s\r\n'
           % (u.encode(), u.encode(), u.encode())) for u in USERS}

SLOTS = ('SELECT', 'EXAMINE', 'CREATE', 'DELETE', 'RENAMEfrom', 'RENAMEto',
         'SUBSCRIBE', 'UNSUBSCRIBE', 'STATUS', 'APPEND', 'COPY', 'MOVE',
         'LISTref', 'LISTpat', 'LSUBref', 'LSUBpat')


def lit(b: bytes) -> bytes:
    return b'{%d+}\r\n%s' % (len(b), b)


def slot_command(slot: str, name: bytes) -> tuple[list, bytes, list]:
    """(commands before, the command under test, commands after if it was OK)"""
    n = lit(name)
    fetch = b'FETCH 1:* (UID FLAGS BODY.PEEK[])'
    if slot == 'SELECT':
        return [], b'SELECT ' + n, [fetch]
    if slot == 'EXAMINE':
        return [], b'EXAMINE ' + n, [fetch]
    if slot == 'CREATE':
        return [], b'CREATE ' + n, []
    if slot == 'DELETE':
        return [], b'DELETE ' + n, []
    if slot == 'RENAMEfrom':
        return [], b'RENAME ' + n + b' renamed', []
    if slot == 'RENAMEto':
        return [], b'RENAME a ' + n, []
    if slot == 'SUBSCRIBE':
        return [], b'SUBSCRIBE ' + n, [b'LSUB "" *']
    if slot == 'UNSUBSCRIBE':
        return [], b'UNSUBSCRIBE ' + n, [b'LSUB "" *']
    if slot == 'STATUS':
        return [], b'STATUS ' + n + b' (MESSAGES UIDNEXT UIDVALIDITY UNSEEN RECENT)', []
    if slot == 'APPEND':
        return [], b'APPEND ' + n + b' ' + lit(b'Subject: appended by user1\r\n\r\nx\r\n'), []
    if slot == 'COPY':
        return [b'SELECT INBOX'], b'COPY 1 ' + n, []
    if slot == 'MOVE':
        return [b'SELECT INBOX'], b'MOVE 1 ' + n, []
    if slot == 'LISTref':
        return [], b'LIST ' + n + b' "*"', []
    if slot == 'LISTpat':
        return [], b'LIST "" ' + n, []
    if slot == 'LSUBref':
        return [], b'LSUB ' + n + b' "*"', []
    if slot == 'LSUBpat':
        return [], b'LSUB "" ' + n, []
    raise ValueError(slot)


def snapshot(path: str) -> dict:
    """relative name -> ('d',) | ('f', size, sha1) | ('l', target); mtimes ignored"""
    out = {}
    if not os.path.lexists(path):
        return {'': ('missing',)}
    if not os.path.isdir(path):
        with open(path, 'rb') as f:
            data = f.read()
        return {'': ('f', len(data), hashlib.sha1(data).hexdigest())}
    out[''] = ('d',)
    for root, dirs, files in os.walk(path):
        rel = os.path.relpath(root, path)
        rel = '' if rel == '.' else rel + '/'
        for d in dirs:
            p = os.path.join(root, d)
            out[rel + d] = ('l', os.readlink(p)) if os.path.islink(p) else ('d',)
        for fn in files:
            p = os.path.join(root, fn)
            if os.path.islink(p):
                out[rel + fn] = ('l', os.readlink(p))
                continue
            with open(p, 'rb') as f:
                data = f.read()
            out[rel + fn] = ('f', len(data), hashlib.sha1(data).hexdigest())
    return out


def snap_diff(a: dict, b: dict) -> list:
    out = []
    for k in sorted(set(a) | set(b)):
        if a.get(k) != b.get(k):
            out.append((k or '.', 'removed' if k not in b else 'added' if k not in a
                        else 'changed'))
    return out


class Store:
    """scratch tree: top/tmp (temp files), top/tpl-<layout>/base (template),
    top/w<N>/base (one copy per execution)."""

    def __init__(self):
        self.top = os.path.realpath(tempfile.mkdtemp(prefix='verif.c08.'))
        self.tmp = os.path.join(self.top, 'tmp')
        os.mkdir(self.tmp)
        self.guard = FsGuard(self.top)
        self.n = 0
        self.tpl: dict = {}
        self.pristine: dict = {}
        self.cur: dict = {}      # (layout, variant) -> (dir, World) reusable
        self._old_tmp = None

    def close(self) -> None:
        for _d, w in self.cur.values():
            try:
                w.close()
            except Exception:
                pass
        self.cur.clear()
        shutil.rmtree(self.top, ignore_errors=True)

    def template(self, layout: str, variant: str) -> str:
        """variant 'A': both users hold INBOX(1 msg) + mailbox a (1 msg, subscribed);
        variant 'B': user1 has no mailbox but INBOX (1 msg)."""
        key = (layout, variant)
        if key in self.tpl:
            return self.tpl[key]
        base = os.path.join(self.top, f'tpl-{"pp" if layout == "++" else layout}-{variant}', 'base')
        os.makedirs(base)
        w = World('maildir', users=USERS, layout=layout, maildir_dir=base)
        try:
            for u in USERS:
                w.connect(u)
                self._ok(w.login(u, u))
                self._ok(w.cmd(u, b'APPEND INBOX ' + lit(MSG[u])))
                if not (variant == 'B' and u == 'user1'):
                    self._ok(w.cmd(u, b'CREATE a'))
                    self._ok(w.cmd(u, b'APPEND a ' + lit(MSG[u])))
                    self._ok(w.cmd(u, b'SUBSCRIBE a'))
                self._ok(w.cmd(u, b'LOGOUT'))
        finally:
            w.close()
        self.tpl[key] = base
        self.pristine[key] = snapshot(base)
        return base

    @staticmethod
    def _ok(resp: bytes) -> None:
        rs = rp.parse_stream(resp)
        t = [r for r in rs if r.kind == 'tagged']
        if not t or t[-1].cond != b'OK':
            raise RuntimeError(f'template set-up command failed: {resp!r}')

    def world(self, layout: str, variant: str):
        """a World on a pristine copy of the template (reused while pristine)"""
        key = (layout, variant)
        tpl = self.template(layout, variant)
        ent = self.cur.get(key)
        if ent is not None:
            d, w = ent
            if snapshot(d) == self.pristine[key]:
                return d, w
            w.close()
            shutil.rmtree(os.path.dirname(d), ignore_errors=True)
            del self.cur[key]
        self.n += 1
        d = os.path.join(self.top, f'w{self.n}', 'base')
        shutil.copytree(tpl, d, symlinks=True)
        w = World('maildir', users=USERS, layout=layout, maildir_dir=d,
                  config_kw={'_provision': False})
        self.cur[key] = (d, w)
        return d, w

    def discard(self, layout: str, variant: str) -> None:
        ent = self.cur.pop((layout, variant), None)
        if ent:
            d, w = ent
            try:
                w.close()
            except Exception:
                pass
            shutil.rmtree(os.path.dirname(d), ignore_errors=True)

    # -- zones -------------------------------------------------------------------

    def zone(self, base: str, resolved: str) -> str:
        root1 = os.path.join(base, 'user1')
        root2 = os.path.join(base, 'user1x')
        if resolved == root1:
            return 'root'
        if resolved.startswith(root1 + '/'):
            return 'in'
        if resolved == base:
            return 'base'
        if resolved == root2:
            return 'other'
        if resolved.startswith(root2 + '/'):
            return 'otherIn'
        if resolved.startswith(base + '/'):
            rest = resolved[len(base) + 1:]
            if rest.startswith('pymap-etc-') and '/' not in rest:
                return 'cred'
            return 'baseEntry'
        if resolved == self.tmp or resolved.startswith(self.tmp + '/'):
            return 'tmp'
        return 'outside'


def is_python_file(resolved: str) -> bool:
    """reads made by the interpreter itself (lazy imports, zoneinfo, ...)"""
    pre = {sys.prefix, sys.base_prefix, sys.exec_prefix, os.path.realpath(REPO),
           '/usr/lib', '/usr/share/zoneinfo', '/venv'}
    return any(resolved == p or resolved.startswith(p.rstrip('/') + '/') for p in pre)


# --------------------------------------------------------------------------
# one execution


def tagged(resp: bytes):
    """(cond, code-name, text) of the last tagged response, parsed strictly"""
    try:
        rs = rp.parse_stream(resp)
    except rp.Malformed:
        return ('MALFORMED', None, resp[-80:].decode('latin-1'))
    t = [r for r in rs if r.kind == 'tagged']
    if not t:
        bye = [r for r in rs if r.kind == 'untagged' and r.cond == b'BYE']
        if bye:
            r = bye[-1]
            return ('BYE', r.code[0].decode('latin-1') if r.code else None,
                    r.text.decode('latin-1'))
        return ('NONE', None, resp[-80:].decode('latin-1'))
    r = t[-1]
    return (r.cond.decode('latin-1'), r.code[0].decode('latin-1') if r.code else None,
            r.text.decode('latin-1'))


class Hang(BaseException):
    """raised by the wall-clock watchdog inside a spinning pymap loop (a C06
    matter, e.g. the unterminated '&' loop of modutf7_decode): the name never
    reaches the store, so it is outside this property's antecedent."""


def _on_alarm(signum, frame):
    raise Hang()


class Exec:
    """result of one (layout, variant, slot, concrete name) execution"""

    def __init__(self):
        self.touch: list = []       # (phase, fn, kind, raw, resolved, zone)
        self.refused: list = []
        self.resp = None
        self.cond = None
        self.after: list = []
        self.other_diff: list = []
        self.cred_diff: list = []
        self.base_diff: list = []
        self.root1_gone = False
        self.inbox_lost: list = []
        self.exc = None
        self.base = ''


def execute(store: Store, layout: str, variant: str, slot: str, name: bytes) -> Exec:
    ex = Exec()
    base, w = store.world(layout, variant)
    ex.base = base
    key = (layout, variant)
    g = store.guard
    cname = f's{len(w.conns)}'
    pre, line, post = slot_command(slot, name)
    phases: list = []
    old_tmp = tempfile.tempdir
    tempfile.tempdir = store.tmp
    g.install()
    g.log, g.refused = [], []
    g.armed = True
    old_alarm = signal.signal(signal.SIGALRM, _on_alarm)
    signal.setitimer(signal.ITIMER_REAL, WATCHDOG_S)
    try:
        try:
            w.connect(cname)
            w.login(cname, 'user1')
            phases.append(('login', g.take()))
            for p in pre:
                w.cmd(cname, p)
            phases.append(('pre', g.take()))
            ex.resp = w.cmd(cname, line)
            ex.cond = tagged(ex.resp)
            phases.append(('cmd', g.take()))
            c = w.conns[cname]
            if ex.cond[0] == 'OK' and not c.done:
                for p in post:
                    ex.after.append(w.cmd(cname, p))
            phases.append(('post', g.take()))
            if not c.done:
                w.cmd(cname, b'LOGOUT')
                if not c.done:
                    c.eof()
                    w.run(cname)
            phases.append(('end', g.take()))
        except Hang:
            ex.exc = 'HANG'
            phases.append(('crash', g.take()))
        except Exception as exc:       # harness-visible crash of the session
            ex.exc = repr(exc)
            phases.append(('crash', g.take()))
    finally:
        signal.setitimer(signal.ITIMER_REAL, 0)
        signal.signal(signal.SIGALRM, old_alarm)
        g.armed = False
        g.uninstall()
        tempfile.tempdir = old_tmp
    ex.refused = list(g.refused)
    for phase, log in phases:
        for fn, kind, raw in log:
            if '\x00' in raw:
                ex.touch.append((phase, fn, kind, raw, None, 'nul'))
                continue
            r = g.resolve(raw, final=(kind != FsGuard.DESTROY))
            ex.touch.append((phase, fn, kind, raw, r, store.zone(base, r)))
    after = snapshot(base)
    pr = store.pristine[key]
    diff = snap_diff(pr, after)
    for k, what in diff:
        if k == 'user1x' or k.startswith('user1x/'):
            ex.other_diff.append((k, what))
        elif k.startswith('pymap-etc-'):
            ex.cred_diff.append((k, what))
        elif k == 'user1' or k.startswith('user1/'):
            if k == 'user1':
                ex.root1_gone = True
            rest = k[6:]
            top = rest.split('/')[0]
            if what != 'added' and top in ('cur', 'new', 'tmp', 'dovecot-uidlist') \
                    and slot in ('DELETE', 'RENAMEfrom', 'RENAMEto'):
                ex.inbox_lost.append((k, what))
        else:
            ex.base_diff.append((k, what))
    if diff or ex.exc:
        store.discard(layout, variant)
    return ex


# --------------------------------------------------------------------------
# concretisation of the abstract names (harness side: no semantics here)

CONC = {'a': b'a', 'DOT': b'.', 'SEP': b'/', 'U': b'&AOk-', 'NUL': b'\x00', 'I': b'INBOX'}
SHOW = {'a': 'a', 'DOT': '.', 'SEP': '/', 'U': 'U', 'NUL': '\\0', 'I': 'INBOX'}
PATH_SLOTS = ('SELECT', 'EXAMINE', 'CREATE', 'DELETE', 'RENAMEfrom', 'RENAMEto',
              'STATUS', 'APPEND', 'COPY', 'MOVE')


def show(absname) -> str:
    return ''.join(SHOW[str(x)] for x in absname)


def concretise(absname, layout: str, full: bool, long_too: bool = True) -> list:
    """[(variant, bytes)].  'exist': every letter is 'a' (user1 and user1x both
    hold a mailbox 'a'); 'fresh': 'b' (no such mailbox); 'utf8': the non-ASCII
    character as raw UTF-8 instead of modified UTF-7; 'long': the first letter
    300 times; 'icase': INBOX in mixed case; 'user1x@i': the i-th component, if made of letters only, spelled
    'user1x' (the other user's directory name)."""
    syms = [str(x) for x in absname]
    out = [('exist', b''.join(CONC[s] for s in syms))]
    if not full:
        return out
    if 'a' in syms:
        out.append(('fresh', b''.join(b'b' if s == 'a' else CONC[s] for s in syms)))
    if 'a' in syms and (long_too or len(syms) <= 2):
        i = syms.index('a')
        out.append(('long', b''.join((b'a' * 300 if j == i else CONC[s])
                                     for j, s in enumerate(syms))))
    if 'I' in syms:
        out.append(('icase', b''.join(b'iNbOx' if s == 'I' else CONC[s] for s in syms)))
    if 'U' in syms:
        out.append(('utf8', b''.join(b'\xc3\xa9' if s == 'U' else CONC[s] for s in syms)))
        # compatibility look-alikes of "." and "/" (FULLWIDTH FULL STOP, FULLWIDTH SOLIDUS, ONE DOT
        # LEADER): non-ASCII letters like any other - unless something normalises the name
        # after it was validated
        for tag, enc in (('compat-dot', b'&,w4-'), ('compat-sep', b'&,w8-'), ('dot-leader', b'&ICQ-')):
            out.append((tag, b''.join(enc if s == 'U' else CONC[s] for s in syms)))
        if layout == 'fs' and syms.count('U') >= 2 and 'a' in syms:
            # "<fullwidth ..><delimiter>user1x": the way up and the neighbour's directory name
            out.append(('compat-up', b''.join(b'&,w4-' if s == 'U' else b'user1x' if s == 'a'
                                              else CONC[s] for s in syms)))
    if layout == 'fs' and 'a' in syms:
        comps: list = [[]]
        for s in syms:
            if s == 'SEP':
                comps.append([])
            else:
                comps[-1].append(s)
        if any(c == ['DOT', 'DOT'] for c in comps):
            for i, c in enumerate(comps):
                if c and all(s == 'a' for s in c):
                    parts = [b'user1x' if j == i else b''.join(CONC[s] for s in cc)
                             for j, cc in enumerate(comps)]
                    out.append((f'user1x@{i}', b'/'.join(parts)))
    return out


# --------------------------------------------------------------------------
# judging one execution against the state TLC computed for its abstract name


def abstract_zone(store: Store, base: str, resolved: str, z: str) -> str:
    """fine harness zone -> zone vocabulary of WirePath.tla"""
    if z in ('root', 'in', 'base', 'outside'):
        return z
    depth = resolved[len(base) + 1:].count('/') + 1
    return 'sibling' if depth == 1 else 'siblingIn'


def slot_view(st: dict, slot: str) -> dict:
    """the part of the TLC state that applies to this slot (WirePath.tla: Group)"""
    return st['view']['create' if slot == 'CREATE' else 'plain']


def judge(store: Store, base: str, ex: Exec, slot: str, st: dict):
    """-> (escapes, beyond): escapes = list of (abstract zone, description) of
    everything that contradicts the property; beyond = those the model state
    `st` of this name does not allow for (zone not in st.allowed)."""
    esc: dict = {}
    for phase, fn, kind, raw, r, z in ex.touch:
        if phase == 'login' or z in ('in', 'tmp', 'nul'):
            continue
        if z == 'root':
            if kind != FsGuard.DESTROY:
                continue
            az = 'root'
            what = f'{fn}({raw.replace(base, "<base>")}) acts on user1\'s root itself'
        else:
            az = abstract_zone(store, base, r, z)
            what = f'{fn}({raw.replace(base, "<base>")}) [{kind}] -> {z}'
        esc.setdefault((az, z, fn, kind), what)
    for k, w in ex.other_diff:
        az = 'sibling' if k == 'user1x' else 'siblingIn'
        esc.setdefault((az, 'other-changed', w, ''), f'user1x\'s store changed: {k} {w}')
    for k, w in ex.cred_diff:
        esc.setdefault(('sibling', 'cred-changed', w, ''), f'credential file {k} {w}')
    for k, w in ex.base_diff:
        az = 'sibling' if '/' not in k else 'siblingIn'
        esc.setdefault((az, 'base-changed', w, ''), f'base directory entry {k} {w}')
    if ex.root1_gone:
        esc.setdefault(('root', 'root-removed', '', ''), 'user1\'s root directory removed')
    if ex.inbox_lost:
        esc.setdefault(('root', 'inbox-lost', '', ''),
                       f'{slot} removed INBOX content of user1: {ex.inbox_lost[0][0]}')
    if ex.refused:
        esc.setdefault(('outside', 'refused', '', ''),
                       f'write outside the scratch tree attempted (refused by the guard): {ex.refused[0]}')
    allowed = {str(z) for z in slot_view(st, slot)['allowed']} \
        if slot in {str(s) for s in st['bad']} else set()
    escapes = [(k[0], v) for k, v in esc.items()]
    beyond = [(az, v) for az, v in escapes if az not in allowed]
    return escapes, beyond


def signature(layout: str, slot: str, st: dict, beyond: list) -> str:
    lay = 'pp' if layout == '++' else layout
    dev = str(slot_view(st, slot)['cls']) if slot in {str(s) for s in st['bad']} \
        else 'ModelSaysConfined'
    sig = f'{lay}:{slot}:{dev}'
    if beyond:
        sig += '!' + '+'.join(sorted({az for az, _ in beyond}))
    return sig


# --------------------------------------------------------------------------
# dict backend: user1 sends the names, user1x's dump must not change

DUMP = (b'LIST "" *', b'LSUB "" *',
        b'STATUS INBOX (MESSAGES UIDNEXT UIDVALIDITY UNSEEN)',
        b'STATUS a (MESSAGES UIDNEXT UIDVALIDITY UNSEEN)',
        b'EXAMINE INBOX', b'FETCH 1:* (UID FLAGS BODY.PEEK[])',
        b'EXAMINE a', b'FETCH 1:* (UID FLAGS BODY.PEEK[])')


class DictWorld:

    def __init__(self):
        self.w = World('dict', users=USERS)
        w = self.w
        # user1x first; what user1 does afterwards (its own set-up included) must
        # not show in user1x's dump
        for u in VICTIMS + ('user1',):
            w.connect(u)
            Store._ok(w.login(u, u))
            if u == 'user1':
                self.baseline = self.dump()
                self.threads_before = self.thread_probe('p')
            lines = [b'APPEND INBOX ' + lit(MSG[u]), b'CREATE a',
                     b'APPEND a ' + lit(MSG[u]), b'SUBSCRIBE a']
            if u == 'user1':
                # the actor holds a message that REFERS to message ids the other users will use
                lines.append(b'APPEND INBOX ' + lit(
                    b'Message-ID: <actor@v>\r\nReferences: <p1@v> <p2@v> <q1@v> <q2@v>\r\n'
                    b'Subject: thread probe\r\n\r\nx\r\n'))
            for line in lines:
                resp = w.cmd(u, line)
                if u != 'user1':
                    Store._ok(resp)
        self.n = 0
        self.setup_changed = [f'{VICTIMS[i // len(DUMP)]}: {DUMP[i % len(DUMP)].decode()}'
                              for i, d in enumerate(self.dump()) if d != self.baseline[i]]

    def dump(self) -> list:
        out = []
        for v in VICTIMS:
            for line in DUMP:
                out.append(self.w.cmd(v, line, tag=b'D'))
        return out

    def thread_probe(self, k: str) -> str:
        """user1x stores two unrelated messages <k1@v>, <k2@v> (same subject) in a mailbox of
        its own: do they get ONE thread id?  (They must not: only a message of ANOTHER user
        refers to both.)"""
        w = self.w
        w.cmd('user1x', b'CREATE thr' + k.encode(), tag=b'D')
        for i in (1, 2):
            w.cmd('user1x', b'APPEND thr%s ' % k.encode() + lit(
                b'Message-ID: <%s%d@v>\r\nSubject: thread probe\r\n\r\nbody %d\r\n'
                % (k.encode(), i, i)), tag=b'D')
        w.cmd('user1x', b'EXAMINE thr' + k.encode(), tag=b'D')
        out = w.cmd('user1x', b'FETCH 1:2 (THREADID)', tag=b'D')
        ids = re.findall(rb'THREADID \(([^)]*)\)', out)
        w.cmd('user1x', b'EXAMINE INBOX', tag=b'D')
        w.cmd('user1x', b'DELETE thr' + k.encode(), tag=b'D')
        if len(ids) != 2:
            return 'unreadable'
        return 'one-thread' if ids[0] == ids[1] else 'two-threads'

    def run_slot(self, slot: str, name: bytes):
        w = self.w
        c = w.conns.get('user1')
        if c is None or c.done:
            self.n += 1
            w.conns.pop('user1', None)
            w.connect('user1')
            w.login('user1', 'user1')
        pre, line, _post = slot_command(slot, name)
        if pre:
            w.cmd('user1', b'APPEND INBOX ' + lit(MSG['user1']))
        for p in pre:
            w.cmd('user1', p)
        resp = w.cmd('user1', line)
        return tagged(resp), resp

    def close(self) -> None:
        self.w.close()


def dict_campaign(run: Run, states: list, quick: bool) -> None:
    seen = set()
    n_exec = 0
    t0 = time.time()
    for st in states:
        key = tuple(str(x) for x in st['name'])
        if key in seen:
            continue
        seen.add(key)
        for variant, name in concretise(st['name'], 'dict', full=not quick)[:2]:
            dw = DictWorld()
            try:
                if dw.setup_changed:
                    run.violation(
                        'dict backend: after user1 set up its own store (APPEND INBOX, CREATE a, '
                        'APPEND a, SUBSCRIBE a), user1x observes a different '
                        + ', '.join(dw.setup_changed),
                        {'check': 'C08', 'backend': 'dict', 'slot': 'SETUP', 'name_hex': '',
                         'abstract': ''}, 'dict:SETUP:OtherUserChanged')
                    dw.baseline = dw.dump()
                for slot in SLOTS:
                    old = signal.signal(signal.SIGALRM, _on_alarm)
                    signal.setitimer(signal.ITIMER_REAL, WATCHDOG_S)
                    try:
                        cond, resp = dw.run_slot(slot, name)
                        after = dw.dump()
                    except Hang:
                        run.notes.setdefault('hangs', []).append(
                            {'backend': 'dict', 'slot': slot, 'name': name.hex()})
                        break
                    finally:
                        signal.setitimer(signal.ITIMER_REAL, 0)
                        signal.signal(signal.SIGALRM, old)
                    n_exec += 1
                    changed = [f'{VICTIMS[i // len(DUMP)]}: {DUMP[i % len(DUMP)].decode()}'
                               for i in range(len(after)) if after[i] != dw.baseline[i]]
                    shared = any(dw.w.mailbox_set(v) is dw.w.mailbox_set('user1') for v in VICTIMS)
                    run.count_exec(('dict', slot, key, variant),
                                   nontrivial=cond[0] in ('OK', 'NO'))
                    if changed or shared:
                        run.violation(
                            f'dict backend: after user1 sent {slot} with name {name!r} '
                            f'({cond[0]}), user1x observes a different '
                            + ', '.join(changed or ['(same MailboxSet object)']),
                            {'check': 'C08', 'backend': 'dict', 'slot': slot,
                             'name_hex': name.hex(), 'abstract': show(st['name'])},
                            f'dict:{slot}:OtherUserChanged')
                        dw.baseline = after
                if dw.threads_before == 'two-threads':
                    after_t = dw.thread_probe('q')
                    if after_t != 'two-threads':
                        run.violation(
                            'dict backend: two unrelated messages user1x stores now share a THREADID '
                            f'({after_t}) because a message in user1\'s store refers to both: '
                            'what user1 holds changes what user1x observes',
                            {'check': 'C08', 'backend': 'dict', 'slot': 'THREADID',
                             'name_hex': name.hex(), 'abstract': show(st['name'])},
                            'dict:THREADID:OtherUserChanged')
            finally:
                dw.close()
    run.notes['dict'] = {'names': len(seen), 'executions': n_exec,
                         'wall_s': round(time.time() - t0, 1)}


# --------------------------------------------------------------------------
# maildir campaign


def summarise(ex: Exec, base: str) -> dict:
    zs: dict = {}
    for phase, fn, kind, raw, r, z in ex.touch:
        if phase != 'login' and z not in ('in', 'tmp'):
            zs.setdefault(f'{z}:{kind}', raw.replace(base, '<base>'))
    return {'response': list(ex.cond) if ex.cond else None, 'touched': zs,
            'user1x_changed': ex.other_diff[:4], 'cred_changed': ex.cred_diff[:4],
            'base_changed': ex.base_diff[:4], 'inbox_lost': ex.inbox_lost[:2],
            'root_removed': ex.root1_gone}


def run_one(run: Run, store: Store, layout: str, variant_b: bool, slot: str,
            st: dict, cvar: str, name: bytes, acc: dict) -> None:
    wv = 'B' if variant_b else 'A'
    ex = execute(store, layout, wv, slot, name)
    base = ex_base(store, ex)
    lay = 'pp' if layout == '++' else layout
    predicted = slot in {str(s) for s in st['bad']}
    if ex.exc == 'HANG':
        run.notes.setdefault('hangs', []).append(
            {'layout': layout, 'slot': slot, 'name': name.hex()})
        return
    if ex.exc:
        run.machinery(f'harness exception in {layout} {slot} {name!r}: {ex.exc}')
        return
    escapes, beyond = judge(store, base, ex, slot, st)
    reached = any(p == 'cmd' for p, *_ in ex.touch)
    run.count_exec((lay, slot, show(st['name']), cvar, wv),
                   nontrivial=reached and ex.cond is not None and ex.cond[0] != 'BAD')
    acc['cond'][(lay, slot, ex.cond[0] if ex.cond else '?')] = \
        acc['cond'].get((lay, slot, ex.cond[0] if ex.cond else '?'), 0) + 1
    if escapes:
        sig = signature(layout, slot, st, beyond)
        replay = {'check': 'C08', 'backend': 'maildir', 'layout': layout, 'store': wv,
                  'slot': slot, 'name_hex': name.hex(), 'name': name.decode('latin-1'),
                  'abstract': show(st['name']), 'variant': cvar,
                  'model': {'zone': str(slot_view(st, slot)['zone']),
                            'cls': str(slot_view(st, slot)['cls']),
                            'bad': sorted(str(s) for s in st['bad']),
                            'allowed': sorted(str(s) for s in slot_view(st, slot)['allowed'])}}
        what = (f'maildir/{layout}: user1 sent {slot} with mailbox name {name[:40]!r}'
                f'{"..." if len(name) > 40 else ""} -> {ex.cond[0] if ex.cond else "?"}; '
                + '; '.join(v for _az, v in (beyond or escapes)[:4]))
        counted = run.violation(what, replay, sig)
        e = acc['escapes'].setdefault(sig, {'count': 0, 'known': not counted, 'examples': []})
        e['count'] += 1
        if len(e['examples']) < 2:
            e['examples'].append({'name': name[:60].decode('latin-1'), 'store': wv,
                                  **summarise(ex, base)})
    elif predicted:
        k = f'{lay}:{slot}:{slot_view(st, slot)["cls"]}'
        e = acc['not_observed'].setdefault(k, {'count': 0, 'examples': []})
        e['count'] += 1
        if len(e['examples']) < 3:
            e['examples'].append({'name': name[:60].decode('latin-1'),
                                  'response': list(ex.cond) if ex.cond else None})


def ex_base(store: Store, ex: Exec) -> str:
    return ex.base


def skey(s: dict) -> tuple:
    return (str(s['layout']), tuple(str(x) for x in s['name']))


def select_states(graph, rng, quick: bool, n_random: int, risk: dict) -> list:
    """states (one per (layout, name)) to execute, grouped by layout; `risk`:
    the states of the same names in the model of the layouts WITHOUT the
    refusal of unsafe names (the regression corpus: names that escape there)"""
    nodes = sorted(graph.nodes.values(),
                   key=lambda s: (str(s['layout']), len(s['name']), show(s['name'])))
    if not quick:
        return nodes
    chosen, rest = [], []
    for s in nodes:
        if len(s['name']) <= 2 or s['bad'] or risk[skey(s)]['bad'] or len(s['name']) > 4:
            chosen.append(s)
        else:
            rest.append(s)
    names = sorted({tuple(str(x) for x in s['name']) for s in rest})
    pick = set(rng.sample(names, min(n_random, len(names))))
    chosen += [s for s in rest if tuple(str(x) for x in s['name']) in pick]
    chosen.sort(key=lambda s: (str(s['layout']), len(s['name']), show(s['name'])))
    return chosen


def maildir_campaign(run: Run, store: Store, states: list, rng, quick: bool,
                     deadline: float, risk: dict) -> None:
    acc = {'escapes': {}, 'not_observed': {}, 'cond': {}}
    t0 = time.time()
    cut = False
    by_name = {(str(s_['layout']), tuple(str(x) for x in s_['name'])): s_ for s_ in states}
    for st in states:
        layout = '++' if str(st['layout']) == 'pp' else 'fs'
        rst = risk.get(skey(st), st)
        interesting = bool(st['bad']) or bool(rst['bad'])
        full = (not quick) or interesting
        variants = concretise(st['name'], layout, full=full, long_too=not quick)
        if quick and not interesting:
            variants = variants[:1]
            # ... but a harmless non-ASCII name whose "." / delimiter TWIN is a dangerous name
            # is also sent in compatibility look-alikes of those characters
            syms = tuple(str(x) for x in st['name'])
            if 'U' in syms:
                twins = [by_name.get((str(st['layout']), tuple(t if x == 'U' else x for x in syms)))
                         for t in ('DOT', 'SEP')]
                if any(t is not None and (t['bad'] or risk.get(skey(t), t)['bad']) for t in twins):
                    variants += [v for v in concretise(st['name'], layout, full=True, long_too=False)
                                 if v[0].startswith(('compat', 'dot-leader'))]
        elif any(str(x) == 'NUL' for x in st['name']) and not interesting:
            variants = variants[:2]       # the path never reaches the kernel
        for slot in SLOTS:
            vs = variants if slot in PATH_SLOTS else variants[:1]
            if quick and not interesting and slot not in PATH_SLOTS and len(st['name']) > 1 \
                    and rng.random() < 0.5:
                continue
            for cvar, name in vs:
                run_one(run, store, layout, False, slot, st, cvar, name, acc)
                # the user's root as the target of DELETE / RENAME: also on a store
                # where user1 holds no mailbox but INBOX (nothing stops the walk)
                if 'root' in (str(slot_view(st, slot)['zone']), str(slot_view(rst, slot)['zone'])) \
                        and slot in ('DELETE', 'RENAMEfrom') \
                        and cvar in ('exist', 'fresh'):
                    run_one(run, store, layout, True, slot, st, cvar, name, acc)
        if time.time() > deadline:
            cut = True
            break
    run.notes['maildir'] = {
        'states_executed': len(states), 'cut_by_deadline': cut,
        'wall_s': round(time.time() - t0, 1),
        'responses': {f'{k[0]}:{k[1]}:{k[2]}': v for k, v in sorted(acc['cond'].items())},
    }
    run.notes['escapes'] = acc['escapes']
    run.notes['model_escape_not_observed'] = acc['not_observed']


# --------------------------------------------------------------------------


def _initial_counterexample(out: str) -> str | None:
    import re
    i = out.find('is violated by the initial state')
    if i < 0:
        return None
    lay = re.search(r'layout = "(\w+)"', out[i:])
    nm = re.search(r'name = (<<[^>]*>>)', out[i:])
    bad = re.search(r'bad = (\{[^}]*\})', out[i:])
    return (f'layout={lay.group(1) if lay else "?"} name={nm.group(1) if nm else "?"} '
            f'bad={bad.group(1) if bad else "?"}')


def main(tier: str) -> int:
    run = Run('C08', tier)
    rng = random.Random(run.seed)
    quick = tier == 'quick'
    run.cov['rule'] = (
        'executions = one IMAP command of user1 carrying one concretised name of the '
        'TLC-enumerated name set in one mailbox-argument slot, on a two-user maildir '
        'store (both layouts) with the filesystem API recorded, or on the dict backend '
        'followed by a dump of user1x; non-trivial = the command was not refused by the '
        'parser and made at least one filesystem call (maildir) / was answered OK or NO '
        '(dict); distinct = distinct (layout, slot, abstract name, concretisation)')
    run.assumptions += [
        'the harness process is the server process: every filesystem access of pymap goes '
        'through os.*, builtins.open, shutil or tempfile of this interpreter (wrapped)',
        'no symbolic links inside the store (IMAP offers no way to create one)',
        'kernel path resolution as modelled: "", "." stay, ".." goes up; the model assumes '
        'every named directory exists (worst case), the run uses the real kernel',
        'temporary files of the control-file writer go to a scratch temp directory '
        '(tempfile.tempdir redirected); zone "tmp" is a C15 matter, not judged here',
        'INBOX appears only in the few ExtraNames of WirePath.tla (INBOX, INBOX/, INBOX/a, '
        'INBOX/.., ./INBOX), not in the exhaustive alphabet',
        "the two users are user1 and user1x: the neighbour store's directory name has the actor's as a string prefix, so prefix-based containment tests show"]

    # 1. the model
    try:
        graph, res = tlc.dump_graph('WirePath.tla', 'WirePath_asis.cfg', workers=16)
    except tlc.TLCError as exc:
        run.machinery(str(exc))
        return run.finish()
    run.add_model(res, 'WirePath_asis.cfg')
    if not res.ok:
        run.machinery(f'WirePath_asis.cfg failed: {res.violated or res.error}')
        return run.finish()
    ideal = tlc.run_tlc('WirePath.tla', 'WirePath_ideal.cfg', workers=16)
    run.add_model(ideal, 'WirePath_ideal.cfg')
    if not ideal.ok:
        run.machinery(f'WirePath_ideal.cfg failed: '
                      f'{ideal.violated or ideal.error}')
        return run.finish()
    strict = tlc.run_tlc('WirePath.tla', 'WirePath_asis_strict.cfg', workers=16)
    run.add_model(strict, 'WirePath_asis_strict.cfg')
    if strict.ok:
        run.machinery('WirePath_asis_strict.cfg (layouts without the refusal of unsafe names) '
                      'satisfies Confined: the invariant no longer tells the difference')
        return run.finish()
    elif strict.violated == ['Confined']:
        run.notes['asis_strict'] = (
            'as expected, Confined fails in the model of the layouts WITHOUT the refusal of '
            'unsafe names; first counterexample: '
            + (_initial_counterexample(strict.output) or ''))
    else:
        run.machinery(f'WirePath_asis_strict.cfg: {strict.violated or strict.error}')
        return run.finish()
    for cfg, expect_ok in (('WirePathUsers_ideal.cfg', True), ('WirePathUsers_shared.cfg', False)):
        r = tlc.run_tlc('WirePathUsers.tla', cfg, workers=16)
        run.add_model(r, cfg)
        if expect_ok and not r.ok:
            run.machinery(f'{cfg} failed: {r.violated or r.error}')
            return run.finish()
        if not expect_ok and r.violated != ['Isolation']:
            run.machinery(f'{cfg}: the shared-store deviation is not rejected by Isolation '
                          f'({r.violated or r.error})')
            return run.finish()
    # the same names in the model of the layouts without the refusal of unsafe
    # names: which names to execute in all concretisations (regression corpus)
    try:
        ugraph, ures = tlc.dump_graph('WirePath.tla', 'WirePath_unchecked.cfg', workers=16)
    except tlc.TLCError as exc:
        run.machinery(str(exc))
        return run.finish()
    run.add_model(ures, 'WirePath_unchecked.cfg')
    if not ures.ok:
        run.machinery(f'WirePath_unchecked.cfg failed: {ures.violated or ures.error}')
        return run.finish()
    risk = {skey(s): s for s in ugraph.nodes.values()}
    run.notes['risky_names'] = sum(1 for s in risk.values() if s['bad'])
    states = select_states(graph, rng, quick, n_random=8, risk=risk)
    if not quick:
        g6 = {}
        for cfg in ('WirePath_asis6.cfg', 'WirePath_unchecked6.cfg'):
            try:
                g6[cfg], r6 = tlc.dump_graph('WirePath.tla', cfg, workers=16, timeout=1500)
            except tlc.TLCError as exc:
                run.machinery(str(exc))
                return run.finish()
            run.add_model(r6, cfg)
            if not r6.ok:
                run.machinery(f'{cfg} failed: {r6.violated or r6.error}')
                return run.finish()
        risk6 = {skey(s): s for s in g6['WirePath_unchecked6.cfg'].nodes.values()}
        have = {skey(s) for s in states}
        deep = [s for s in g6['WirePath_asis6.cfg'].nodes.values()
                if skey(s) not in have and (s['bad'] or risk6[skey(s)]['bad'])
                and not any(str(x) in ('NUL', 'U') for x in s['name'])]
        deep.sort(key=lambda s: (str(s['layout']), len(s['name']), show(s['name'])))
        run.notes['deep_risky_names_len5_6'] = len(deep)
        deep = rng.sample(deep, min(400, len(deep)))
        for s in deep:
            risk[skey(s)] = risk6[skey(s)]
        states += deep
        states.sort(key=lambda s: (str(s['layout']), len(s['name']), show(s['name'])))
        r7 = tlc.run_tlc('WirePath.tla', 'WirePath_asis7.cfg', workers=16, timeout=1500)
        run.add_model(r7, 'WirePath_asis7.cfg')
        if not r7.ok:
            run.machinery(f'WirePath_asis7.cfg failed: {r7.violated or r7.error}')
            return run.finish()

    # 2. maildir: every selected state in every slot
    store = Store()
    try:
        maildir_campaign(run, store, states, rng, quick,
                         deadline=run.t0 + (150 if quick else 1500), risk=risk)
        selftest(run, store, graph)
    finally:
        store.close()

    # 3. dict
    dstates = [s for s in states if str(s['layout']) == 'fs']
    if quick:
        dstates = [s for s in dstates
                   if len(s['name']) <= 2 or s['bad'] or risk[skey(s)]['bad']][:60]
    dict_campaign(run, dstates, quick)

    run.cov['exhaustive'] = not quick
    run.notes['exhaustive_scope'] = (
        'model: every name over {a . / U NUL} up to length 4 (quick) / 7 (thorough) x both '
        'layouts x 16 slots; executed: thorough = every name up to length 4 + the DeepNames '
        '+ a seeded sample of escaping names of length 5-6, in all 16 slots, both layouts, '
        'all concretisations; quick = names up to length 2, every escaping name, the '
        'DeepNames and a seeded sample of the rest')
    for sig, e in list(run.notes.get('escapes', {}).items())[:3]:
        run.sample({'signature': sig, **(e['examples'][0] if e['examples'] else {})})
    return run.finish()


def selftest(run: Run, store: Store, graph) -> None:
    """(b) of HOWTO 'proving the binding works': corrupt the expected value on
    the spec side and require the judgement to come out as a signature that
    no known finding can excuse.  Uses a fabricated execution (one stat of the
    base directory) and a fabricated model state, so it depends neither on the
    tree under test nor on the model configuration."""
    view = {'zone': 'base', 'pzones': frozenset(), 'cls': 'FS_DotDotComponent',
            'allowed': frozenset({'base', 'sibling', 'siblingIn', 'root', 'in'})}
    st = {'layout': 'fs', 'name': ('DOT', 'DOT'), 'bad': frozenset({'STATUS'}),
          'view': {'plain': view, 'create': view}}
    base = os.path.join(store.top, 'selftest', 'base')
    ex = Exec()
    ex.base = base
    ex.cond = ('OK', None, '')
    ex.touch = [('cmd', 'os.stat', FsGuard.READ, base + '/user1/..', base, 'base')]
    esc1, beyond1 = judge(store, base, ex, 'STATUS', st)
    sig1 = signature('fs', 'STATUS', st, beyond1) if esc1 else None
    fake = dict(st)
    fake['bad'] = frozenset()                      # "TLC says the name is confined"
    esc2, beyond2 = judge(store, base, ex, 'STATUS', fake)
    sig2 = signature('fs', 'STATUS', fake, beyond2) if esc2 else None
    fake3 = dict(st)                               # "TLC says only the root may be touched"
    fake3['view'] = {g: dict(v, allowed=frozenset({'in', 'root'})) for g, v in st['view'].items()}
    esc3, beyond3 = judge(store, base, ex, 'STATUS', fake3)
    sig3 = signature('fs', 'STATUS', fake3, beyond3) if esc3 else None
    ok = (sig1 == 'fs:STATUS:FS_DotDotComponent'
          and sig2 is not None and 'ModelSaysConfined' in sig2 and sig2 not in run.known.open
          and sig3 is not None and '!' in sig3 and sig3 not in run.known.open)
    run.notes['selftest'] = {'true_model_sig': sig1, 'corrupted_bad_sig': sig2,
                             'corrupted_allowed_sig': sig3, 'ok': ok}
    if not ok:
        run.machinery(f'selftest: a corrupted model value was not detected ({sig1}, {sig2}, {sig3})')


def replay(path: str) -> int:
    import json
    d = json.load(open(path))
    rep = d.get('replay', d)
    name = bytes.fromhex(rep['name_hex'])
    if rep.get('backend') == 'dict':
        dw = DictWorld()
        try:
            cond, resp = dw.run_slot(rep['slot'], name)
            after = dw.dump()
            changed = [DUMP[i].decode() for i in range(len(DUMP)) if after[i] != dw.baseline[i]]
            print('response', cond)
            print('user1x dump changed in', changed)
            return 1 if changed else 0
        finally:
            dw.close()
    store = Store()
    try:
        ex = execute(store, rep['layout'], rep.get('store', 'A'), rep['slot'], name)
        print(f'{rep["layout"]} {rep["slot"]} {name!r} -> {ex.cond}')
        bad = 0
        for phase, fn, kind, raw, r, z in ex.touch:
            if phase != 'login' and z not in ('in', 'tmp') and not (z == 'root' and kind != 'destroy'):
                print(f'  {phase} {fn} [{kind}] {raw.replace(ex.base, "<base>")} -> {z}')
                bad += 1
        for k in ('other_diff', 'cred_diff', 'base_diff', 'inbox_lost', 'refused'):
            v = getattr(ex, k)
            if v:
                print(f'  {k}: {v[:8]}')
                bad += 1
        if ex.root1_gone:
            print('  user1 root removed')
            bad += 1
        return 1 if bad else 0
    finally:
        store.close()
