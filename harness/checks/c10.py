"""C10 - message commands behave as the IMAP reference model says.

Oracle: spec/RefMailbox.tla, a plain sequential RFC 3501 / 4315 / 6851 model
of APPEND / STORE(.SILENT) / FETCH / EXPUNGE / UID EXPUNGE / COPY / MOVE /
CLOSE / SELECT for one acting session and two mailboxes, plus COMPLETE commands
of ANOTHER session of the same user between two commands of the acting session
(OtherStore: UID STORE, OtherAppend: a delivery into either mailbox,
OtherExpunge: EXPUNGE of the acting session's selected mailbox).  The mailbox
is shared and the model is sequential, so every interleaving of complete
commands must equal the model applied in that order.  Its state is, per mailbox,
uid -> [flags, date index, content id]; `last` is the abstract result of the
last command (tagged class, addressed messages, the FETCH data the command
itself must produce, expunged uids, COPYUID / APPENDUID pairs).  Python never
computes what a command does: it turns a TLC action label into IMAP bytes,
parses the answer with the independent response parser, and compares with the
values TLC computed.

1. TLC checks the model's own sanity exhaustively (MOVE == COPY ; STORE
   +\\Deleted ; UID EXPUNGE of exactly those, UIDs strictly ascending, a
   refused command changes nothing, EXPUNGE / STORE / FETCH exactness).
2. Exhaustive part: the dumped state graph of all programs of length <= 3
   over a reduced menu, with EVERY resolution of the RFC's latitude points
   enabled.  Every (state, command) pair reachable through the outcomes the
   real server chooses is executed on a fresh server; the successor with the
   same label that agrees with the server is followed (none agrees =>
   discrepancy).  Which resolutions the server exhibits is recorded.
3. Random part: `tlc -simulate` (seed = VERIF_SEED) on the full menu, programs
   of up to 12 commands, with the latitude constants set to what the backend
   exhibited in 2 (a sub-model of the full one); each behaviour is replayed
   and compared after EVERY step.
After every step: (1) tagged result, (2) the command's own untagged data
against `last`, (3) a dump of the selected mailbox through the session itself
(`UID FETCH 1:* (UID FLAGS)`: its view) and of BOTH mailboxes through a second,
EXAMINE-ing probe connection (`UID FETCH 1:* (UID FLAGS INTERNALDATE
RFC822.SIZE BODY.PEEK[])`) against the model's maps (flags without \\Recent,
date as an instant, content by identity).  One simulated behaviour in five is
run with dumps at the end only, so that the probe traffic cannot mask anything.
Backends: dict, maildir ('++' and 'fs' layouts, without and with a
dovecot-keywords file that permits the keyword).

The other session is a third connection 'o' (opened at its first use).  For
OtherStore / OtherExpunge it SELECTs the acting session's mailbox read-write
just before its command - its view is then the mailbox as it is - and leaves it
with EXAMINE of the same mailbox (nothing is expunged by leaving).  Compared:
tagged OK and the command's own data on 'o' (FETCH FLAGS / APPENDUID / EXPUNGE
numbers), then the dumps.  Sequence numbers are relative to what a session has
been told, and RFC 2180 leaves open what commands on a not-yet-told view do, so
the model does not enter that window: an action that changes the SET of
messages of the selected mailbox (OtherExpunge, OtherAppend into it) includes a
NOOP of the acting session, which must report EXPUNGE of exactly those
messages / the new EXISTS.  OtherStore has no such step and, in the random
part, is not followed by the acting session's dump either (the probe looks):
the acting session's next command of the program is the first thing it does
after the change and must act on the mailbox as it IS, not as the session last
saw it (e.g. a STORE whose result equals the session's stale snapshot must
still happen).  In the exhaustive part an other-session action is never the
last command of a program; prefixes are replayed without dumps anyway.

Executions are independent (one fresh World each), so they are distributed
over forked worker processes (VERIF_C10_WORKERS, default 8); every phase has a
wall-clock budget and says in the evidence when it was cut short.

Verdicts.  A discrepancy is a VIOLATION unless every discrepancy of the step is
explained by the signature of an open entry of known/C10.json (computed from
the failing execution: backend, command, lineage of the affected messages).
After `MaildirCopyLosesContent` the execution goes on with the content of the
affected copies no longer compared; the other findings end the execution.
In the random part a step at which the sub-model fixed one resolution of a
latitude point and the server took the other RFC-permitted one (refusal,
nothing changed) is recorded as drift, not as a violation.
"""

from __future__ import annotations

import calendar
import hashlib
import json
import os
import random
import re
import shutil
import tempfile
import time

from ..common import Run
from .. import tlc
from .. import respparse as rp

SPEC = os.environ.get('VERIF_C10_SPEC') or 'RefMailbox.tla'   # override: spec-side experiments
KEYWORD = b'$c10kw'
FLAG = {'D': b'\\Deleted', 'S': b'\\Seen', 'F': b'\\Flagged', 'A': b'\\Answered',
        'T': b'\\Draft', 'K': KEYWORD, 'R': b'\\Recent'}
LETTER = {v.lower(): k for k, v in FLAG.items()}
DATES = {1: b'01-Feb-2020 10:11:12 +0000', 2: b'17-Jul-2021 23:59:58 +0530'}
MON = {m: i + 1 for i, m in enumerate(
    ['Jan', 'Feb', 'Mar', 'Apr', 'May', 'Jun', 'Jul', 'Aug', 'Sep', 'Oct', 'Nov', 'Dec'])}
DUMP = b'UID FETCH 1:* (UID FLAGS INTERNALDATE RFC822.SIZE BODY.PEEK[])'
DUMP_LIGHT = b'UID FETCH 1:* (UID FLAGS)'     # the session's own view (the probe fetches the rest)
BOXES = ('INBOX', 'Box')

BACKENDS = {
    'dict':        {'backend': 'dict', 'kw': False, 'off': 100},
    'maildir++':   {'backend': 'maildir', 'layout': '++', 'kw': False, 'off': 0},
    'maildirfs':   {'backend': 'maildir', 'layout': 'fs', 'kw': False, 'off': 0},
    'maildir++kw': {'backend': 'maildir', 'layout': '++', 'kw': True, 'off': 0},
    'maildirfskw': {'backend': 'maildir', 'layout': 'fs', 'kw': True, 'off': 0},
}

_World = None


def _world_cls():
    """Import the server lazily (VERIF_REPO decides which pymap) and memoise
    the installed-package metadata lookup pysasl repeats on every connection
    (9 ms each, two per behaviour) - a pure cache, no behaviour change."""
    global _World
    if _World is None:
        if os.path.isdir('/dev/shm') and os.access('/dev/shm', os.W_OK):
            # maildir scratch stores on tmpfs (fsync/rename on the disk image cost
            # 80 ms per behaviour); pymap's own temp files must be on the same
            # filesystem as the store (rename), so the whole process uses it
            tempfile.tempdir = '/dev/shm'
        from ..server import World
        import pysasl
        orig = pysasl.entry_points
        cache: dict = {}

        def entry_points(**kw):
            key = tuple(sorted(kw.items()))
            if key not in cache:
                cache[key] = list(orig(**kw))
            return cache[key]
        pysasl.entry_points = entry_points
        _World = World
    return _World


# --------------------------------------------------------------------------
# model side: TLC values -> plain python


def _fn(v) -> dict:
    """a TLA+ function over uids: TLC prints domain 1..n as a tuple"""
    if isinstance(v, tuple):
        return {i + 1: x for i, x in enumerate(v)}
    return dict(v)


def norm(st: dict) -> dict:
    """JSON-able normal form of a RefMailbox state"""
    mb = {}
    for b in BOXES:
        mb[b] = {int(u): {'f': sorted(m['f']), 'd': m['d'], 'c': m['c']}
                 for u, m in _fn(st['mb'][b]).items()}
    la = st['last']
    return {
        'mb': mb,
        'nextuid': {b: st['nextuid'][b] for b in BOXES},
        'sel': str(st['sel']),
        'ncmd': st['ncmd'],
        'nextcid': st['nextcid'],
        'last': {'cmd': la['cmd'], 'cond': la['cond'], 'dest': la['dest'],
                 'addr': sorted(la['addr']),
                 'fetch': {int(r['u']): sorted(r['f']) for r in la['fetch']},
                 'expunged': sorted(la['expunged']),
                 'pairs': sorted([list(p) for p in la['pairs']]),
                 'exists': la['exists'], 'uidnext': la['uidnext'],
                 'choice': sorted([list(c) for c in la['choice']])},
    }


def unjson(st: dict) -> dict:
    """norm() after a JSON round trip (integer keys became strings)"""
    st = dict(st)
    st['mb'] = {b: {int(u): m for u, m in st['mb'][b].items()} for b in BOXES}
    st['last'] = dict(st['last'])
    st['last']['fetch'] = {int(u): f for u, f in st['last']['fetch'].items()}
    return st


OOR_CMDS = ('store', 'fetch', 'copy', 'move')     # commands with latitude point L1
OTHER_KINDS = ('ostore', 'oappend', 'oexpunge')   # complete commands of the other session 'o'
OTHER_TAG = '[o] '                                # how such a command is written in reports
REC_CMDS = ('store', 'append')                    # ... L2


def cfg_text(*, kw: bool, oor_lenient=OOR_CMDS, oor_strict=OOR_CMDS, rec_lenient=REC_CMDS,
             rec_strict=REC_CMDS, appendkw=('keep', 'drop'), inits, maxcmds: int,
             maxuid: int, profile: str, twolevel: bool, props: bool) -> str:
    def sset(xs):
        return '{' + ', '.join('"%s"' % x for x in sorted(xs)) + '}'
    lines = ['SPECIFICATION Spec', 'CONSTANTS',
             f'  KwPermitted = {"TRUE" if kw else "FALSE"}',
             f'  OorLenient = {sset(oor_lenient)}', f'  OorStrict = {sset(oor_strict)}',
             f'  RecLenient = {sset(rec_lenient)}', f'  RecStrict = {sset(rec_strict)}',
             f'  AppendKw = {sset(appendkw)}',
             f'  Inits = {sset(inits)}', f'  MaxCmds = {maxcmds}',
             f'  MaxUid = {maxuid}', f'  Profile = "{profile}"',
             f'  TwoLevel = {"TRUE" if twolevel else "FALSE"}',
             'INVARIANT TypeOK', 'INVARIANT UidsBelowNext',
             'INVARIANT NoRecentStored', 'INVARIANT KwOnlyIfAllowed',
             'INVARIANT ContentHasOneDate']
    if props:
        lines += ['PROPERTY UidsAscend', 'PROPERTY RefusedInert',
                  'PROPERTY MoveIsCopyStoreExpunge', 'PROPERTY ExpungeExact',
                  'PROPERTY FetchSeenExact', 'PROPERTY StoreExact',
                  'PROPERTY OtherLeavesSession']
    lines.append('CHECK_DEADLOCK FALSE')
    return '\n'.join(lines) + '\n'


# --------------------------------------------------------------------------
# concretisation


def content(cid: int) -> bytes:
    n = cid % 4 + 1
    body = b''.join(b'body of c10-%d line %d %s\r\n' % (cid, i, b'x' * (cid % 7))
                    for i in range(n))
    return (b'From: verif%d@example.org\r\nTo: rcpt@example.org\r\n'
            b'Subject: c10-%d\r\nMessage-ID: <c10-%d@verif.test>\r\n'
            b'MIME-Version: 1.0\r\nContent-Type: text/plain; charset=us-ascii\r\n'
            b'\r\n' % (cid, cid, cid)) + body


def set_str(s, uidmode: bool, off: int) -> bytes:
    def num(x):
        if x == 0:
            return b'*'
        return b'%d' % (x + off if uidmode else x)
    return b','.join(b':'.join(num(x) for x in e) for e in s)


def flag_list(F) -> bytes:
    return b'(' + b' '.join(FLAG[f] for f in sorted(F)) + b')'


# FETCH item lists.  (request, item keys whose presence marks the command's own
# response lines, part of the message the value must equal or None)
SEEN_ITEMS = [
    (b'BODY[]', b'BODY[]', 'full'), (b'RFC822', b'RFC822', 'full'),
    (b'BODY[TEXT]', b'BODY[TEXT]', 'text'), (b'RFC822.TEXT', b'RFC822.TEXT', 'text'),
    (b'BODY[HEADER]', b'BODY[HEADER]', 'header'), (b'BODY[1]', b'BODY[1]', 'text'),
    (b'BINARY[]', b'BINARY[]', 'full'), (b'BODY[]<0.20>', b'BODY[]<0>', 'head20'),
    (b'BODY[HEADER.FIELDS (SUBJECT)]', b'BODY[HEADER.FIELDS (...)]', 'subject'),
]
PEEK_ITEMS = [
    (b'BODY.PEEK[]', b'BODY[]', 'full'), (b'BODY.PEEK[TEXT]', b'BODY[TEXT]', 'text'),
    (b'BODY.PEEK[HEADER]', b'BODY[HEADER]', 'header'),
    (b'RFC822.HEADER', b'RFC822.HEADER', 'header'),
    (b'BINARY.SIZE[]', b'BINARY.SIZE[]', None),
    (b'RFC822.SIZE', b'RFC822.SIZE', None), (b'INTERNALDATE', b'INTERNALDATE', None),
    (b'ENVELOPE', b'ENVELOPE', None), (b'BODYSTRUCTURE', b'BODYSTRUCTURE', None),
    (b'BODY', b'BODY', None), (b'FLAGS', None, None), (b'UID', None, None),
    (b'FAST', b'RFC822.SIZE', None), (b'ALL', b'ENVELOPE', None),
    (b'BODY.PEEK[1]', b'BODY[1]', 'text'),
]


def part_of(cid: int, part: str) -> bytes:
    full = content(cid)
    head, _, text = full.partition(b'\r\n\r\n')
    if part == 'full':
        return full
    if part == 'text':
        return text
    if part == 'header':
        return head + b'\r\n\r\n'
    if part == 'head20':
        return full[:20]
    if part == 'subject':
        return b'Subject: c10-%d\r\n\r\n' % cid
    raise ValueError(part)


def concretise(label: str, prev: dict, off: int, rng) -> tuple[bytes, dict]:
    """one TLC action label -> (IMAP command line, meta for the comparison)"""
    name, a = tlc.parse_label(label)
    if name == 'Store':
        um, s, op, F, silent = a
        item = {'replace': b'', 'add': b'+', 'remove': b'-'}[op] + b'FLAGS' + \
            (b'.SILENT' if silent else b'')
        line = (b'UID ' if um else b'') + b'STORE ' + set_str(s, um, off) + b' ' + \
            item + b' ' + flag_list(F)
        return line, {'kind': 'store', 'uid': bool(um), 'silent': bool(silent)}
    if name == 'Fetch':
        um, s, seen = a
        req, key, part = rng.choice(SEEN_ITEMS if seen else PEEK_ITEMS)
        items = [req]
        if req not in (b'FAST', b'ALL'):
            # macros must be used alone; otherwise sometimes ask for UID / FLAGS too
            if rng.random() < 0.5 and req != b'FLAGS':
                items.insert(0, b'FLAGS')
            if rng.random() < 0.4 and req != b'UID':
                items.insert(0, b'UID')
        want_flags = b'FLAGS' in items or req in (b'FAST', b'ALL')
        atts = items[0] if len(items) == 1 and (rng.random() < 0.5 or req in (b'FAST', b'ALL')) \
            else b'(' + b' '.join(items) + b')'
        line = (b'UID ' if um else b'') + b'FETCH ' + set_str(s, um, off) + b' ' + atts
        return line, {'kind': 'fetch', 'uid': bool(um), 'own_key': key.decode() if key else None,
                      'part': part, 'want_flags': want_flags}
    if name == 'Expunge':
        return b'EXPUNGE', {'kind': 'expunge'}
    if name == 'UidExpunge':
        return b'UID EXPUNGE ' + set_str(a[0], True, off), {'kind': 'uidexpunge'}
    if name in ('Copy', 'Move'):
        um, s, dest = a
        line = (b'UID ' if um else b'') + name.upper().encode() + b' ' + \
            set_str(s, um, off) + b' ' + dest.encode()
        return line, {'kind': name.lower(), 'uid': bool(um), 'dest': dest}
    if name == 'AppendMsg':
        dest, F, d = a
        cid = prev['nextcid']
        msg = content(cid)
        parts = [b'APPEND', dest.encode()]
        if F or rng.random() < 0.5:
            parts.append(flag_list(F))
        if d:
            parts.append(b'"' + DATES[d] + b'"')
        parts.append(b'{%d+}\r\n' % len(msg) + msg)
        return b' '.join(parts), {'kind': 'append', 'dest': dest, 'cid': cid}
    if name == 'Close':
        return b'CLOSE', {'kind': 'close'}
    # complete commands of the OTHER session (connection 'o', see Exec.other): 'box' = the
    # mailbox it SELECTs before (and EXAMINEs after) its command; 'sync' = the set of
    # messages of the acting session's mailbox changes, so the action includes its NOOP
    if name == 'OtherStore':
        s, op, F = a
        silent = rng.random() < 0.3
        item = {'replace': b'', 'add': b'+', 'remove': b'-'}[op] + b'FLAGS' + \
            (b'.SILENT' if silent else b'')
        line = b'UID STORE ' + set_str(s, True, off) + b' ' + item + b' ' + flag_list(F)
        return line, {'kind': 'ostore', 'box': prev['sel'], 'silent': silent, 'sync': False}
    if name == 'OtherAppend':
        dest, F, d = a
        cid = prev['nextcid']
        msg = content(cid)
        parts = [b'APPEND', dest.encode()]
        if F or rng.random() < 0.5:
            parts.append(flag_list(F))
        if d:
            parts.append(b'"' + DATES[d] + b'"')
        parts.append(b'{%d+}\r\n' % len(msg) + msg)
        return b' '.join(parts), {'kind': 'oappend', 'dest': dest, 'cid': cid, 'box': None,
                                  'sync': dest == prev['sel']}
    if name == 'OtherExpunge':
        return b'EXPUNGE', {'kind': 'oexpunge', 'box': prev['sel'], 'sync': True}
    if name == 'Select':
        return b'SELECT ' + a[0].encode(), {'kind': 'select', 'dest': a[0]}
    raise ValueError(label)


# --------------------------------------------------------------------------
# abstraction of what the server wrote


def parse_date(v: bytes) -> int:
    m = re.fullmatch(rb'([ \d]\d)-(\w{3})-(\d{4}) (\d\d):(\d\d):(\d\d) ([+-])(\d\d)(\d\d)', v)
    day, mon, year, hh, mm, ss, sign, zh, zm = m.groups()
    ts = calendar.timegm((int(year), MON[mon.decode()], int(day), int(hh), int(mm), int(ss)))
    zone = (int(zh) * 60 + int(zm)) * 60
    return ts - zone if sign == b'+' else ts + zone


def letters(flags) -> list:
    """IMAP flags -> model letters, without \\Recent (a session flag)"""
    out = []
    for f in flags:
        k = LETTER.get(bytes(f).lower())
        if k == 'R':
            continue
        out.append(k if k else '?' + bytes(f).decode('latin-1'))
    return sorted(out)


def _lit(v):
    if isinstance(v, (rp.Literal, rp.Quoted)):
        return v.value
    return None


def expand_uidset(raw: bytes) -> list:
    out = []
    for part in raw.split(b','):
        if b':' in part:
            a, b = part.split(b':')
            a, b = int(a), int(b)
            out += list(range(a, b + 1)) if a <= b else list(range(a, b - 1, -1))
        else:
            out.append(int(part))
    return out


class Obs:
    """one command's response, abstracted"""

    def __init__(self, raw: bytes):
        self.raw = raw
        self.cond = None
        self.events = []      # ('fetch', n, data) | ('expunge', n) | ('exists', n)
        self.codes = {}       # NAME -> args (tagged or untagged OK)
        self.bye = False
        self.malformed = None
        try:
            resps = rp.parse_stream(raw)
        except (rp.Malformed, rp.Incomplete) as exc:
            self.malformed = str(exc) or type(exc).__name__
            return
        for r in resps:
            if r.kind == 'tagged':
                self.cond = (r.cond or b'').decode()
                if r.code:
                    self.codes[r.code[0].decode()] = r.code[1]
            elif r.kind == 'untagged':
                if r.cond == b'BYE':
                    self.bye = True
                elif r.cond == b'OK' and r.code:
                    self.codes[r.code[0].decode()] = r.code[1]
                elif r.name == b'FETCH':
                    self.events.append(('fetch', r.num, r.data))
                elif r.name == b'EXPUNGE':
                    self.events.append(('expunge', r.num))
                elif r.name == b'EXISTS':
                    self.events.append(('exists', r.num))


def parse_dump(raw: bytes, off: int, light: bool = False):
    """-> (list of message dicts in response order, error or None, exists seen)"""
    o = Obs(raw)
    if o.malformed:
        return [], 'dump not parseable: ' + o.malformed, None
    if o.cond != 'OK':
        return [], f'dump answered {o.cond}', None
    msgs, exists = [], None
    for ev in o.events:
        if ev[0] == 'exists':
            exists = ev[1]
        if ev[0] != 'fetch':
            continue
        d = ev[2]
        if light:
            if b'UID' not in d or b'FLAGS' not in d:
                return [], f'dump line {ev[1]} lacks requested items: {sorted(d)}', None
            msgs.append({'seq': ev[1], 'uid': d[b'UID'] - off, 'f': letters(d[b'FLAGS'])})
            continue
        body = _lit(d.get(b'BODY[]'))
        if b'UID' not in d or b'FLAGS' not in d or body is None \
                or b'INTERNALDATE' not in d or b'RFC822.SIZE' not in d:
            return [], f'dump line {ev[1]} lacks requested items: {sorted(d)}', None
        msgs.append({'seq': ev[1], 'uid': d[b'UID'] - off, 'f': letters(d[b'FLAGS']),
                     'ts': parse_date(d[b'INTERNALDATE']), 'size': d[b'RFC822.SIZE'],
                     'body': body})
    return msgs, None, exists


# --------------------------------------------------------------------------
# one behaviour on one backend


class Exec:

    def __init__(self, bname: str, init: dict, rng):
        self.bname = bname
        self.bk = BACKENDS[bname]
        self.off = self.bk['off']
        self.maildir = self.bk['backend'] == 'maildir'
        self.rng = rng
        self.init = init
        self.t0 = int(time.time())
        self.now_ts: dict = {}           # cid of an APPEND without date -> instant observed
        self.copied: set = set()         # (box, model uid) created by COPY (lineage)
        self.moved_out: dict = {b: set() for b in BOXES}   # model uids MOVEd out of a box
        self.moved_in: dict = {b: False for b in BOXES}    # a MOVE delivered into the box
        self.tainted: set = set()        # (box, uid) whose content is excused (known finding)
        self.excused: set = set()        # signatures already reported by this execution
        self.log: list = []              # (command, response) as latin-1 strings
        self.w = None
        self.uidplus = True
        self.last_raw = None
        self.last_obs = None
        self.last_obs_discs: list = []
        self.metas: list = []
        self.side: dict = {}             # what the other session was answered at this step
        self.n_other = 0                 # other-session steps executed
        self.unsynced_store = False      # an OtherStore the session has not been told about
        self.n_after_ostore = 0          # own commands given directly after such an OtherStore

    # -- plumbing ------------------------------------------------------------

    def cmd(self, conn: str, line: bytes) -> bytes:
        out = self.w.cmd(conn, line)
        c = self.w.conns[conn]
        if self.maildir and not c.done and not re.search(
                rb'(^|\r\n)' + re.escape(conn.encode()) + rb'\d+ (OK|NO|BAD)', out):
            # the command waits (the maildir backend retries a lock file it found taken, with
            # sleeps): let virtual time pass - its waits are bounded - and read again
            self.w.loop.settle(max_vtime=self.w.loop.time() + 30)
            out += c.take()
            self.n_waited = getattr(self, 'n_waited', 0) + 1
        if conn in ('a', 'o'):
            self.log.append(((OTHER_TAG if conn == 'o' else '') + line[:300].decode('latin-1'),
                             out[:2000].decode('latin-1')))
        return out

    def close(self) -> None:
        if self.w is not None:
            try:
                self.w.close()
            finally:
                self.w = None

    def setup(self, verify: bool = True) -> list:
        """build the model's initial state through a set-up connection, then
        SELECT on the session under test and open the probe.  Returns
        discrepancies of the initial comparison."""
        World = _world_cls()
        kw = {}
        if self.maildir:
            kw['layout'] = self.bk['layout']
        self.w = w = World(self.bk['backend'], users={'user1': 'pass1'}, **kw)
        c = w.connect('s')
        c.take()
        w.login('s')
        w.cmd('s', b'CREATE Box')
        if self.maildir and self.bk['kw']:
            # a dovecot-keywords file is the only way a maildir folder permits a
            # keyword; it is read once per folder object, so write it before any use
            from .. import maildirsrv
            w.cmd('s', b'LOGOUT')
            for b in BOXES:
                path = maildirsrv._folder_path(w, b)
                with open(os.path.join(path, 'dovecot-keywords'), 'w') as f:
                    f.write('0 %s\n' % KEYWORD.decode())
            c = w.connect('s2')
            c.take()
            w.login('s2')
            s = 's2'
        else:
            s = 's'
        for b in BOXES:
            have = self.init['mb'][b]
            fillers = []
            later_deleted = []
            for u in range(1, self.init['nextuid'][b]):
                if u in have:
                    m = have[u]
                    fl = [f for f in m['f'] if f != 'D']
                    if 'D' in m['f']:
                        later_deleted.append(u)
                    cid, d = m['c'], m['d']
                else:
                    fl, cid, d = ['D'], 90 + u, 1
                    fillers.append(u)
                msg = content(cid)
                line = b'APPEND ' + b.encode() + b' ' + flag_list(fl) + \
                    (b' "' + DATES[d] + b'"' if d else b'') + b' {%d+}\r\n' % len(msg) + msg
                w.cmd(s, line)
            if fillers or later_deleted:
                w.cmd(s, b'SELECT ' + b.encode())
                if fillers:
                    w.cmd(s, b'EXPUNGE')
                for u in later_deleted:
                    w.cmd(s, b'UID STORE %d +FLAGS.SILENT (\\Deleted)' % (u + self.off))
        w.cmd(s, b'LOGOUT')
        c = w.connect('a')
        c.take()
        out = w.login('a')
        self.uidplus = b'UIDPLUS' in out
        self.cmd('a', b'SELECT ' + self.init['sel'].encode())
        c = w.connect('p')
        c.take()
        w.login('p')
        if not verify:
            return []
        return self.compare_dumps(self.init, self.dump(self.init['sel']))

    # -- observation ---------------------------------------------------------

    def dump(self, sel: str, own: bool = True) -> dict:
        """{'self': (box, msgs, err), box: (msgs, err, exists)}; own=False: the probe
        only (the session under test is not asked anything)"""
        out = {}
        if sel != 'none' and own:
            self.unsynced_store = False
            raw = self.cmd('a', DUMP_LIGHT)
            msgs, err, _ = parse_dump(raw, self.off, light=True)
            out['self'] = (sel, msgs, err)
        for b in BOXES:
            ex = Obs(self.w.cmd('p', b'EXAMINE ' + b.encode()))
            n = [e[1] for e in ex.events if e[0] == 'exists']
            msgs, err, _ = parse_dump(self.w.cmd('p', DUMP), self.off)
            if ex.cond != 'OK':
                err = f'probe EXAMINE {b} answered {ex.cond}'
            out[b] = (msgs, err, n[-1] if n else None)
        return out

    def step(self, label: str, prev: dict):
        line, meta = concretise(label, prev, self.off, self.rng)
        if meta['kind'] in OTHER_KINDS:
            return OTHER_TAG.encode() + line, meta, self.other(line, meta)
        return line, meta, self.own(line)

    def own(self, line: bytes) -> 'Obs':
        """a command of the session under test"""
        if self.unsynced_store:
            self.n_after_ostore += 1
            self.unsynced_store = False
        raw = self.cmd('a', line)
        self.last_raw = raw
        self.side = {}
        return Obs(raw)

    def other(self, line: bytes, meta: dict) -> 'Obs':
        """a COMPLETE command of the other session: connection 'o', same user, opened
        at its first use.  For a command on a selected mailbox it SELECTs the mailbox just
        before (its view is then the mailbox as it is) and leaves it with EXAMINE of the
        same mailbox (no CLOSE, nothing is expunged).  What 'o' was answered is kept in
        self.side.  If the action synchronises the acting session (meta['sync']) that
        session's NOOP follows and ITS response is returned, otherwise the response of
        'o' to its command."""
        w = self.w
        if 'o' not in w.conns:
            c = w.connect('o')
            c.take()
            w.login('o')
        self.n_other += 1
        side = {}
        box = meta.get('box')
        if box:
            side['select'] = Obs(self.cmd('o', b'SELECT ' + box.encode()))
        raw = self.cmd('o', line)
        side['main'] = Obs(raw)
        if box:
            side['examine'] = Obs(self.cmd('o', b'EXAMINE ' + box.encode()))
        self.side = side
        if meta['kind'] == 'ostore':
            self.unsynced_store = True
        if meta.get('sync'):
            self.unsynced_store = False
            raw = self.cmd('a', b'NOOP')
            self.last_raw = raw
            return Obs(raw)
        self.last_raw = raw
        return side['main']

    # -- comparison ----------------------------------------------------------

    def _cmp_message(self, box: str, m: dict, want: dict, out: list, where: str) -> None:
        u = m['uid']
        if m['f'] != want['f']:
            out.append(('flags', f'{where} {box} uid {u}: flags {m["f"]} model {want["f"]}'))
        if 'body' not in m:
            return
        cid, d = want['c'], want['d']
        tainted = (box, u) in self.tainted
        if d:
            if m['ts'] != parse_date(DATES[d]):
                out.append(('date', f'{where} {box} uid {u}: INTERNALDATE instant {m["ts"]} '
                            f'model {DATES[d].decode()} = {parse_date(DATES[d])}'))
        else:
            known = self.now_ts.get(cid)
            if known is None:
                if abs(m['ts'] - self.t0) > 86400:
                    out.append(('date', f'{where} {box} uid {u}: APPEND without date-time got '
                                f'{m["ts"]}, now is {self.t0}'))
                self.now_ts[cid] = m['ts']
            elif known != m['ts']:
                out.append(('date', f'{where} {box} uid {u}: date of content {cid} was {known}, '
                            f'is {m["ts"]}'))
        body, wantb = m['body'], content(cid)
        if self.maildir:
            # maildir rewrites CRLF to LF on APPEND (C03's finding): compare modulo that
            same = body.replace(b'\r\n', b'\n') == wantb.replace(b'\r\n', b'\n')
        else:
            same = body == wantb
        if tainted:
            pass        # content already reported under an open known finding
        elif not same:
            blank = not body.strip()
            mk = re.search(rb'Subject: c10-(\d+)', body)
            out.append(('content', f'{where} {box} uid {u}: content is '
                        + ('blank' if blank else f'c10-{mk.group(1).decode()}' if mk else
                           repr(body[:60])) + f' ({len(body)} octets), model content id {cid}',
                        {'box': box, 'uid': u, 'blank': blank}))
        elif m['size'] != len(body):
            out.append(('size', f'{where} {box} uid {u}: RFC822.SIZE {m["size"]} but BODY[] has '
                        f'{len(body)} octets'))

    def compare_dumps(self, st: dict, dumps: dict) -> list:
        out = []
        for key, val in dumps.items():
            if key == 'self':
                box, msgs, err = val
                where, exists = 'session dump of', None
            else:
                box = key
                msgs, err, exists = val
                where = 'probe dump of'
            if err:
                out.append(('dump', f'{where} {box}: {err}'))
                continue
            want = st['mb'][box]
            uids = [m['uid'] for m in msgs]
            if [m['seq'] for m in msgs] != list(range(1, len(msgs) + 1)) or uids != sorted(set(uids)):
                out.append(('view', f'{where} {box}: sequence numbers {[m["seq"] for m in msgs]} '
                            f'uids {uids} are not 1..n in ascending UID order'))
            if exists is not None and exists != len(msgs):
                out.append(('view', f'{where} {box}: {exists} EXISTS but {len(msgs)} messages fetched'))
            if sorted(set(uids)) != sorted(want):
                extra = sorted(set(uids) - set(want))
                missing = sorted(set(want) - set(uids))
                out.append(('uids', f'{where} {box}: uids {sorted(set(uids))} model {sorted(want)}',
                            {'box': box, 'extra': extra, 'missing': missing}))
            for m in msgs:
                if m['uid'] in want:
                    self._cmp_message(box, m, want[m['uid']], out, where)
        return out

    def compare_obs(self, prev: dict, st: dict, meta: dict, obs: Obs) -> list:
        if meta['kind'] not in OTHER_KINDS:
            return self._compare_obs(prev, st, meta, obs)
        # a step of the other session: what 'o' was answered (its view is the mailbox as
        # it was: it SELECTed just before), then the acting session's NOOP if there is one
        out = []
        side = self.side
        for key in ('select', 'examine'):
            o = side.get(key)
            if o is not None and (o.malformed or o.cond != 'OK'):
                out.append(('other', f'other session: {key.upper()} {meta["box"]} answered '
                            f'{o.malformed or o.cond}'))
        if self.w.conns['o'].done or any(o.bye for o in side.values()):
            out.append(('bye', 'other session: the server closed the connection'))
        main = side['main']
        if meta['kind'] == 'oappend' and not main.malformed:
            # its untagged data is about whatever 'o' has EXAMINEd: not compared
            main = Obs(b'')
            main.cond, main.codes, main.bye = side['main'].cond, side['main'].codes, False
        sub = dict(meta, kind='o:' + meta['kind'][1:])
        out += [(d[0], 'other session: ' + d[1]) + tuple(d[2:])
                for d in self._compare_obs(prev, st, sub, main)]
        if meta.get('sync') and not any(d[0] == 'cond' for d in out):
            out += self._compare_obs(prev, st, dict(meta, kind='sync'), obs)
        return out

    def _compare_obs(self, prev: dict, st: dict, meta: dict, obs: Obs) -> list:
        out = []
        last = st['last']
        if obs.malformed:
            return [('malformed', 'response not parseable: ' + obs.malformed)]
        if obs.bye or self.w.conns['a'].done:
            out.append(('bye', 'the server closed the connection'))
        if last['cond'] == 'OK':
            if obs.cond != 'OK':
                out.append(('cond', f'tagged {obs.cond}, model OK'))
                return out
        else:
            if obs.cond not in ('NO', 'BAD'):
                out.append(('cond', f'tagged {obs.cond}, model: refused (NO/BAD)'))
            if obs.events:
                out.append(('cond', 'refused command produced message data'))
            return out
        sel = prev['sel']
        kind = meta['kind']
        off = self.off
        before = sorted(prev['mb'][sel]) if sel != 'none' else []
        after_box = st['sel'] if kind == 'select' else sel
        after = st['mb'][after_box] if after_box != 'none' else {}
        view = list(before)
        removed = []
        lines = {}            # model uid -> list of data dicts
        own = set()
        exists = None
        if kind == 'select':
            view = sorted(after)
        for ev in obs.events:
            if ev[0] == 'expunge':
                n = ev[1]
                if not 1 <= n <= len(view):
                    out.append(('expunge', f'* {n} EXPUNGE with {len(view)} messages in the view'))
                else:
                    removed.append(view.pop(n - 1))
            elif ev[0] == 'exists':
                exists = ev[1]
                if exists > len(view):
                    # new messages: their uids are the model's new ones, in order
                    new = [u for u in sorted(after) if u not in view and u not in removed
                           and (not view or u > max(x for x in view if x is not None))]
                    view += (new + [None] * exists)[:exists - len(view)]
            elif ev[0] == 'fetch':
                n, d = ev[1], ev[2]
                u_by_seq = view[n - 1] if 1 <= n <= len(view) else None
                u_by_uid = d[b'UID'] - off if b'UID' in d else None
                if not 1 <= n <= len(view):
                    out.append(('view', f'* {n} FETCH with {len(view)} messages in the view'))
                if u_by_seq is not None and u_by_uid is not None and u_by_seq != u_by_uid:
                    out.append(('view', f'* {n} FETCH says UID {u_by_uid + off}, message {n} is '
                                f'UID {u_by_seq + off}'))
                u = u_by_uid if u_by_uid is not None else u_by_seq
                if u is None:
                    continue
                lines.setdefault(u, []).append(d)
                if meta.get('own_key') and meta['own_key'].encode() in d:
                    own.add(u)
                if b'FLAGS' in d:
                    got = letters(d[b'FLAGS'])
                    if u in last['fetch']:
                        wantf = last['fetch'][u]
                    elif u in after:
                        wantf = after[u]['f']
                    else:
                        wantf = None
                    if wantf is not None and got != wantf:
                        out.append(('fetchflags', f'* {n} FETCH (uid {u + off}) FLAGS {got}, '
                                    f'model after the command {wantf}'))
        # expunged
        want_exp = last['expunged']
        if sorted(removed) != want_exp:
            out.append(('expunged', f'EXPUNGE responses remove uids {sorted(removed)}, model {want_exp}'))
        if exists is not None and kind != 'select' and exists != len(after):
            out.append(('view', f'* {exists} EXISTS, model has {len(after)} messages'))
        # the command's own FETCH data
        if kind == 'store' and not meta['silent']:
            for u, f in last['fetch'].items():
                if not any(b'FLAGS' in d for d in lines.get(u, [])):
                    out.append(('fetchmissing', f'STORE without .SILENT: no FETCH FLAGS for uid {u + off}'))
        if kind == 'o:store' and not meta['silent']:
            for u in last['addr']:
                if not any(b'FLAGS' in d for d in lines.get(u, [])):
                    out.append(('fetchmissing', f'STORE without .SILENT: no FETCH FLAGS for uid {u + off}'))
        if kind == 'sync' and last['exists'] and exists != last['exists']:
            # RFC 3501 5.2: mailbox size updates MUST be sent when observed during a command
            out.append(('view', f'NOOP after the other session\'s delivery: {exists} EXISTS, '
                        f'model {last["exists"]}'))
        if kind == 'fetch':
            addr = set(last['addr'])
            if meta.get('own_key'):
                if own != addr:
                    out.append(('addressed', f'FETCH returned {meta["own_key"]} for uids '
                                f'{sorted(own)}, the set addresses {sorted(addr)}'))
            elif not addr <= set(lines):
                out.append(('addressed', f'FETCH answered for uids {sorted(lines)}, the set '
                            f'addresses {sorted(addr)}'))
            for u in addr & set(lines):
                ds = lines[u]
                if meta.get('want_flags') and not any(b'FLAGS' in d for d in ds):
                    out.append(('fetchmissing', f'FETCH asked for FLAGS, none returned for uid {u + off}'))
                if meta.get('uid') and not any(b'UID' in d for d in ds):
                    out.append(('fetchmissing', f'UID FETCH response without UID for uid {u + off}'))
                part = meta.get('part')
                if part and meta.get('own_key') and u in prev['mb'][sel]:
                    key = meta['own_key'].encode()
                    val = next((_lit(d[key]) for d in ds if key in d), None)
                    want = part_of(prev['mb'][sel][u]['c'], part)
                    if val is not None and (sel, u) not in self.tainted:
                        a, b = (val.replace(b'\r\n', b'\n'), want.replace(b'\r\n', b'\n')) \
                            if self.maildir else (val, want)
                        if a != b:
                            out.append(('fetchbody', f'FETCH {meta["own_key"]} of uid {u + off}: '
                                        f'{val[:50]!r}.. model {want[:50]!r}..',
                                        {'box': sel, 'uid': u, 'blank': not val.strip()}))
        # COPYUID / APPENDUID
        if kind in ('copy', 'move'):
            wantp = [tuple(p) for p in last['pairs']]
            raw = obs.codes.get('COPYUID')
            if raw is None:
                if wantp and self.uidplus:
                    out.append(('copyuid', f'no COPYUID, model pairs {wantp}'))
            else:
                m = re.fullmatch(rb'(\d+) (\S+) (\S+)', raw)
                src, dst = expand_uidset(m.group(2)), expand_uidset(m.group(3))
                got = sorted(zip([x - off for x in src], [x - off for x in dst])) \
                    if len(src) == len(dst) else None
                if got != sorted(wantp):
                    out.append(('copyuid', f'COPYUID {raw.decode()} = pairs {got}, model {wantp} '
                                f'(+{off})', {'got': got, 'want': wantp}))
        if kind in ('append', 'o:append'):
            raw = obs.codes.get('APPENDUID')
            wantu = last['pairs'][0][1]
            if raw is None:
                if self.uidplus:
                    out.append(('appenduid', 'no APPENDUID'))
            else:
                m = re.fullmatch(rb'(\d+) (\S+)', raw)
                got = [x - off for x in expand_uidset(m.group(2))]
                if got != [wantu]:
                    out.append(('appenduid', f'APPENDUID {raw.decode()}, model uid {wantu + off}'))
        if kind == 'select':
            if exists != last['exists']:
                out.append(('select', f'SELECT: {exists} EXISTS, model {last["exists"]}'))
            raw = obs.codes.get('UIDNEXT')
            if raw is not None and int(raw) - off != last['uidnext']:
                out.append(('uidnext', f'SELECT: UIDNEXT {int(raw)}, model {last["uidnext"] + off}'))
        return out

    # -- bookkeeping after an accepted step ------------------------------------

    def pre_taint(self, prev: dict, st: dict) -> None:
        """a MOVE carries the same file to a new UID: content already excused under an
        open known finding stays excused (nothing else is affected)"""
        last = st['last']
        if last['cmd'] == 'move' and last['cond'] == 'OK':
            for s, d in last['pairs']:
                if (prev['sel'], s) in self.tainted:
                    self.tainted.add((last['dest'], d))

    def accepted(self, prev: dict, st: dict) -> None:
        last = st['last']
        if last['cond'] != 'OK':
            return
        if last['cmd'] in ('copy', 'move'):
            src_box, dst_box = prev['sel'], last['dest']
            for s, d in last['pairs']:
                if last['cmd'] == 'copy' or (src_box, s) in self.copied:
                    self.copied.add((dst_box, d))
                if last['cmd'] == 'move' and (src_box, s) in self.tainted:
                    self.tainted.add((dst_box, d))     # the same file under a new UID
            if last['cmd'] == 'move':
                self.moved_out[src_box].update(last['expunged'])
                if last['pairs']:
                    self.moved_in[dst_box] = True


# --------------------------------------------------------------------------
# known findings: signatures computed from the failing execution


def signature(ex: Exec, prev: dict, st: dict, discs: list, label: str = '') -> str | None:
    """A signature only if EVERY discrepancy of the step is explained by it."""
    if not discs:
        return None
    if ex.maildir:
        last = st['last']
        # MOVE into the selected mailbox itself: the session never answers again
        # (whatever the model allows for this step: the command is not answered at all)
        if label.startswith('Move('):
            dest = tlc.parse_label(label)[1][2]
            if dest == prev['sel'] and ex.last_raw == b'' and not ex.w.conns['a'].done:
                return 'MaildirMoveToSelfHangs'        # COPY on maildir writes a metadata-only message: the copy's content is blank
        copied = set(ex.copied)
        if last['cmd'] in ('copy', 'move') and last['cond'] == 'OK':
            copied |= {(last['dest'], d) for s_, d in last['pairs']
                       if last['cmd'] == 'copy' or (prev['sel'], s_) in ex.copied}
        rest = [d for d in discs
                if not (d[0] in ('content', 'fetchbody') and len(d) > 2 and d[2]['blank']
                        and (d[2]['box'], d[2]['uid']) in copied)]
        if not rest:
            return 'MaildirCopyLosesContent'
        if len(rest) < len(discs) and 'MaildirCopyLosesContent' not in _open():
            rest = discs      # blank copies are excused next to another finding only while open
        # MOVE out of a folder and back: the source's uidlist kept the record, the
        # file name is the same, so the old UID is alive again next to the new one
        moved_in = dict(ex.moved_in)
        if last['cmd'] == 'move' and last['pairs']:
            moved_in[last['dest']] = True
        if all(d[0] == 'uids' and not d[2]['missing'] and d[2]['extra']
               and moved_in[d[2]['box']]
               and set(d[2]['extra']) <= ex.moved_out[d[2]['box']] for d in rest):
            return 'MaildirMoveBackDuplicate'
    return None


CONTINUABLE = {'MaildirCopyLosesContent'}
_OPEN = None


def _open() -> set:
    global _OPEN
    if _OPEN is None:
        from ..common import Known
        _OPEN = set(Known('C10').open)
    return _OPEN


def excusable(ex: Exec, prev: dict, st: dict, discs: list) -> str | None:
    """signature of an OPEN known finding after which the execution can go on
    (the affected messages' content is no longer compared)"""
    sig = signature(ex, prev, st, discs)
    if sig in CONTINUABLE and sig in _open():
        return sig
    return None


def taint(ex: Exec, discs: list) -> None:
    for d in discs:
        ex.tainted.add((d[2]['box'], d[2]['uid']))


def make_report(ex: Exec, labels: list, cmds: list, prev: dict, cands: list,
                results: list, phase: str) -> dict:
    """results[i] = discrepancies against cands[i] (none of them empty)."""
    # closest candidate: same tagged class first, then fewest discrepancies
    order = sorted(range(len(cands)),
                   key=lambda i: (any(d[0] == 'cond' for d in results[i]), len(results[i])))
    st, discs = cands[order[0]], results[order[0]]
    sig = signature(ex, prev, st, discs, labels[-1])
    latitude = False
    if sig is None and phase == 'sim' and st['last']['choice']:
        # The simulated sub-model resolved a latitude point at this step one way; the
        # server may take the other RFC-permitted way.  (Only a server that does not
        # resolve the point the same way every time gets here: the sub-model enables
        # exactly the resolutions the exhaustive part saw, per command kind.)
        obs, odiscs = ex.last_obs, ex.last_obs_discs
        if st['last']['cond'] == 'OK':
            # model went on, server refused: fine if nothing changed
            if odiscs and all(d[0] == 'cond' for d in odiscs) and obs.cond in ('NO', 'BAD') \
                    and not obs.events:
                dd = ex.compare_dumps(prev, ex.dump(prev['sel']))
                latitude = not dd or excusable(ex, prev, prev, dd) is not None
        elif obs.cond == 'OK':
            # model refused, server went on: the lenient successor is not in this
            # behaviour, so the step cannot be judged here - recorded, not a verdict
            latitude = True
    what = (f'[{ex.bname}] step {len(labels)} {labels[-1]} = {cmds[-1][:100]!r}: '
            + '; '.join(d[1] for d in discs[:4]))
    replay = {'check': 'C10', 'backend': ex.bname, 'phase': phase, 'init': ex.init,
              'labels': labels, 'commands': cmds, 'metas': ex.metas, 'prev': prev,
              'cands': cands, 'discrepancies': [list(d[:2]) for d in discs],
              'transcript': ex.log[-10:]}
    return {'what': what, 'replay': replay, 'sig': sig, 'latitude': latitude}


# --------------------------------------------------------------------------
# workers (forked: they inherit the graph / the behaviours through _G)

_G: dict = {}


def _graph_task(task) -> dict:
    """one execution: a verified prefix (label, successor) ..., then ONE new
    (state, command) pair compared in full against every successor TLC allows"""
    bname, init, prefix, label, seedkey, verify = task
    graph, nodes = _G['graph'], _G['nodes']
    ex = Exec(bname, nodes[init], random.Random(seedkey))
    ex.metas = []
    res = {'src': None, 'label': label, 'dst': None, 'choice': [], 'reports': [],
           'steps': 0, 'full': 0, 'labels': [], 'nontrivial': False, 'cmds': []}
    labels, cmds = res['labels'], res['cmds']
    try:
        d0 = ex.setup(verify=verify)
        if d0:
            res['reports'].append(make_report(ex, ['Init'], ['(set-up)'], nodes[init],
                                              [nodes[init]], [d0], 'graph'))
            return res
        cur = init
        for plabel, pdst in prefix:
            prev = nodes[cur]
            line, meta, obs = ex.step(plabel, prev)
            ex.metas.append(meta)
            labels.append(plabel)
            cmds.append(line.decode('latin-1'))
            res['steps'] += 1
            discs = ex.compare_obs(prev, nodes[pdst], meta, obs)
            if discs:
                # verified in full by an earlier execution, different now: compare in
                # full again so that the report says what differs
                discs += ex.compare_dumps(nodes[pdst], ex.dump(nodes[pdst]['sel']))
                res['reports'].append(make_report(ex, labels[:], cmds[:], prev, [nodes[pdst]],
                                                  [discs], 'graph'))
                res['unstable'] = True
                return res
            ex.accepted(prev, nodes[pdst])
            res['nontrivial'] = res['nontrivial'] or bool(nodes[pdst]['last']['addr']
                                                          or nodes[pdst]['last']['pairs'])
            cur = pdst
        res['src'] = cur
        prev = nodes[cur]
        cand_ids = [d for l, d in graph.edges[cur] if l == label]
        line, meta, obs = ex.step(label, prev)
        ex.metas.append(meta)
        labels.append(label)
        cmds.append(line.decode('latin-1'))
        res['steps'] += 1
        dumps = ex.dump(nodes[cand_ids[0]]['sel'])
        res['full'] += 1
        results = [ex.compare_obs(prev, nodes[c], meta, obs) + ex.compare_dumps(nodes[c], dumps)
                   for c in cand_ids]
        good = [c for c, r in zip(cand_ids, results) if not r]
        if not good:
            exc = [(c, r) for c, r in zip(cand_ids, results) if excusable(ex, prev, nodes[c], r)]
            if exc:
                # an open known finding explains everything: report it, go on without
                # comparing the affected content
                res['reports'].append(make_report(ex, labels[:], cmds[:], prev,
                                                  [nodes[exc[0][0]]], [exc[0][1]], 'graph'))
                good = [exc[0][0]]
        if not good:
            res['reports'].append(make_report(ex, labels[:], cmds[:], prev,
                                              [nodes[c] for c in cand_ids], results, 'graph'))
            return res
        res['dst'] = good[0]
        res['choice'] = nodes[good[0]]['last']['choice']
        res['cmd'] = nodes[good[0]]['last']['cmd']
        res['nontrivial'] = res['nontrivial'] or bool(nodes[good[0]]['last']['addr']
                                                      or nodes[good[0]]['last']['pairs'])
        return res
    except Exception as exc:      # harness trouble inside a worker: machinery, not a verdict
        import traceback
        res['error'] = f'{type(exc).__name__}: {exc}\n' + traceback.format_exc()[-1500:]
        return res
    finally:
        res['other'], res['after_ostore'] = ex.n_other, ex.n_after_ostore
        ex.close()


def _sim_task(task) -> dict:
    bname, bi, seedkey, end_only = task
    steps = _G['behaviours'][bi]
    res = _run_behaviour(bname, steps, seedkey, end_only)
    if end_only and any(r['sig'] is None and not r['latitude'] for r in res['reports']):
        # found without intermediate dumps: run it again with a dump after every step, so
        # that the failure is attributed to the step that causes it (and to the known
        # finding that explains it, if any).  If nothing shows up then, the original
        # report stands: it is only visible when nobody looks in between.
        again = _run_behaviour(bname, steps, seedkey, False)
        again['steps'] += res['steps']
        again['full'] += res['full']
        again['other'] += res['other']
        again['after_ostore'] += res['after_ostore']
        if again['reports']:
            return again
        res['only_without_intermediate_dumps'] = True
    return res


def _run_behaviour(bname: str, steps: list, seedkey: str, end_only: bool) -> dict:
    init = steps[0][1]
    ex = Exec(bname, init, random.Random(seedkey))
    ex.metas = []
    res = {'reports': [], 'steps': 0, 'full': 0, 'labels': [], 'cmds': [],
           'nontrivial': False, 'completed': False}
    labels, cmds = res['labels'], res['cmds']
    try:
        d0 = ex.setup(verify=True)
        if d0:
            res['reports'].append(make_report(ex, ['Init'], ['(set-up)'], init, [init], [d0], 'sim'))
            return res
        prev = init
        for k, (label, st) in enumerate(steps[1:], 1):
            line, meta, obs = ex.step(label, prev)
            ex.metas.append(meta)
            labels.append(label)
            cmds.append(line.decode('latin-1'))
            res['steps'] += 1
            discs = ex.compare_obs(prev, st, meta, obs)
            ex.last_obs, ex.last_obs_discs = obs, list(discs)
            if not end_only or k == len(steps) - 1 or discs:
                ex.pre_taint(prev, st)
                # after the other session's STORE the acting session is not asked for its
                # dump (that would bring it up to date): its next command of the behaviour
                # is the first thing it does after the change.  The probe looks.
                own = meta['kind'] != 'ostore' or k == len(steps) - 1 or bool(discs)
                discs = discs + ex.compare_dumps(st, ex.dump(st['sel'], own=own))
                res['full'] += 1
            if discs:
                sig = excusable(ex, prev, st, discs)
                if sig not in ex.excused:
                    res['reports'].append(make_report(ex, labels[:], cmds[:], prev, [st],
                                                      [discs], 'sim'))
                if sig is None:
                    return res
                ex.excused.add(sig)
                taint(ex, discs)
            ex.accepted(prev, st)
            res['nontrivial'] = res['nontrivial'] or bool(st['last']['addr'] or st['last']['pairs'])
            prev = st
        res['completed'] = True
        return res
    except Exception as exc:
        import traceback
        res['error'] = f'{type(exc).__name__}: {exc}\n' + traceback.format_exc()[-1500:]
        return res
    finally:
        res['other'], res['after_ostore'] = ex.n_other, ex.n_after_ostore
        ex.close()


# --------------------------------------------------------------------------
# driving


class Driver:

    def __init__(self, run: Run, tier: str):
        self.run = run
        self.tier = tier
        self.rng = random.Random(run.seed * 7919 + 10)
        self.tmp = tempfile.mkdtemp(prefix='verif.c10.')
        self.stats: dict = {}
        self.policy: dict = {}      # backend -> set of latitude resolutions exhibited
        self.maxcmds = 3
        try:
            self.workers = max(1, int(os.environ.get('VERIF_C10_WORKERS', '8')))
        except ValueError:
            self.workers = 8

    def cleanup(self) -> None:
        shutil.rmtree(self.tmp, ignore_errors=True)

    def write_cfg(self, name: str, **kw) -> str:
        path = os.path.join(self.tmp, name)
        with open(path, 'w') as f:
            f.write(cfg_text(**kw))
        return path

    def st(self, bname: str) -> dict:
        return self.stats.setdefault(bname, {
            'executions': 0, 'steps': 0, 'full_compares': 0, 'known': 0,
            'latitude_stops': 0, 'pairs_covered': 0, 'other_session_steps': 0,
            'own_commands_directly_after_other_store': 0})

    def _map(self, fn, tasks: list, budget_s: float, t0: float):
        """run tasks in forked workers, in order, in batches; stop at the budget.
        Yields (task, result)."""
        import multiprocessing as mp
        _world_cls()                   # import pymap before forking
        if self.workers == 1 or len(tasks) < 4:
            for t in tasks:
                if time.time() - t0 > budget_s:
                    return
                yield t, fn(t)
            return
        ctx = mp.get_context('fork')
        batch = self.workers * 12
        with ctx.Pool(self.workers) as pool:
            for i in range(0, len(tasks), batch):
                if time.time() - t0 > budget_s:
                    return
                chunk = tasks[i:i + batch]
                for t, r in zip(chunk, pool.map(fn, chunk, chunksize=3)):
                    yield t, r

    def _absorb(self, bname: str, r: dict) -> bool:
        """account one execution; -> True if it raised an unexcused violation"""
        stats = self.st(bname)
        stats['executions'] += 1
        stats['steps'] += r['steps']
        stats['full_compares'] += r['full']
        stats['other_session_steps'] += r.get('other', 0)
        stats['own_commands_directly_after_other_store'] += r.get('after_ostore', 0)
        if r.get('error'):
            self.run.machinery(f'[{bname}] worker: {r["error"]}')
            return False
        bad = False
        for rep in r['reports']:
            if rep['latitude']:
                stats['latitude_stops'] += 1
                self.run.drift.append({'latitude': rep['what']})
            elif self.run.violation(rep['what'], rep['replay'], rep['sig']):
                bad = True
            else:
                stats['known'] += 1
        self.run.count_exec((bname, tuple(r['labels'])), nontrivial=r['nontrivial'])
        return bad

    # -- exhaustive part ---------------------------------------------------------

    def graph_phase(self, bname: str, graph, nodes: dict, limit_pairs: int | None,
                    budget_s: float) -> None:
        """Every (state, command) pair reachable through the server's own choices,
        each from a fresh server, level by level.  limit_pairs: only a seeded
        sample of the pairs of the last level (earlier levels are always complete)."""
        stats = self.st(bname)
        t0 = time.time()
        _G['graph'], _G['nodes'] = graph, nodes
        chosen: dict = {}        # (node, label) -> successor the server chose
        route: dict = {}         # node -> (init, [(label, dst), ...])
        obs_choices = self.policy.setdefault(bname, set())
        labels_of = {n: sorted({l for l, _ in graph.edges.get(n, [])}) for n in graph.nodes}
        level = list(graph.inits)
        for n in level:
            route[n] = (n, [])
        depth = 0
        reachable = 0
        while level:
            pairs = [(n, l) for n in level for l in labels_of[n]]
            reachable += len(pairs)
            if limit_pairs is not None and depth == self.maxcmds - 1 and len(pairs) > limit_pairs:
                # seeded sample of the last level; a few pairs of every (latitude point,
                # command kind) first, so that the backend's resolutions get measured
                by_key: dict = {}
                for n, l in pairs:
                    for d in (d for l2, d in graph.edges[n] if l2 == l):
                        for c in nodes[d]['last']['choice']:
                            by_key.setdefault((c[0], nodes[d]['last']['cmd']), []).append((n, l))
                picked: dict = {}
                for key in sorted(by_key):
                    for pr in self.rng.sample(by_key[key], min(4, len(by_key[key]))):
                        picked[pr] = True
                rest = [pr for pr in pairs if pr not in picked]
                extra = self.rng.sample(rest, max(0, min(len(rest), limit_pairs - len(picked))))
                chosen_pairs = set(picked) | set(extra)
                pairs = [pr for pr in pairs if pr in chosen_pairs]
                stats['last_level_sampled'] = len(pairs)
            tasks = []
            for k, (n, l) in enumerate(pairs):
                init, pre = route[n]
                tasks.append((bname, init, pre, l, f'{self.run.seed}/{bname}/{depth}/{k}',
                              k < 2 or k % 40 == 0))
            nxt = []
            n_done = 0
            for (t, r), (n, l) in zip(self._map(_graph_task, tasks, budget_s, t0), pairs):
                n_done += 1
                self._absorb(bname, r)
                if r.get('dst') is not None:
                    dst = r['dst']
                    chosen[(n, l)] = dst
                    obs_choices.update((c[0], r['cmd'], c[1]) for c in r['choice'])
                    if dst not in route:
                        route[dst] = (route[n][0], route[n][1] + [(l, dst)])
                        nxt.append(dst)
            if n_done < len(tasks):
                stats['budget_exhausted'] = True
                break
            level = [d for d in nxt if labels_of[d]]
            depth += 1
        stats['pairs_covered'] = len(chosen)
        stats['graph_pairs_reachable'] = reachable
        stats['graph_pairs_total'] = sum(len(v) for v in labels_of.values())
        stats['graph_wall_s'] = round(time.time() - t0, 1)
        _G.pop('graph', None)
        _G.pop('nodes', None)

    # -- random part -------------------------------------------------------------

    def sim_phase(self, bname: str, behaviours: list, budget_s: float) -> None:
        stats = self.st(bname)
        t0 = time.time()
        _G['behaviours'] = behaviours
        # one behaviour in five: responses compared at every step, dumps only at the
        # end (no probe traffic and no extra FETCH by the session in between)
        tasks = [(bname, bi, f'{self.run.seed}/{bname}/sim/{bi}', bi % 5 == 4)
                 for bi in range(len(behaviours))]
        n = done = 0
        for t, r in self._map(_sim_task, tasks, budget_s, t0):
            n += 1
            self._absorb(bname, r)
            done += bool(r.get('completed'))
            if n <= 2:
                self.run.sample({'backend': bname, 'commands': [c[:80] for c in r['cmds']]})
        if n < len(tasks):
            stats['sim_budget_exhausted'] = True
        stats['sim_behaviours'] = n
        stats['sim_completed'] = done
        stats['sim_wall_s'] = round(time.time() - t0, 1)
        _G.pop('behaviours', None)


# --------------------------------------------------------------------------


def _graph(drv: Driver, profile: str, kw: bool, maxcmds: int):
    cfg = drv.write_cfg(f'g_{profile}_{int(kw)}.cfg', kw=kw, inits=['std'], maxcmds=maxcmds,
                        maxuid=9, profile=profile, twolevel=False, props=True)
    graph, res = tlc.dump_graph(SPEC, cfg, workers=8)
    name = f'RefMailbox graph profile={profile} kw={kw} maxcmds={maxcmds}'
    nodes = {n: norm(s) for n, s in graph.nodes.items()} if res.ok else {}
    return graph, nodes, res, name


def _sim_consts(policy) -> tuple:
    """the latitude constants of the sub-model a backend exhibited in the exhaustive
    part: (OorLenient, OorStrict, RecLenient, RecStrict, AppendKw)"""
    def cmds(point, all_cmds, res):
        # a (point, command) pair the exhaustive part never resolved keeps both resolutions
        return tuple(c for c in all_cmds
                     if (point, c, res) in policy
                     or not any(p_ == point and c_ == c for p_, c_, _ in policy))
    return (cmds('oor', OOR_CMDS, 'lenient'), cmds('oor', OOR_CMDS, 'strict'),
            cmds('rec', REC_CMDS, 'lenient'), cmds('rec', REC_CMDS, 'strict'),
            tuple(sorted({r for p_, _, r in policy if p_ == 'kw'} or {'keep', 'drop'})))


def _simulate(drv: Driver, kw: bool, consts: tuple, num: int, depth_cmds: int, seed: int):
    """-> (behaviours, TLCResult, name).  The latitude constants are set to what the
    backend exhibited in the exhaustive part (a sub-model of the full model)."""
    ol, os_, rl, rs, akw = (list(x) for x in consts)
    tag = hashlib.sha1(repr((ol, os_, rl, rs, akw)).encode()).hexdigest()[:8]
    cfg = drv.write_cfg(f's_{int(kw)}_{tag}_{num}.cfg', kw=kw, oor_lenient=ol, oor_strict=os_,
                        rec_lenient=rl, rec_strict=rs, appendkw=akw, inits=['std', 'empty'],
                        maxcmds=depth_cmds, maxuid=12, profile='full', twolevel=True, props=True)
    behs, res = tlc.simulate(SPEC, cfg, num=num, depth=2 * depth_cmds + 1, seed=seed,
                             timeout=1500)
    name = (f'RefMailbox -simulate kw={kw} num={num} OorLenient={ol} OorStrict={os_} '
            f'RecLenient={rl} RecStrict={rs} AppendKw={akw}')
    return ([[(l, norm(s)) for l, s in beh if not l.startswith('Pick')] for beh in behs],
            res, name)


def main(tier: str) -> int:
    run = Run('C10', tier)
    drv = Driver(run, tier)
    run.cov['rule'] = (
        'executions = programs taken from TLC (state graph of all programs of length <= 3 '
        'over the reduced menu, every (state, command) pair once; -simulate behaviours of '
        '<= 12 commands over the full menu; commands of the acting session and complete '
        'commands of a second session on the same mailboxes) replayed on a fresh real server with the tagged '
        'result, the command\'s own untagged data and full dumps of both mailboxes compared '
        'with the TLC-computed state after every step; non-trivial = a program in which at '
        'least one command addressed a message or created one; distinct = distinct '
        '(backend, program) pairs')
    run.assumptions += [
        'one acting session, COMPLETE commands of a second session of the same user between '
        'its commands, and a read-only probe connection; no overlapping commands (C01/C02/C14)',
        'the window in which the acting session has not been told about messages another '
        'session added to / expunged from its selected mailbox is not entered (RFC 2180 '
        'latitude): such an action includes a NOOP of the acting session, which must report it',
        'maildir scratch stores live on tmpfs (/dev/shm) when available: durability is C15',
        'maildir content is compared modulo CRLF/LF (C03 owns the rewrite on APPEND)',
        '\\Recent is ignored in every comparison (C17)',
        'dates are whole seconds; an APPEND without date-time must land within a day of now '
        'and keep that instant through COPY/MOVE']
    quick = tier == 'quick'
    try:
        t_all = time.time()
        # 1: TLC - the two state graphs (keyword not permitted / permitted) and the
        # sanity run of the FULL menu (every single command from both initial states),
        # all with every property of the model; side by side, joined before any fork
        from concurrent.futures import ThreadPoolExecutor
        prof = 'q' if quick else 't'
        if quick:
            splan = [('dict', False, 300, 12), ('maildir++', False, 100, 6),
                     ('maildirfs', False, 50, 4), ('maildir++kw', True, 100, 6)]
        else:
            splan = [('dict', False, 6000, 120), ('maildir++', False, 2500, 100),
                     ('maildirfs', False, 800, 50), ('maildir++kw', True, 2500, 100),
                     ('maildirfskw', True, 500, 30)]
        only = [b for b in os.environ.get('VERIF_C10_BACKENDS', '').split(',') if b]
        if only:        # debugging aid: restrict the backends
            splan = [p for p in splan if p[0] in only]
        with ThreadPoolExecutor(max_workers=3) as tp:
            f0 = tp.submit(_graph, drv, prof, False, 3)
            f1 = tp.submit(_graph, drv, prof, True, 3)
            fs = tp.submit(tlc.run_tlc, SPEC, drv.write_cfg(
                'full1.cfg', kw=False, inits=['std', 'empty'], maxcmds=1, maxuid=12, profile='full', twolevel=False,
                props=True), workers=4)
            (g0, n0, r0, nm0), (g1, n1, r1, nm1), sres = f0.result(), f1.result(), fs.result()
        for res, name in ((r0, nm0), (r1, nm1),
                          (sres, 'RefMailbox full menu, 1 command, all properties')):
            run.add_model(res, name)
            if not res.ok:
                raise tlc.TLCError(f'{name}: model check failed: {res.violated or res.error}')
        run.notes['graph'] = {'profile': prof,
                              'kw_not_permitted': {'nodes': len(g0.nodes), 'edges': g0.n_edges},
                              'kw_permitted': {'nodes': len(g1.nodes), 'edges': g1.n_edges}}
        if quick:
            plan = [('dict', g0, n0, None, 30), ('maildir++', g0, n0, 600, 10),
                    ('maildirfs', g0, n0, 200, 5), ('maildir++kw', g1, n1, 400, 8)]
        else:
            plan = [('dict', g0, n0, None, 240), ('maildir++', g0, n0, None, 300),
                    ('maildirfs', g0, n0, 4000, 80), ('maildir++kw', g1, n1, 12000, 200),
                    ('maildirfskw', g1, n1, 2000, 50)]
        if only:
            plan = [p for p in plan if p[0] in only]
        for bname, g, nodes, limit, budget in plan:
            drv.graph_phase(bname, g, nodes, limit, budget)
        run.notes['graph_wall_s'] = round(time.time() - t_all, 1)
        # 3: random part, one TLC simulation per (KwPermitted, exhibited policy)
        # one TLC simulation per (KwPermitted, exhibited sub-model), run side by side
        need: dict = {}
        for bname, kw, num, budget in splan:
            key = (kw, _sim_consts(drv.policy.get(bname, set())))
            need[key] = max(need.get(key, 0), num)
        with ThreadPoolExecutor(max_workers=4) as tp:
            futs = {key: tp.submit(_simulate, drv, key[0], key[1], num, 12, run.seed + 1)
                    for key, num in need.items()}
            sims = {}
            for key, fut in futs.items():
                behs, res, name = fut.result()
                run.add_model(res, name)
                if not res.ok or not behs:
                    raise tlc.TLCError(f'{name} failed: '
                                       f'{res.violated or res.error or res.output[-500:]}')
                sims[key] = behs
        for bname, kw, num, budget in splan:
            key = (kw, _sim_consts(drv.policy.get(bname, set())))
            drv.sim_phase(bname, sims[key][:num], budget)
        run.notes['per_backend'] = drv.stats
        run.notes['workers'] = drv.workers
        run.notes['latitude_resolutions_exhibited'] = {
            b: sorted('%s:%s:%s' % c for c in p) for b, p in drv.policy.items()}
        run.cov['exhaustive'] = not quick and not any(
            s.get('budget_exhausted') for s in drv.stats.values())
        run.notes['exhaustive_scope'] = (
            f'RefMailbox.tla menu "{prof}": every program of <= 3 commands (of the acting '
            'session, and of the other session except as the last one) from the standard '
            'initial state (INBOX uids 1 2 4 with \\Deleted on 2, Box uid 1); on dict every '
            '(state, command) pair the server\'s choices reach; on maildir '
            + ('a seeded sample of the last level' if quick else 'the same (fs layout: sampled)'))
    except tlc.TLCError as exc:
        run.machinery(str(exc))
    finally:
        drv.cleanup()
    return run.finish()


def replay(path: str) -> int:
    """re-run the commands of a replay file on a fresh server of the same backend and
    compare the last step with the successor states TLC allowed.  Exit 1 = reproduced."""
    data = json.load(open(path))
    rep = data.get('replay', data)
    init = unjson(rep['init'])
    init['nextcid'] = rep['init'].get('nextcid', 6)
    ex = Exec(rep['backend'], init, random.Random(0))
    try:
        d0 = ex.setup(verify=True)
        print(f'backend {rep["backend"]}; initial state '
              + ('as the model says' if not d0 else 'DIFFERS: ' + '; '.join(d[1] for d in d0)))
        if rep['labels'] == ['Init']:
            print('REPRODUCED' if d0 else 'NOT REPRODUCED')
            return 1 if d0 else 0
        obs = None
        for label, cmd, meta in zip(rep['labels'], rep['commands'], rep['metas']):
            n0 = len(ex.log)
            if cmd.startswith(OTHER_TAG):
                obs = ex.other(cmd[len(OTHER_TAG):].encode('latin-1'), meta)
            else:
                obs = ex.own(cmd.encode('latin-1'))
            for c, out in ex.log[n0:]:
                print(f'C: {c[:110]!r}' + (f'   ({label})' if c[:100] == cmd[:100] else ''))
                for ln in out.splitlines()[:14]:
                    print('   S: ' + ln[:150])
        prev = unjson(rep['prev'])
        cands = [unjson(c) for c in rep['cands']]
        meta = rep['metas'][-1]
        dumps = ex.dump(cands[0]['sel'])
        results = [ex.compare_obs(prev, c, meta, obs) + ex.compare_dumps(c, dumps) for c in cands]
        for b in BOXES:
            print(f'{b} now: ' + ', '.join(
                f'uid {m["uid"] + ex.off} {m["f"]} {len(m["body"])} octets' for m in dumps[b][0]))
        if all(results):
            best = min(results, key=len)
            print('discrepancies against the closest state the model allows:')
            for d in best:
                print('  - ' + d[1])
            print('REPRODUCED')
            return 1
        print('NOT REPRODUCED (the server now agrees with the model)')
        return 0
    finally:
        ex.close()
