"""C03 - message bytes are stored and returned verbatim.

1. TLC checks spec/WireMime.tla (byte classes) and spec/WireMimeLines.tla
   (line tokens, nested MIME): the transcription of _find_lines/_split_lines/
   get_raw/_find_parts/_get_body_structure with the laws of C03 as invariants.
   Ideal configuration (the described repairs applied): the laws hold for
   every bounded string.  As-is configuration: the laws fail exactly under the
   named deviations (known/C03.json ids).
2. Every enumerated abstract string is taken out of TLC (state dump) with the
   model's prediction (spans of BODY[] / HEADER / TEXT, the part tree, the
   announced sizes, the deviations that apply), concretised (>= 2 concrete
   representatives per abstract string, chosen with VERIF_SEED) and pushed
   through the real code:
     direct  - MessageContent.parse + BaseLoadedMessage (the functions FETCH
               calls), every state;
     e2e     - the real server, dict and maildir: APPEND, FETCH (RFC822.SIZE
               BODY.PEEK[] RFC822 BODY.PEEK[HEADER] BODY.PEEK[TEXT]
               BODYSTRUCTURE), BODY.PEEK[]<o.n> for every o, n <= len+1,
               BODY.PEEK[p] / [p.MIME] for every part announced, the same on
               the copies made by COPY and MOVE.
   The reference is the law (identity, slice, len): a difference is the
   VIOLATION unless the model names a deviation for exactly this input and
   the server returned exactly what the as-is model predicts (known finding).
   A difference from the model's prediction alone is drift.
3. Encapsulated messages (message/rfc822 entities) are not in the TLA+ model.
   Directed MIME trees (ENCAPS_SHAPES) and seeded random trees with
   message/rfc822 parts go through the same direct / dict / maildir pipeline
   and are judged by the laws alone: the BODYSTRUCTURE reader descends into
   the body structure of the embedded message with the numbering of RFC 3501
   6.4.5 (the parts of a multipart embedded message are P.1, P.2, ...; a
   non-multipart embedded message is P.1) and the part-size clause is applied
   to every part announced there.  No model prediction exists for these
   parts: the open finding BodystructureSizeIncludesHeader is attributed by
   its signature alone (announced = len(BODY[p.MIME]) + len(BODY[p]) and the
   two are one contiguous stretch of the stored message).
"""

from __future__ import annotations

import io
import os
import random
import zlib

from ..common import Run
from .. import tlc
from .. import respparse as rp
from ..server import World, REPO  # noqa: F401
from . import wire_common as wc

from pymap.mime import MessageContent  # noqa: E402

# --------------------------------------------------------------------------
# concretisation

BYTE_REPS = {
    'CR': [b'\r'], 'LF': [b'\n'],
    'WS': [b' ', b'\t', b'\x0b', b'\x0c'],
    'COLON': [b':'],
    'CH': [bytes([c]) for c in b'aZ09-_.@"\\(;=/~'],
    'HI': [b'\x80', b'\xff', b'\xc3', b'\xa9'],
    'NUL': [b'\x00'],
}
_BYTE_CLASS = {}
for _k, _v in BYTE_REPS.items():
    for _x in _v:
        _BYTE_CLASS[_x[0]] = _k


def conc_bytes(classes, rng: random.Random | None) -> bytes:
    if rng is None:
        return b''.join(BYTE_REPS[c][0] for c in classes)
    return b''.join(rng.choice(BYTE_REPS[c]) for c in classes)


def abs_bytes(data: bytes):
    """bytes -> class tuple (None when a byte is outside the representatives'
    classes - every byte has a class, so never None)"""
    out = []
    for x in data:
        c = _BYTE_CLASS.get(x)
        if c is None:
            if x >= 0x80:
                c = 'HI'
            elif x in b' \t\x0b\x0c':
                c = 'WS'
            elif x == 0:
                c = 'NUL'
            elif x == 0x3a:
                c = 'COLON'
            elif x == 0x0d:
                c = 'CR'
            elif x == 0x0a:
                c = 'LF'
            else:
                c = 'CH'
        out.append(c)
    return tuple(out)


B1, B2 = b'bnd1x', b'bnd2y'
LINE_REPS = {
    'CT1': [b'Content-Type: multipart/mixed; boundary=' + B1,
            b'content-type: multipart/alternative; boundary="' + B1 + b'"'],
    'CT2': [b'Content-Type: multipart/mixed; boundary=' + B2,
            b'CONTENT-TYPE: multipart/related;boundary=' + B2],
    'HDR': [b'Subject: hello', b'X-Any:\x80\xff v', b'From: a@b.c'],
    'FOLD': [b' folded=1', b'\t; x=y'],
    'BLANK': [b''],
    'WSL': [b' ', b'\t ', b'\x0c'],
    'TEXT': [b'text line', b'--' + B1 + b' not a boundary', b'xy'],
    'BD1': [b'--' + B1], 'END1': [b'--' + B1 + b'--'],
    'BD2': [b'--' + B2], 'END2': [b'--' + B2 + b'--'],
}
CTM_LINE = b'Content-Type: message/rfc822'
_LINE_TOKEN = {CTM_LINE: 'HDR'}
for _k, _v in LINE_REPS.items():
    for _x in _v:
        _LINE_TOKEN[_x] = _k


def conc_lines(toks, nl: bool, rng: random.Random | None, eol: bytes | None = None,
               filler: int = 0) -> bytes:
    """EOL.join(lines) + (EOL if nl).  rng None: canonical representatives,
    CRLF.  filler > 0: TEXT lines are padded to that many bytes."""
    lines = []
    # a message that is not multipart may itself be a message/rfc822 entity (a bare
    # forward): one more representative of a header line, top-level laws only (judge)
    ctm = rng is not None and not ({'CT1', 'CT2'} & set(toks)) and rng.random() < 0.25
    for t in toks:
        ln = LINE_REPS[t][0] if rng is None else rng.choice(LINE_REPS[t])
        if ctm and t == 'HDR':
            ln, ctm = CTM_LINE, False
        if filler and t == 'TEXT':
            ln = ln + b' ' + bytes(rng.choice(b'abcXYZ\x80\xfe01 ') for _ in range(filler))
        lines.append(ln)
    if eol is None:
        eol = b'\r\n' if rng is None else rng.choice([b'\r\n', b'\n'])
    return eol.join(lines) + (eol if nl else b'')


def abs_lines(data: bytes):
    """bytes -> (toks, nl) when every line is one of the token
    representatives (either terminator), else None"""
    parts = data.split(b'\n')
    lines = [p[:-1] if p.endswith(b'\r') and i < len(parts) - 1 else p
             for i, p in enumerate(parts)]
    nl = False
    if len(lines) > 1 and lines[-1] == b'':
        nl = True
        lines = lines[:-1]
    toks = []
    for ln in lines:
        t = _LINE_TOKEN.get(ln)
        if t is None:
            return None
        toks.append(t)
    return tuple(toks), nl


_WS = b' \t\n\r\x0b\x0c'


def abs_lines_generic(data: bytes):
    """bytes -> (toks, nl) by the character tests the code applies to a line
    (empty / whitespace only / starts with whitespace / has a colon); used to
    have TLC evaluate the line model on long sampled messages.  Never yields
    a Content-Type or boundary token (the samples have none)."""
    parts = data.split(b'\n')
    nl = False
    if len(parts) > 1 and parts[-1] == b'':
        nl = True
        parts = parts[:-1]
        last_has_lf = True
    else:
        last_has_lf = False
    toks = []
    for i, pc in enumerate(parts):
        has_lf = i < len(parts) - 1 or last_has_lf
        if has_lf and pc.endswith(b'\r'):
            pc = pc[:-1]
        if not pc:
            toks.append('BLANK')
        elif all(x in _WS for x in pc):
            toks.append('WSL')
        elif pc[0] in _WS:
            toks.append('FOLD')
        elif b':' in pc:
            toks.append('HDR')
        else:
            toks.append('TEXT')
    return tuple(toks), nl


def line_offsets(data: bytes):
    """(starts, nexts) of the code's lines, computed from LF positions only
    (needed to turn the model's line spans into byte offsets)"""
    starts, nexts = [], []
    pos = 0
    while True:
        j = data.find(b'\n', pos)
        if j < 0:
            starts.append(pos)
            nexts.append(len(data))
            break
        starts.append(pos)
        nexts.append(j + 1)
        pos = j + 1
    return starts, nexts


def pyslice(n: int, a: int, b: int):
    bb = max(n + b, 0) if b < 0 else min(b, n)
    aa = min(a, n)
    return aa, max(aa, bb)


# --------------------------------------------------------------------------
# encapsulated messages: directed and random MIME trees (kind 'e'; not in the
# TLA+ model, judged by the laws only)
#
# tree:  ('t',)          a text entity
#        ('m', [tree..]) a multipart entity
#        ('r', tree)     a message/rfc822 entity whose body is the message `tree`

_T, _ALT2 = ('t',), ('m', [('t',), ('t',)])
ENCAPS_SHAPES = {
    # message/rfc822 part embedding a 2-alternative multipart
    'a:mixed>[rfc822>alt[t,t]]': ('m', [('r', _ALT2)]),
    # ... a single-part message
    'b:mixed>[rfc822>t]': ('m', [('r', _T)]),
    # ... a message/rfc822 that embeds a multipart
    'c:mixed>[rfc822>rfc822>alt[t,t]]': ('m', [('r', ('r', _ALT2))]),
    'd:mixed>[t,rfc822>mixed[t,alt[t,t]]]':
        ('m', [_T, ('r', ('m', [_T, _ALT2]))]),
    # the whole message is one encapsulated message
    'e:rfc822>alt[t,t]': ('r', _ALT2),
    'f:rfc822>t': ('r', _T),
    'g:rfc822>rfc822>alt[t,t]': ('r', ('r', _ALT2)),
    'h:mixed>[rfc822>t,rfc822>alt[t,t],t]': ('m', [('r', _T), ('r', _ALT2), _T]),
    'i:mixed>[rfc822>mixed[rfc822>alt[t,t],t]]':
        ('m', [('r', ('m', [('r', _ALT2), _T]))]),
    'j:mixed>[rfc822>mixed[t]]': ('m', [('r', ('m', [_T]))]),
}
# how the message ends: every closing boundary present and a final newline /
# no final newline / cut off after the last line of the innermost (last) part,
# that line without / with its newline
ENCAPS_TAILS = ('nl', 'no-nl', 'cut', 'cut-nl')
_CTM_REPS = [CTM_LINE, b'content-type: MESSAGE/RFC822', b'Content-Type: message/rfc822; x=y']
_MULTI_SUB = [b'mixed', b'alternative', b'related', b'digest']
_PART_HDR = [[b'Content-Type: text/plain'], [], [b'Subject: hello', b'From: a@b.c'],
             [b'X-Any:\x80\xff v', b'\t; x=y'], [b'Content-Type: text/html; charset=x']]
_PART_TXT = [[b'text line'], [b'xy', b'', b'z'], [b'alternative2', b' '],
             [b'--Xb1 not a boundary', b'text\x80\xfe line']]


def _tree_has_r(tree) -> bool:
    if tree[0] == 'r':
        return True
    return tree[0] == 'm' and any(_tree_has_r(k) for k in tree[1])


def rand_tree(rng: random.Random, depth: int = 0):
    r = rng.random()
    if depth >= 4 or r < 0.3:
        return _T
    if r < 0.65:
        return ('m', [rand_tree(rng, depth + 1) for _ in range(rng.randint(1, 3))])
    return ('r', rand_tree(rng, depth + 1))


def conc_tree(tree, tail: str, eol: bytes, rng: random.Random | None) -> bytes:
    """the message of the tree.  rng None: canonical representatives (no
    preamble / epilogue, minimal headers); boundaries are unique per multipart
    and are no token of the line model (the model has no prediction)."""
    ctr = [0, 0]
    closers = set()
    cut = tail.startswith('cut')

    def pick(seq):
        return seq[0] if rng is None else rng.choice(seq)

    def ent(t) -> list:
        if t[0] == 't':
            ctr[1] += 1    # canonical: the texts of sibling parts differ in length
            txt = _PART_TXT[(ctr[1] - 1) % len(_PART_TXT)] if rng is None else pick(_PART_TXT)
            return list(pick(_PART_HDR)) + [b''] + list(txt)
        if t[0] == 'r':
            hdr = [pick(_CTM_REPS)]
            if rng is not None and rng.random() < 0.3:
                hdr.insert(rng.randint(0, 1), b'Content-Description: fwd')
            return hdr + [b''] + ent(t[1])
        ctr[0] += 1
        bnd = b'Xb%d' % ctr[0]
        q = b'"' if rng is not None and rng.random() < 0.3 else b''
        out = [b'Content-Type: multipart/' + pick(_MULTI_SUB) + b'; boundary=' + q + bnd + q]
        if rng is not None and rng.random() < 0.3:
            out.append(b'Subject: hello')
        out.append(b'')
        if rng is not None and rng.random() < 0.25:
            out.append(b'preamble')
        for kid in t[1]:
            out.append(b'--' + bnd)
            out += ent(kid)
        out.append(b'--' + bnd + b'--')
        closers.add(out[-1])
        if rng is not None and not cut and rng.random() < 0.25:
            out.append(b'epilogue')
        return out

    lines = ent(tree)
    if cut:
        while lines and lines[-1] in closers:
            lines.pop()
    return eol.join(lines) + (eol if tail.endswith('nl') and tail != 'no-nl' else b'')


def encaps_items(seed: int, rng: random.Random, n_random: int) -> list:
    """[(key, data)] - the directed shapes in every tail / line terminator
    (canonical and one seeded representative) and n_random random trees that
    contain a message/rfc822 entity"""
    out = []
    for name, tree in ENCAPS_SHAPES.items():
        for tail in ENCAPS_TAILS:
            for en, eol in (('crlf', b'\r\n'), ('lf', b'\n')):
                out.append((('encaps', name, tail, en, 0), conc_tree(tree, tail, eol, None)))
                r = random.Random(zlib.crc32(repr((seed, name, tail, en)).encode()))
                out.append((('encaps', name, tail, en, 1), conc_tree(tree, tail, eol, r)))
    i = 0
    while i < n_random:
        tree = rand_tree(rng)
        if not _tree_has_r(tree):
            continue
        tail, (en, eol) = rng.choice(ENCAPS_TAILS), rng.choice((('crlf', b'\r\n'), ('lf', b'\n')))
        out.append((('encaps', 'random:' + repr(tree).replace(' ', ''), tail, en, i),
                    conc_tree(tree, tail, eol, rng)))
        i += 1
    return out


# --------------------------------------------------------------------------
# the model's prediction for one concrete message


class Pred:
    """raw/hdr/txt: byte spans; devs: top-level deviation names;
    leaves: [(imap_path, size, body_span, dv)]; shape: 'l' | ('m', [..])"""

    __slots__ = ['raw', 'hdr', 'txt', 'devs', 'leaves', 'shape']


def pred_from_byte_state(st: dict) -> Pred:
    p = Pred()
    v = st['pred']
    p.raw, p.hdr, p.txt = (v[0], v[1]), (v[2], v[3]), (v[4], v[5])
    p.devs = set(st['devs'])
    p.leaves = [((1,), v[6], p.txt, p.devs & {'BodystructureSizeIncludesHeader'})]
    p.shape = 'l'
    return p


def pred_from_line_state(st: dict, data: bytes) -> Pred:
    starts, nexts = line_offsets(data)
    n = len(data)

    def span(sp):
        a = 0 if sp[0] == 0 else starts[sp[0] - 1]
        b = -1 if sp[1] == -1 else (0 if sp[1] == 0 else nexts[sp[1] - 1])
        return pyslice(n, a, b)

    nodes = st['pred']
    p = Pred()
    top = nodes[0]
    p.raw, p.hdr, p.txt = span(top['raw']), span(top['hdr']), span(top['body'])
    p.devs = set(top['dv'])
    p.leaves = []
    by_path = {tuple(nd['path']): nd for nd in nodes}

    def shape(path):
        nd = by_path[path]
        if nd['ct'] == 'text':
            sz = span(nd['size'])
            p.leaves.append((path or (1,), sz[1] - sz[0], span(nd['body']),
                             set(nd['dv'])))
            return 'l'
        return ('m', [shape(path + (j,)) for j in range(1, nd['np'] + 1)])
    p.shape = shape(())
    return p


# --------------------------------------------------------------------------
# observations: what the real code returns


def _bs_tree(bs):
    """pymap BodyStructure object -> shape, leaves [(path, size)], encl
    {path: path of the message/rfc822 part it is announced below}, msgparts
    (paths of the message/rfc822 entities).  Numbering: RFC 3501 6.4.5 (see
    _bs_from_wire)."""
    leaves = []
    encl: dict = {}
    msgparts = set()

    def walk(node, path, below):
        parts = getattr(node, 'parts', None)
        if parts is not None:
            return ('m', [walk(c, path + (j,), below) for j, c in enumerate(parts, 1)])
        here = path or (1,)
        leaves.append((here, node.size))
        if below is not None:
            encl[here] = below
        sub = getattr(node, 'body_structure', None)
        if sub is not None:
            msgparts.add(here)
            if getattr(sub, 'parts', None) is not None:
                walk(sub, here, here)
            else:
                walk(sub, here + (1,), here)
        return 'l'
    return walk(bs, (), None), leaves, encl, msgparts


def observe_direct(data: bytes) -> dict:
    """the functions FETCH calls (fetch.py _get_data), without the server"""
    from pymap.message import BaseLoadedMessage
    from pymap.parsing.specials import FetchRequirement
    content = MessageContent.parse(data)
    lm = BaseLoadedMessage(None, FetchRequirement.CONTENT, content)
    obs = {'raw': bytes(lm.get_body(None)), 'size': lm.get_size(),
           'hdr': bytes(lm.get_message_headers(None)),
           'txt': bytes(lm.get_message_text(None))}
    shape, leaves, encl, msgparts = _bs_tree(lm.get_body_structure())
    obs['shape'] = shape
    obs['encl'], obs['msgparts'] = encl, msgparts
    obs['leaves'] = [(path, size, bytes(lm.get_body(path)),
                      bytes(lm.get_headers(path)))
                     for path, size in leaves]
    # the encapsulated message of every message/rfc822 part P: BODY[P], BODY[P.HEADER], BODY[P.TEXT]
    obs['msgs'] = [(path, bytes(lm.get_body(path)), bytes(lm.get_message_headers(path)),
                    bytes(lm.get_message_text(path))) for path in sorted(msgparts) if path]
    return obs


def _is_multi(node) -> bool:
    return isinstance(node, list) and bool(node) and isinstance(node[0], list)


def _bs_from_wire(v):
    """BODYSTRUCTURE value (wire_common reader) -> shape, leaves [(path, size)],
    weird (unreadable places), encl {path: message/rfc822 part it is announced
    below}, msgparts.  A message/rfc822 entity is a leaf with its own size (its
    shape stays 'l': the model has no such entity); the body structure of the
    message it embeds (body-type-msg: type subtype params id desc enc size
    envelope BODY lines) is read too, numbered as RFC 3501 6.4.5 says: the
    parts of an embedded multipart message are P.1, P.2, ..., the body of an
    embedded non-multipart message is P.1."""
    leaves = []
    weird = []
    encl: dict = {}
    msgparts = set()

    def walk(node, path, below):
        if _is_multi(node):
            kids = []      # the children are the leading lists
            for c in node:
                if isinstance(c, list):
                    kids.append(c)
                else:
                    break
            return ('m', [walk(c, path + (j,), below) for j, c in enumerate(kids, 1)])
        if isinstance(node, list) and len(node) >= 7 and isinstance(node[6], int) \
                and isinstance(node[0], tuple) and node[0][0] in ('q', 'l'):
            here = path or (1,)
            leaves.append((here, node[6]))
            if below is not None:
                encl[here] = below
            if node[0][1].lower() == b'message' and isinstance(node[1], tuple) \
                    and node[1][0] in ('q', 'l') and node[1][1].lower() == b'rfc822':
                if len(node) >= 10 and isinstance(node[7], list) \
                        and isinstance(node[8], list) and isinstance(node[9], int):
                    msgparts.add(here)
                    walk(node[8], here if _is_multi(node[8]) else here + (1,), here)
                else:
                    weird.append(here)
            return 'l'
        weird.append(path)
        return ('m', [])
    return walk(v, (), None), leaves, weird, encl, msgparts


# --------------------------------------------------------------------------
# the judge: laws of C03 against one observation


def stdlib_roundtrip(data: bytes, copies: int = 0) -> bytes:
    """what going through Python's email package does to the bytes: the
    literal is parsed (mailbox.MaildirMessage) and written to the file by the
    generator of mailbox.Maildir.add; FETCH re-generates the parsed file
    (Message.__bytes__).  A copy made from the parsed file goes through the
    file generator once more.  Used only to NAME the maildir rewriting, never
    as the reference."""
    import email.generator
    import mailbox
    x = data
    for _ in range(1 + copies):
        m = mailbox.MaildirMessage(x if x is data else io.BytesIO(x))
        buf = io.BytesIO()
        email.generator.BytesGenerator(buf, False, 0).flatten(m)
        x = buf.getvalue().replace(b'\n', os.linesep.encode())
    return bytes(mailbox.MaildirMessage(io.BytesIO(x)))


def judge(data: bytes, obs: dict, pred: Pred | None, backend: str, place: str):
    """-> (failures [(clause, signature|None, detail)], drift [..])
    pred is the model's prediction for the STORED string obs['raw'] when that
    differs from data and is known to the model, else for data."""
    fails, drift = [], []
    unjudged = False
    s = obs['raw']
    # the string the model's spans refer to: the appended one, or - when the
    # maildir store rewrote it (known findings) - the stored one
    base, p = data, pred
    if s != data:
        sig = None
        if backend == 'maildir' and s == data.replace(b'\r\n', b'\n'):
            sig = 'MaildirLineEndings'
        elif backend == 'maildir' and _safe(stdlib_roundtrip, data) == s:
            sig = 'MaildirEmailReflow'
        elif backend == 'maildir' and place == 'copy' \
                and _safe(stdlib_roundtrip, data, 1) == s:
            # a copy built from the parsed file is written by the generator again
            sig = 'MaildirEmailReflow'
        elif backend == 'maildir' and place == 'copy' and s == b'\n':
            # only when the rewriting of the store does not explain it
            sig = 'MaildirCopyLosesContent'
        elif pred is not None and 'WhitespaceOnlyTail' in pred.devs \
                and s == data[pred.raw[0]:pred.raw[1]]:
            sig = 'WhitespaceOnlyTail'
        fails.append(('stored', sig, {'got': s[:200], 'len_got': len(s)}))
        if backend == 'maildir':
            base, p = s, obs.get('pred_for_stored')
            if p is None and not obs.get('directed'):
                # the store rewrote the message into a string the model has no
                # prediction for: only the clauses that no known deviation of
                # the MIME index can break are judged against the stored bytes
                # (a directed MIME tree is never in the model and has none of
                # the triggers of those deviations - every entity has its blank
                # line and a body: all clauses are judged against the stored
                # bytes)
                unjudged = True
    if 'rfc822' in obs and obs['rfc822'] != s:
        fails.append(('rfc822-vs-body[]', None, {'rfc822': (obs['rfc822'] or b'')[:200]}))
    if obs['size'] != len(s):
        fails.append(('size', None, {'size': obs['size'], 'len': len(s)}))
    if obs['hdr'] + obs['txt'] != s and not unjudged:
        sig = None
        if p is not None and p.devs & {'WhitespaceOnlyTail', 'NoSeparatorHeader'} \
                and obs['hdr'] == base[p.hdr[0]:p.hdr[1]] \
                and obs['txt'] == base[p.txt[0]:p.txt[1]]:
            sig = 'WhitespaceOnlyTail' if 'WhitespaceOnlyTail' in p.devs \
                else 'NoSeparatorHeader'
        fails.append(('header+text', sig, {'hdr': obs['hdr'][:100], 'txt': obs['txt'][:100]}))
    for o, k, val in obs.get('partials', ()):
        if val != s[o:o + k]:
            fails.append(('partial', None, {'o': o, 'n': k, 'got': None if val is None else val[:100]}))
            break
    pl = {lf[0]: lf for lf in (p.leaves if p else ())}
    # message/rfc822 entities and the parts of the messages they embed are not
    # modelled (no drift comparison below); the part-size clause is judged for
    # them by the law alone
    encl = obs.get('encl') or {}
    msgparts = obs.get('msgparts') or ()
    encaps = bool(msgparts) or CTM_LINE.lower() in base.lower()
    for path, size, body, mime in obs['leaves']:
        if body is None:
            continue
        if size != len(body) and not (unjudged and not (
                mime and size == len(mime) + len(body))):
            sig = None
            clause = 'part-size'
            detail = {'part': path, 'announced': size, 'len_body': len(body)}
            m = pl.get(path)
            if path in encl:
                # announced below a message/rfc822 part: no model prediction.
                # The open finding is recognised by its signature: the count
                # is that of the part's own MIME header + body, and the two
                # are one contiguous stretch of the stored message
                if mime and size == len(mime) + len(body) and mime + body in s:
                    sig = 'BodystructureSizeIncludesHeader'
                else:
                    clause = 'part-size below message/rfc822'
                    detail.update({
                        'below_part': encl[path], 'got': body[:60],
                        'numbering': 'RFC 3501 6.4.5: the parts of the message embedded '
                        'in the message/rfc822 part P are P.1, P.2, ... when it is '
                        'multipart, its body is P.1 when it is not'})
            elif m is not None:
                if size == m[1] and body == base[m[2][0]:m[2][1]] and m[3]:
                    if 'PartEmptyGroupSlice' in m[3]:
                        sig = 'PartEmptyGroupSlice'
                    elif mime and size == len(mime) + len(body):
                        sig = 'BodystructureSizeIncludesHeader'
            elif p is None and mime and size == len(mime) + len(body):
                sig = 'BodystructureSizeIncludesHeader'
            if sig is None and path in msgparts:
                clause = 'part-size of message/rfc822' + (
                    ' (the whole message)' if obs.get('shape') == 'l' else '')
                detail.update({
                    'got': body[:60],
                    'numbering': 'RFC 3501 6.4.5: BODY[P] of a message/rfc822 part is its '
                    'body, the embedded message in full (header and body)'})
            fails.append((clause, sig, detail))
    # the law of the whole message, one level down: for a message/rfc822 part P the header and
    # the text of the message it encapsulates, put together, are that message
    for path, body, hdr, txt in obs.get('msgs') or ():
        if hdr + txt != body:
            fails.append(('header+text of the encapsulated message', None,
                          {'part': path, 'len_body': len(body), 'len_hdr': len(hdr),
                           'len_txt': len(txt), 'hdr': hdr[:60], 'txt': txt[:60]}))
            break
    # drift: the as-is model's prediction against the real result
    if p is not None:
        want = {'raw': base[p.raw[0]:p.raw[1]], 'hdr': base[p.hdr[0]:p.hdr[1]],
                'txt': base[p.txt[0]:p.txt[1]]}
        for k in ('raw', 'hdr', 'txt'):
            if obs[k] != want[k]:
                drift.append({'what': k, 'model': want[k][:80], 'real': obs[k][:80]})
        if encaps:
            pass
        elif obs.get('shape') is not None and obs['shape'] != p.shape:
            drift.append({'what': 'part tree', 'model': p.shape, 'real': obs['shape']})
        elif obs.get('shape') is not None:
            for path, size, body, _m in obs['leaves']:
                m = pl.get(path)
                if m is None:
                    continue
                if size != m[1] or (body is not None and body != base[m[2][0]:m[2][1]]):
                    drift.append({'what': 'part', 'part': path, 'model_size': m[1],
                                  'real_size': size})
    return fails, drift


def _safe(fn, *a):
    try:
        return fn(*a)
    except Exception:
        return None


# --------------------------------------------------------------------------
# end to end on the real server


class Refused(Exception):
    """APPEND did not accept the message: outside the property's antecedent"""


def _cmd(w: World, line: bytes, stats: dict | None = None) -> tuple[dict, list, bytes]:
    with wc.watchdog(20):
        raw = w.cmd('a', line)
    if stats is not None and b'\x00' not in raw:
        try:
            rp.parse_stream(raw)
        except rp.Malformed:
            stats['respparse_rejects'] = stats.get('respparse_rejects', 0) + 1
    items, rest = wc.fetch_items(raw)
    return items, rest, raw


def _append(w: World, data: bytes, mode: str) -> bytes:
    c = w.conns['a']
    n = len(data)
    with wc.watchdog(20):
        if mode == 'sync':
            c.tagno += 1
            tag = b'a%d' % c.tagno
            w.send('a', tag + b' APPEND INBOX {%d}\r\n' % n)
            first = c.take()
            if not first.startswith(b'+'):
                return first
            w.send('a', data + b'\r\n')
            w.run_to_completion('a')
            return c.take()
        pre = b'~' if mode == 'bin' else b''
        return w.cmd('a', b'APPEND INBOX ' + pre + b'{%d+}\r\n' % n + data)


def _fetch_basic(w: World, seq: int, stats: dict, with_rfc822: bool) -> dict:
    attrs = b'RFC822.SIZE BODY.PEEK[] BODY.PEEK[HEADER] BODY.PEEK[TEXT] BODYSTRUCTURE'
    if with_rfc822:
        attrs += b' RFC822'
    items, rest, raw = _cmd(w, b'FETCH %d (%s)' % (seq, attrs), stats)
    if wc.tagged(rest) != b'OK' or seq not in items:
        raise wc.BadResponse(f'FETCH {seq}: {raw[:200]!r}')
    d = dict(items[seq])
    obs = {'raw': wc.payload(d[b'BODY[]']), 'size': d[b'RFC822.SIZE'],
           'hdr': wc.payload(d[b'BODY[HEADER]']), 'txt': wc.payload(d[b'BODY[TEXT]'])}
    if with_rfc822:
        obs['rfc822'] = wc.payload(d[b'RFC822'])
    shape, leaves, weird, obs['encl'], obs['msgparts'] = _bs_from_wire(d[b'BODYSTRUCTURE'])
    obs['shape'] = shape if not weird else None
    if weird:
        stats['bodystructure_unreadable'] = stats.get('bodystructure_unreadable', 0) + 1
    obs['leaves'] = []
    if leaves:
        want = []
        for path, _size in leaves:
            ps = b'.'.join(b'%d' % x for x in path)
            want.append(b'BODY.PEEK[%s] BODY.PEEK[%s.MIME]' % (ps, ps))
        items, rest, raw = _cmd(w, b'FETCH %d (%s)' % (seq, b' '.join(want)), stats)
        if wc.tagged(rest) != b'OK':    # an announced part cannot be fetched
            raise wc.BadResponse(f'FETCH {seq} of the announced parts: {raw[:200]!r}')
        d2 = dict(items.get(seq, ()))
        for path, size in leaves:
            ps = b'.'.join(b'%d' % x for x in path)
            body = wc.payload(d2.get(b'BODY[%s]' % ps))
            mime = wc.payload(d2.get(b'BODY[%s.MIME]' % ps))
            obs['leaves'].append((path, size, body, mime))
    obs['msgs'] = []
    mp = sorted(p for p in (obs.get('msgparts') or ()) if p)
    if mp:
        want = []
        for path in mp:
            ps = b'.'.join(b'%d' % x for x in path)
            want.append(b'BODY.PEEK[%s] BODY.PEEK[%s.HEADER] BODY.PEEK[%s.TEXT]' % (ps, ps, ps))
        items, rest, raw = _cmd(w, b'FETCH %d (%s)' % (seq, b' '.join(want)), stats)
        if wc.tagged(rest) == b'OK':
            d3 = dict(items.get(seq, ()))
            for path in mp:
                ps = b'.'.join(b'%d' % x for x in path)
                vals = [wc.payload(d3.get(b'BODY[%s%s]' % (ps, sfx))) for sfx in (b'', b'.HEADER', b'.TEXT')]
                if None not in vals:
                    obs['msgs'].append((path, *vals))
    return obs


def _fetch_partials(w: World, seq: int, pairs: list, stats: dict) -> list:
    """pairs: [(o, n)]; one FETCH per n (the response keys a partial by its
    origin only)"""
    out = []
    by_n: dict = {}
    for o, k in pairs:
        by_n.setdefault(k, []).append(o)
    for k, os_ in sorted(by_n.items()):
        for grp in wc.chunked(sorted(set(os_)), 40):
            att = b' '.join(b'BODY.PEEK[]<%d.%d>' % (o, k) for o in grp)
            items, rest, raw = _cmd(w, b'FETCH %d (%s)' % (seq, att), stats)
            if wc.tagged(rest) != b'OK':
                raise wc.BadResponse(f'partial FETCH: {raw[:200]!r}')
            d = dict(items.get(seq, ()))
            for o in grp:
                v = d.get(b'BODY[]<%d>' % o)
                out.append((o, k, wc.payload(v) if v is not None else None))
    return out


def grid(n: int, rng: random.Random | None, full_upto: int = 8, samples: int = 24):
    if n <= full_upto:
        return [(o, k) for o in range(0, n + 2) for k in range(1, n + 2)]
    pairs = {(0, n), (0, n + 1), (n, 1), (n + 1, 1), (n - 1, 1), (n - 1, 2), (0, 1), (1, n)}
    rng = rng or random.Random(n)
    while len(pairs) < samples:
        o = rng.randint(0, n + 1)
        pairs.add((o, rng.randint(1, n + 1)))
    return sorted(pairs)


def e2e_batch(backend: str, msgs: list, stats: dict, *, partial_places=('inbox',),
              seed: int = 0, inbox_samples: int = 24) -> list:
    """msgs: [(ident, data, mode)].  -> [(ident, place, obs | ('refused', raw)
    | ('error', text))] for place in inbox, copy, move."""
    out = []
    w = World(backend, users={'user1': 'pass1'})
    try:
        w.connect('a')
        w.login('a')
        accepted = []
        for ident, data, mode in msgs:
            r = _append(w, data, mode)
            if wc.tagged([ln for ln in r.split(b'\r\n') if ln]) == b'OK' and b'APPENDUID' in r:
                accepted.append((ident, data))
            elif len(msgs) > 1 and (w.conns['a'].done or not r):
                # the connection died on this APPEND: isolate the messages
                raise wc.BadResponse(f'connection lost on APPEND: {r[:120]!r}')
            else:
                out.append((ident, 'inbox', ('refused', r[:200])))
        if not accepted:
            return out
        _cmd(w, b'CREATE Cp')
        _cmd(w, b'CREATE Mv')
        items, rest, raw = _cmd(w, b'SELECT INBOX')
        if b'* %d EXISTS' % len(accepted) not in raw:
            raise wc.BadResponse(f'SELECT after {len(accepted)} APPENDs: {raw[:300]!r}')
        for k, (ident, data) in enumerate(accepted, 1):
            obs = _fetch_basic(w, k, stats, True)
            if 'inbox' in partial_places and obs['raw'] is not None:
                obs['partials'] = _fetch_partials(
                    w, k, grid(len(obs['raw']), random.Random(seed * 7919 + k),
                               samples=inbox_samples), stats)
            out.append((ident, 'inbox', obs))
        for k in range(1, len(accepted) + 1):
            items, rest, raw = _cmd(w, b'COPY %d Cp' % k)
            if wc.tagged(rest) != b'OK':
                raise wc.BadResponse(f'COPY: {raw[:200]!r}')
        for k in range(1, len(accepted) + 1):
            items, rest, raw = _cmd(w, b'MOVE 1 Mv')
            if wc.tagged(rest) != b'OK':
                raise wc.BadResponse(f'MOVE: {raw[:200]!r}')
        for place, box in (('copy', b'Cp'), ('move', b'Mv')):
            items, rest, raw = _cmd(w, b'SELECT ' + box)
            if b'* %d EXISTS' % len(accepted) not in raw:
                raise wc.BadResponse(f'SELECT {box!r}: {raw[:300]!r}')
            for k, (ident, data) in enumerate(accepted, 1):
                obs = _fetch_basic(w, k, stats, False)
                if place in partial_places and obs['raw'] is not None:
                    obs['partials'] = _fetch_partials(
                        w, k, grid(len(obs['raw']), random.Random(seed * 104729 + k),
                                   full_upto=3, samples=10), stats)
                out.append((ident, place, obs))
    finally:
        w.close()
    return out


# --------------------------------------------------------------------------
# drivers


class Tables:
    """abstract string -> TLC state, for looking up the model's prediction of
    a STORED string that differs from the appended one"""

    def __init__(self):
        self.byte: dict = {}
        self.line: dict = {}

    def lookup(self, data: bytes) -> Pred | None:
        st = self.byte.get(abs_bytes(data))
        if st is not None:
            return pred_from_byte_state(st)
        al = abs_lines(data)
        if al is not None:
            st = self.line.get(al)
            if st is not None:
                return pred_from_line_state(st, data)
        return None


TABLES = Tables()


def _mode_for(data: bytes, rng: random.Random) -> str:
    r = rng.random()
    if b'\x00' in data and r < 0.5:
        return 'bin'
    if r > 0.93:
        return 'sync'
    return 'plus'


def _below_checked(obs: dict) -> int:
    """announced parts below a message/rfc822 part whose BODY[p] was obtained
    and compared with the announced size"""
    encl = obs.get('encl') or {}
    return sum(1 for lf in obs['leaves'] if lf[0] in encl and lf[2] is not None)


def _direct_chunk(args):
    """[(kind, key, data)] -> [(kind, key, data, fails, drift)] only for
    entries with something to report; plus counts"""
    items = args
    rep = []
    n = 0
    below = 0
    for kind, key, data in items:
        if kind == 'e':
            pred = None         # a MIME tree with message/rfc822: not in the model
        else:
            st = (TABLES.byte if kind == 'b' else TABLES.line)[key]
            pred = pred_from_byte_state(st) if kind == 'b' else pred_from_line_state(st, data)
        try:
            obs = observe_direct(data)
        except Exception as exc:   # the parser itself fails on an accepted input
            rep.append((kind, key, data, [('parse-raises', None, {'exc': repr(exc)})], []))
            n += 1
            continue
        obs['directed'] = kind == 'e'
        fails, drift = judge(data, obs, pred, 'direct', 'inbox')
        below += _below_checked(obs)
        n += 1
        if fails or drift:
            rep.append((kind, key, data, fails, drift))
    return n, rep, below


def _e2e_chunk(args):
    backend, batch, seed = args
    stats: dict = {}
    res = []
    msgs = [(i, data, mode) for i, (kind, key, data, mode) in enumerate(batch)]
    # the MIME trees (own batches): the partial clause does not depend on the MIME
    # structure and has its grid on the other families; here the corner ranges
    # of the appended message only, the copies are judged on every other clause
    trees = bool(batch) and batch[0][0] == 'e'
    try:
        outs = e2e_batch(backend, msgs, stats, seed=seed,
                         partial_places=('inbox',) if trees else ('inbox', 'copy', 'move'),
                         inbox_samples=8 if trees else 24)
        err = None
    except (wc.BadResponse, wc.Hang, KeyError, TypeError) as exc:
        outs, err = [], repr(exc)
    if err is not None and len(batch) > 1:
        # isolate: one world per message
        for item in batch:
            res += _e2e_chunk((backend, [item], seed))[1]
        return stats, res
    if err is not None:
        kind, key, data, mode = batch[0]
        return stats, [(kind, key, data, mode, backend, 'inbox',
                        [('protocol-breakdown', None, {'error': err})], [])]
    for i, place, obs in outs:
        kind, key, data, mode = batch[i]
        if isinstance(obs, tuple):
            res.append((kind, key, data, mode, backend, place, obs, None))
            continue
        st = None if kind == 'e' else (TABLES.byte if kind == 'b' else TABLES.line).get(key)
        pred = None
        if st is not None:
            pred = pred_from_byte_state(st) if kind == 'b' else pred_from_line_state(st, data)
        obs['directed'] = kind == 'e'
        if obs['raw'] is not None and obs['raw'] != data and kind != 'e':
            obs['pred_for_stored'] = TABLES.lookup(obs['raw'])
        if obs['raw'] is None:
            res.append((kind, key, data, mode, backend, place,
                        [('stored', None, {'got': None})], []))
            continue
        fails, drift = judge(data, obs, pred, backend, place)
        nb = _below_checked(obs)
        if nb:
            stats['parts_below_rfc822_checked'] = stats.get('parts_below_rfc822_checked', 0) + nb
            if place == 'inbox':
                stats['messages_with_rfc822_' + backend] = \
                    stats.get('messages_with_rfc822_' + backend, 0) + 1
        res.append((kind, key, data, mode, backend, place, fails, drift))
    return stats, res


def _hexs(b: bytes) -> str:
    return b.hex()


def main(tier: str) -> int:
    run = Run('C03', tier)
    rng = random.Random(run.seed)
    timer = wc.Timer()
    procs = wc.nprocs()
    run.cov['rule'] = (
        'executions = one abstract string enumerated by TLC (byte classes or '
        'line tokens), concretised and pushed through the real code at one '
        'level (direct = MessageContent.parse + BaseLoadedMessage; e2e = real '
        'server on dict / maildir incl. partial grid, parts, COPY, MOVE), or one '
        'directed / seeded random MIME tree with message/rfc822 entities at one level; '
        'non-trivial = the string has a line terminator or a header/body '
        'separator or a MIME part; distinct = distinct abstract strings')
    run.assumptions += [
        'byte classes are read off the character tests of pymap/mime (LF, CR '
        'before LF, the whitespace set, colon); bytes inside one class are '
        'assumed to be treated alike (>= 2 representatives per class tried)',
        'exhaustive only for class strings up to the stated length and line '
        'token messages up to the stated number of lines; lengths up to 64 KiB '
        'and deep MIME nesting are SAMPLED (seeded), not decided',
        'message/rfc822 entities, the parts of the messages they embed and BINARY '
        '(decoded) fetches are not in the TLA+ model: no model prediction (drift) for '
        'them.  The laws are judged for them all the same: the top-level clauses, and '
        'the part-size clause for every part BODYSTRUCTURE announces at or below a '
        'message/rfc822 entity, numbered as RFC 3501 6.4.5 says (embedded multipart: '
        'P.1, P.2, ...; embedded non-multipart: P.1).  These messages are directed MIME '
        'trees (ENCAPS_SHAPES x 4 endings x CRLF/LF x 2 representatives) plus seeded '
        'random trees: SAMPLED, not enumerated',
        'BODY[p.MIME] is used only to recognise the open finding '
        'BodystructureSizeIncludesHeader (announced = len(BODY[p.MIME]) + len(BODY[p])); '
        'what it returns is not demanded',
        'maildir: clauses other than "stored = appended" are judged against '
        'the stored bytes when the store rewrote the message (known findings)',
    ]
    if tier == 'quick':
        byte_ideal, byte_asis_len = ('WireMime_ideal.cfg', 6), 5
        # (as-is cfg, ideal cfg or None, dump the as-is states for execution)
        line_cfgs = [('WireMimeLines_free_asis.cfg', None, True),
                     ('WireMimeLines_nest_asis.cfg', 'WireMimeLines_nest_ideal.cfg', True)]
        e2e_byte_len = {'dict': 4, 'maildir': 3}
        e2e_line_max = {'dict': 2, 'maildir': 1}
        e2e_sample = {'dict': 700, 'maildir': 160}
        long_n = 0
        encaps_random = 60
    else:
        byte_ideal, byte_asis_len = ('WireMime_ideal7.cfg', 7), 6
        line_cfgs = [('WireMimeLines_free5_asis.cfg', 'WireMimeLines_free5_ideal.cfg', False),
                     ('WireMimeLines_free_asis.cfg', 'WireMimeLines_free_ideal.cfg', True),
                     ('WireMimeLines_nest7_asis.cfg', 'WireMimeLines_nest7_ideal.cfg', True)]
        e2e_byte_len = {'dict': 5, 'maildir': 4}
        e2e_line_max = {'dict': 3, 'maildir': 2}
        e2e_sample = {'dict': 30000, 'maildir': 4000}
        long_n = 60
        encaps_random = 3000

    # ---- 1. TLC -----------------------------------------------------------
    import shutil
    import tempfile
    tmp = tempfile.mkdtemp(prefix='verif.c03.')
    fixed = set(run.known.fixed)
    run.notes['deviations_modelled_as_repaired'] = sorted(fixed)
    try:
        cfg = 'WireMime_asis.cfg' if byte_asis_len == 5 else 'WireMime_asis6.cfg'
        jobs = {
            'byte_ideal': lambda: tlc.run_tlc('WireMime.tla', byte_ideal[0], workers=8,
                                              deadlock=False),
            'byte_law': lambda: tlc.run_tlc('WireMime.tla', 'WireMime_law.cfg', workers=2,
                                            deadlock=False),
            'byte_asis': lambda: wc.dump_states(
                'WireMime.tla', wc.cfg_with_fixed(cfg, fixed, tmp), workers=6),
        }
        for i, (asis, ideal, dump) in enumerate(line_cfgs):
            if ideal:
                jobs[f'line_ideal{i}'] = (lambda ideal=ideal: tlc.run_tlc(
                    'WireMimeLines.tla', ideal, workers=4, deadlock=False))
            if dump:
                jobs[f'line_asis{i}'] = (lambda asis=asis: wc.dump_states(
                    'WireMimeLines.tla', wc.cfg_with_fixed(asis, fixed, tmp), workers=4))
            else:
                jobs[f'line_asis{i}'] = (lambda asis=asis: tlc.run_tlc(
                    'WireMimeLines.tla', wc.cfg_with_fixed(asis, fixed, tmp), workers=4,
                    deadlock=False))
        got = wc.run_parallel(jobs, threads=8 if tier == 'quick' else 4)
    finally:
        shutil.rmtree(tmp, ignore_errors=True)
    for name, r in got.items():
        if isinstance(r, Exception):
            run.machinery(f'TLC job {name}: {r}')
            return run.finish()
        res = r[1] if isinstance(r, tuple) else r
        if name == 'byte_law':
            continue
        run.add_model(res, name)
        if not res.ok:
            run.machinery(f'{name}: {res.violated or res.error}')
            return run.finish()
    res = got['byte_law']
    run.notes['law_on_model_of_pinned_tree'] = {
        'violated': res.violated,
        'counterexample': [list(st.get('s', ())) for _l, st in res.trace][-1:]}
    bstates = got['byte_asis'][0]
    lstates = []
    for i, (_a, _i, dump) in enumerate(line_cfgs):
        if dump:
            lstates += got[f'line_asis{i}'][0]
    run.notes['tlc_wall_s'] = timer.lap()

    for st in bstates:
        TABLES.byte[tuple(st['s'])] = st
    for st in lstates:
        if st['toks']:
            TABLES.line[(tuple(st['toks']), bool(st['nl']))] = st

    # ---- 2. direct level: every state, >= 2 representatives ---------------
    work = []
    for key in TABLES.byte:
        if not key:
            continue          # b'' is refused by APPEND
        work.append(('b', key, conc_bytes(key, None)))
        work.append(('b', key, conc_bytes(key, rng)))
    for key in TABLES.line:
        toks, nl = key
        d0 = conc_lines(toks, nl, None)
        if d0:
            work.append(('l', key, d0))
        d1 = conc_lines(toks, nl, rng)
        if d1:
            work.append(('l', key, d1))
    # MIME trees with message/rfc822 entities (own generator: the e2e level below
    # must see the same messages whatever was drawn from rng before)
    encaps = encaps_items(run.seed, random.Random(run.seed * 31 + 7), encaps_random)
    work += [('e', key, data) for key, data in encaps]
    chunks = wc.chunked(work, 4000)
    try:
        results = wc.pmap(_direct_chunk, chunks, procs)
    except Exception as exc:
        run.machinery(f'direct level: {exc!r}')
        return run.finish()
    reports = []
    ndirect = 0
    below_direct = 0
    for n, rep, nb in results:
        ndirect += n
        below_direct += nb
        reports += [(kind, key, data, 'direct', 'direct', 'inbox', f, d)
                    for kind, key, data, f, d in rep]
    for kind, key, data in work:
        run.count_exec(('d', kind, key), nontrivial=_nontrivial(kind, key))
    run.notes['direct'] = {'executions': ndirect, 'wall_s': timer.lap()}
    run.notes['encapsulated'] = {
        'directed_shapes': sorted(ENCAPS_SHAPES), 'endings': list(ENCAPS_TAILS),
        'messages': len(encaps), 'random_trees': encaps_random,
        'parts_below_rfc822_checked': {'direct': below_direct}}

    # ---- 3. end to end ----------------------------------------------------
    e2e_jobs = []
    for backend in ('dict', 'maildir'):
        sel = []
        rest = []
        for key in TABLES.byte:
            if not key:
                continue
            (sel if len(key) <= e2e_byte_len[backend] else rest).append(('b', key))
        for key in TABLES.line:
            if not conc_lines(key[0], key[1], None):
                continue
            (sel if len(key[0]) <= e2e_line_max[backend] else rest).append(('l', key))
        rest.sort()
        rng.shuffle(rest)
        sel += rest[:e2e_sample[backend]]
        items = []
        for kind, key in sel:
            r = random.Random(zlib.crc32(repr((run.seed, kind, key)).encode()))
            data = conc_bytes(key, r) if kind == 'b' else conc_lines(key[0], key[1], r)
            if not data:
                data = conc_bytes(key, None) if kind == 'b' else conc_lines(key[0], key[1], None)
            items.append((kind, key, data, _mode_for(data, r)))
        bs = 24 if backend == 'dict' else 12
        for i, batch in enumerate(wc.chunked(items, bs)):
            e2e_jobs.append((backend, batch, run.seed * 1000003 + i))
        items = []
        for key, data in encaps:
            r = random.Random(zlib.crc32(repr((run.seed, 'e', key)).encode()))
            items.append(('e', key, data, _mode_for(data, r)))
        for i, batch in enumerate(wc.chunked(items, bs // 2)):
            e2e_jobs.append((backend, batch, run.seed * 1000033 + i))
    # long / deep messages (thorough): sampled, no exhaustiveness claim
    long_items = []
    if long_n:
        long_items = _long_samples(run, rng, long_n)
        for backend in ('dict', 'maildir'):
            for i, batch in enumerate(wc.chunked(long_items, 4)):
                e2e_jobs.append((backend, batch, run.seed * 7 + i))
    try:
        results = wc.pmap(_e2e_chunk, e2e_jobs, procs)
    except Exception as exc:
        run.machinery(f'e2e level: {exc!r}')
        return run.finish()
    stats_total: dict = {}
    ne2e = {'dict': 0, 'maildir': 0}
    refused = 0
    for stats, res in results:
        for k, v in stats.items():
            stats_total[k] = stats_total.get(k, 0) + v
        for kind, key, data, mode, backend, place, fails, drift in res:
            if isinstance(fails, tuple):
                if fails[0] == 'refused':
                    # outside the antecedent of C03 (APPEND did not accept b);
                    # an internal error on APPEND is recorded for the report
                    refused += 1
                    key_ = 'append_server_error' if b'SERVERBUG' in fails[1] else 'append_refused'
                    lst = run.notes.setdefault(key_, [])
                    if len(lst) < 5:
                        lst.append({'backend': backend, 'b': repr(data[:120]),
                                    'response': repr(fails[1])})
                continue
            if place == 'inbox':
                ne2e[backend] += 1
                run.count_exec(('e', backend, kind, key),
                               nontrivial=_nontrivial(kind, key))
            if fails or drift:
                reports.append((kind, key, data, mode, backend, place, fails, drift))
    enc = run.notes['encapsulated']
    enc['parts_below_rfc822_checked']['e2e (inbox, copy, move)'] = \
        stats_total.pop('parts_below_rfc822_checked', 0)
    enc['e2e_messages_with_parts_below_rfc822'] = {
        b: stats_total.pop('messages_with_rfc822_' + b, 0) for b in ('dict', 'maildir')}
    run.notes['e2e'] = {'messages': ne2e, 'refused': refused, 'stats': stats_total,
                        'long_samples': len(long_items), 'wall_s': timer.lap()}

    # ---- 4. verdicts --------------------------------------------------------
    sample_seen = set()
    # only the first 20 violations are printed with a replay file: order the
    # reports so that those show every (level, failing clauses) combination
    # before the second instance of any
    rank: dict = {}
    ordered = []
    for idx, r in enumerate(reports):
        k = (r[4], tuple(sorted({c for c, sig, _d in r[6] if sig not in run.known.open})))
        rank[k] = rank.get(k, 0) + 1
        ordered.append((rank[k] if k[1] else 0, idx, r))
    ordered.sort(key=lambda x: x[:2])
    for _n, _idx, (kind, key, data, mode, backend, place, fails, drift) in ordered:
        for clause, sig, detail in fails:
            rep = {'check': 'C03', 'level': backend, 'place': place, 'mode': mode,
                   'abstract': list(key[0]) + ['nl' if key[1] else 'no-nl'] if kind == 'l'
                   else list(key) if kind == 'b' else key,
                   'b_hex': _hexs(data) if len(data) <= 4096 else _hexs(data[:4096]) + '...',
                   'clause': clause, 'detail': detail}
            what = (f'{backend}/{place}: clause "{clause}" fails for b={data[:60]!r}'
                    f'{"..." if len(data) > 60 else ""} (len {len(data)}): {detail}')
            counted = run.violation(what, rep, sig)
            if not counted and sig not in sample_seen:
                sample_seen.add(sig)
                run.sample({'known': sig, 'level': backend, 'place': place,
                            'b': repr(data[:80]), 'clause': clause, 'detail': repr(detail)[:300]},
                           limit=12)
        for d in drift:
            if len(run.drift) < 200:
                d = dict(d)
                d.update({'level': backend, 'place': place, 'b': repr(data[:80])})
                run.drift.append(d)
    run.cov['exhaustive'] = True
    run.notes['exhaustive_scope'] = (
        f'TLC: every class string over 7 byte classes up to length {byte_ideal[1]} '
        f'(laws with repairs) / {byte_asis_len} (as-is, dumped and executed), every '
        f'line-token message of the configured alphabets/bounds; direct level on '
        f'every dumped state x 2 representatives; e2e exhaustive up to byte length '
        f'{e2e_byte_len} / {e2e_line_max} lines plus a seeded sample of the rest')
    return run.finish()


def _nontrivial(kind, key) -> bool:
    if kind == 'b':
        return 'LF' in key
    if kind == 'l':
        return len(key[0]) > 1
    return True


def _long_samples(run: Run, rng: random.Random, n: int) -> list:
    """long random class strings (up to 64 KiB) and deep line-token messages
    from TLC simulation of WireMimeLines; sampled only.  The model's
    prediction for a random class string is obtained by abstracting it to line
    tokens and having TLC evaluate WireMimeLines on exactly that message."""
    import shutil
    import tempfile
    items = []
    weights = [('CH', 60), ('WS', 8), ('HI', 6), ('NUL', 2), ('COLON', 3), ('CR', 3), ('LF', 3)]
    pool = [c for c, wgt in weights for _ in range(wgt)]
    seeds = {}
    for i in range(n // 2):
        length = rng.choice([100, 1000, 4096, 20000, 65535, 65536])
        classes = []
        while len(classes) < length:
            c = rng.choice(pool)
            if c == 'CR' and rng.random() < 0.7:
                classes += ['CR', 'LF']
            elif c == 'LF' and rng.random() < 0.15:
                classes += ['LF', 'LF']
            else:
                classes.append(c)
        if rng.random() < 0.5:
            classes.append('LF')
        classes = tuple(classes[:length])
        data = conc_bytes(classes, rng)
        key = abs_lines_generic(data)
        seeds[key] = data
    tmp = tempfile.mkdtemp(prefix='verif.c03.')
    try:
        fixed = set(run.known.fixed)
        expr = ('\\E sd \\in {' + ', '.join(
            '<<' + tlc.to_tla(k[0]) + ', ' + ('TRUE' if k[1] else 'FALSE') + '>>'
            for k in seeds) + '} : toks = sd[1] /\\ nl = sd[2] /\\ pred = Pred(toks, nl)')
        sts, res = wc.seed_states('WireMimeLines', expr, 'WireMimeLines_sim.cfg', fixed, tmp)
        run.add_model(res, 'WireMimeLines on the sampled long messages')
        for st in sts:
            key = (tuple(st['toks']), bool(st['nl']))
            if key in seeds:
                TABLES.line[key] = st
                data = seeds[key]
                items.append(('l', key, data, _mode_for(data, rng)))
        behs, res = tlc.simulate('WireMimeLines.tla', wc.cfg_with_fixed(
            'WireMimeLines_sim.cfg', fixed, tmp), num=max(4, n // 2), depth=40,
            seed=run.seed + 1)
        run.add_model(res, 'WireMimeLines_sim.cfg (simulate)')
        for beh in behs:
            _label, st = beh[-1]
            key = (tuple(st['toks']), bool(st['nl']))
            TABLES.line[key] = st
            data = conc_lines(key[0], key[1], rng, filler=rng.choice([0, 200, 3000]))
            if data:
                items.append(('l', key, data, _mode_for(data, rng)))
    except tlc.TLCError as exc:
        run.machinery(f'long samples: {exc}')
    finally:
        shutil.rmtree(tmp, ignore_errors=True)
    run.notes['long_sample_lengths'] = sorted({len(it[2]) for it in items})[-6:]
    return items


def replay(path: str) -> int:
    import json
    rec = json.load(open(path))['replay']
    data = bytes.fromhex(rec['b_hex'].rstrip('.'))
    level = rec['level']
    directed = isinstance(rec.get('abstract'), list) and rec['abstract'][:1] == ['encaps']
    if level == 'direct':
        obs = observe_direct(data)
        obs['directed'] = directed
        print('direct:', obs)
        fails, _ = judge(data, obs, None, 'direct', 'inbox')
    else:
        stats: dict = {}
        outs = e2e_batch(level, [(0, data, rec.get('mode') or 'plus')], stats,
                         partial_places=('inbox', 'copy', 'move'))
        fails = []
        for _i, place, obs in outs:
            print(place, obs if isinstance(obs, tuple) else
                  {k: v for k, v in obs.items() if k != 'partials'})
            if not isinstance(obs, tuple):
                obs['directed'] = directed
                f, _ = judge(data, obs, None, level, place)
                fails += [(place,) + x for x in f]
    for f in fails:
        print('FAILS', f)
    return 1 if fails else 0
