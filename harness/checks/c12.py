"""C12 - a read-only selection never changes the mailbox.

Design: TLC checks the action property ReadOnlyInert on MailboxSync.tla.
Code: session `a` works inside a read-only selection (EXAMINE INBOX, or SELECT of
the backend-read-only mailbox RO) and issues random message commands and UID
variants, plus APPEND/COPY/MOVE into RO, interleaved at every lock checkpoint
with 0-2 observing sessions; a glass-box dump (UIDs, flags, stored recent bits)
is logged after every tagged response of `a`; TLC validates each recorded
execution against Trace_RO.tla."""

from __future__ import annotations

import random

from ..common import Run
from .. import tlc
from ..syncrun import SyncRun
from .synccheck import rand_set, FLAGS


def ro_cmd(rng) -> tuple:
    um = rng.random() < 0.5
    k = rng.choice(['store', 'store', 'fetch', 'fetchseen', 'expunge', 'uidexpunge', 'copy',
                    'move', 'search', 'noop', 'check', 'intoRO', 'intoRO', 'copyRO', 'moveRO',
                    'appendself', 'copyself'])
    if k == 'appendself':
        return ('append', 'SELF', 1, ())
    if k == 'copyself':
        return ('copy', um, rand_set(rng, um, 4), 'SELF')
    if k == 'store':
        return ('store', um, rand_set(rng, um, 4), rng.choice('+-='), rng.random() < 0.4,
                (rng.choice(FLAGS + ('\\Recent',)),))
    if k == 'fetch':
        return ('fetch', um, rand_set(rng, um, 4), False)
    if k == 'fetchseen':
        return ('fetch', um, rand_set(rng, um, 4), True)
    if k == 'uidexpunge':
        return ('uidexpunge', rand_set(rng, True, 4))
    if k in ('copy', 'move'):
        return (k, um, rand_set(rng, um, 4), 'Box')
    if k == 'search':
        return ('search', um, rng.choice(['ALL', 'DELETED', 'UNSEEN']))
    if k == 'intoRO':
        return ('append', 'RO', rng.choice([1, 2]), ())
    if k == 'copyRO':
        return ('copy', um, rand_set(rng, um, 4), 'RO')
    if k == 'moveRO':
        return ('move', um, rand_set(rng, um, 4), 'RO')
    return (k,)


def obs_cmd(rng) -> tuple:
    um = rng.random() < 0.5
    k = rng.choice(['fetch', 'noop', 'search', 'check'])
    if k == 'fetch':
        return ('fetch', um, rand_set(rng, um, 4), False)
    if k == 'search':
        return ('search', um, 'ALL')
    return (k,)


RO_KINDS = ('intoRO', 'copyRO', 'moveRO')


def one(rng, replace: bool = False, backend: str = 'dict'):
    """replace: after `a` has EXAMINEd INBOX another session renames INBOX away (the name INBOX
    then denotes a new, empty mailbox) and delivers into the new one; whatever `a`'s selection is
    bound to afterwards, no command issued in it may change that mailbox, which is read-write."""
    nobs = rng.choice([1, 1, 2]) if replace else rng.choice([0, 1, 1, 2])
    sessions = ['a', 'b', 'c'][:1 + nobs]
    init = [rng.choice([(), ('\\Seen',), ('\\Deleted',), ('\\Deleted', '\\Seen')])
            for _ in range(rng.randint(2, 4))]
    md = backend != 'dict'
    # maildir: no backend-read-only mailbox exists (Mailbox.readonly is constantly False): the
    # read-only selection is EXAMINE, the stored state is the directory (flags = info letters,
    # stored recent bit = the file is still in new/)
    # maildir: a quarter of the runs with the documented --colon option (file names key!2,<flags>)
    wkw = {'config_kw': {'colon': '!'}} if md and rng.random() < 0.25 else None
    run = SyncRun(backend=backend, init_flags=init, sessions=sessions, controlled=True,
                  boxes=('Box',) if md else ('Box', 'RO'), claim_recent=rng.random() < 0.4,
                  world_kw=wkw)
    log = []
    try:
        # the backend-read-only mailbox, as pymap's demo data makes one
        if not md:
            run.make_readonly_box('RO', 2)
        elif rng.random() < 0.5:
            # files a delivery agent has dropped into new/ (no ":2," suffix, no UID record)
            # before anybody looks: adopted by the first reset(), part of the baseline
            for _ in range(rng.choice([1, 2])):
                run.deliver_external('INBOX')
        target = 'INBOX' if replace or md else rng.choice(['INBOX', 'INBOX', 'RO'])
        for s in sessions[1:]:
            how = 'examine' if replace else rng.choice(['select', 'examine'])
            for cmd in ((how, target), ('fetch', False, '1:*', False)):
                run.issue(s, cmd)
                run.finish(s)
                log.append(('cmd', s, cmd))
        # no read-write selection of the target exists when every observer merely examines it
        norw = all(c[2][0] == 'examine' for c in log if c[0] == 'cmd' and c[2][0] in ('select', 'examine'))
        how = 'select' if target == 'RO' else 'examine'
        for cmd in ((how, target), ('fetch', False, '1:*', False)):
            run.issue('a', cmd)
            run.finish('a')
            log.append(('cmd', 'a', cmd))
        if replace:
            for cmd in (('close',), ('rename', 'INBOX', 'Old'), ('append', 'INBOX', 2, ()),
                        ('append', 'INBOX', 1, ('\\Deleted',))):
                run.issue('b', cmd)
                run.finish('b')
                log.append(('cmd', 'b', cmd))
        run.dump(target, norw)
        dump_ro = (lambda: None) if md else (lambda: run.dump('RO'))
        dump_ro()
        ncmds = rng.randint(2, 6)
        issued = 0
        closed = False
        for _ in range(300):
            acts = []
            for s in sessions:
                if run.busy(s):
                    if run.runnable(s):
                        acts.append(('step', s))
                elif s == 'a' and issued < ncmds and not closed:
                    acts.append(('issue', s))
                elif s != 'a' and rng.random() < 0.5:
                    acts.append(('issue', s))
            if not acts or (issued >= ncmds and not run.busy('a')):
                break
            act, s = rng.choice(acts)
            if md and rng.random() < 0.06:
                run.deliver_external('INBOX')
                log.append(('external', 'INBOX'))
                continue
            if act == 'issue':
                if s == 'a':
                    cmd = ro_cmd(rng) if issued < ncmds - 1 or rng.random() < 0.5 else ('close',)
                    while md and 'RO' in cmd:
                        cmd = ro_cmd(rng)
                    cmd = tuple(target if x == 'SELF' else x for x in cmd)
                    issued += 1
                    closed = cmd == ('close',)
                else:
                    cmd = obs_cmd(rng)
                was = len(run.events)
                run.issue(s, cmd)
                log.append(('issue', s, cmd))
            else:
                before = len(run.events)
                run.step(s)
                log.append(('step', s))
                if s == 'a' and any(e['e'] == 'tagged' and e['s'] == 'a'
                                    for e in run.events[before:]):
                    run.dump(target, norw)
                    dump_ro()
        for s in sessions:
            before = len(run.events)
            run.finish(s)
            if s == 'a' and any(e['e'] == 'tagged' and e['s'] == 'a' for e in run.events[before:]):
                run.dump(target, norw)
                dump_ro()
        run.quiesce()
        run.dump(target, norw)
        dump_ro()
    finally:
        run.close()
    return run, log


def main(tier: str) -> int:
    run = Run('C12', tier)
    rng = random.Random(run.seed * 104729 + 12)
    run.cov['rule'] = (
        'executions = seeded random programs of message commands / UID variants / deliveries into a '
        'read-only mailbox issued by one session inside a read-only selection (EXAMINE INBOX or SELECT '
        'of a backend-read-only mailbox), interleaved at every lock checkpoint with 0-2 observing '
        'sessions; non-trivial = the program contains at least one command that would change the '
        'mailbox in a read-write selection (STORE, \\Seen-setting FETCH, EXPUNGE, MOVE, CLOSE with '
        '\\Deleted messages present, delivery into RO); distinct = distinct command sequences of the '
        'session under test')
    run.assumptions += ['other sessions only observe (the property\'s wording)',
                        'dict backend: glass-box dump of MailboxData._messages incl. stored recent bits; '
                        'maildir backend: the dump is the directory listing + dovecot-uidlist, read '
                        'independently of pymap (flags = info letters, stored recent bit = file in new/)']
    res = tlc.run_tlc('MailboxSync.tla', 'MailboxSync_ideal_small.cfg' if tier == 'quick'
                      else 'MailboxSync_ideal.cfg', workers=16, timeout=3000)
    run.add_model(res, 'ideal (ReadOnlyInert)')
    if not res.ok:
        run.machinery(f'MailboxSync Ideal configuration fails: {res.violated or res.error}')
        return run.finish()
    traces, meta = [], []
    n = 500 if tier == 'quick' else 6000
    nrep = 60 if tier == 'quick' else 700
    for k in range(n + nrep):
        sr, log = one(rng, replace=k >= n)
        for e in sr.errors:
            run.notes.setdefault('harness_errors', []).append(e)
        traces.append(sr.events)
        meta.append({'recipe': sr.recipe, 'kind': 'ro-program-name-replaced' if k >= n else 'ro-program',
                     'schedule': log})
    # the same programs on the maildir backend (anchored in pymap/backend/maildir/mailbox.py):
    # EXAMINE only, the dump is read from the directory and the uidlist independently of pymap
    from . import synccheck
    nmd = 150 if tier == 'quick' else 2500
    rmd = random.Random(run.seed * 7919 + 1212)
    synccheck.UID_BASE[0] = 0
    try:
        for k in range(nmd):
            sr, log = one(rmd, backend='maildir')
            for e in sr.errors:
                run.notes.setdefault('harness_errors', []).append(e)
            traces.append(sr.events)
            meta.append({'recipe': sr.recipe, 'kind': 'ro-program', 'backend': 'maildir',
                         'schedule': log})
    finally:
        synccheck.UID_BASE[0] = 100
    run.notes['maildir_programs'] = nmd
    verdicts, vres = tlc.validate_total('Trace_RO.tla', 'Trace_RO.cfg', traces)
    if len(verdicts) != len(traces):
        run.machinery('trace validation incomplete: ' + (vres.error or vres.output[-800:]))
        return run.finish()
    for i, ev in enumerate(traces, 1):
        line, clause = verdicts[i]
        prog = [tuple(map(str, e['cmd'])) for e in ev if e['e'] == 'start' and e['s'] == 'a']
        nt = any(p[0] in ('store', 'expunge', 'uidexpunge', 'move', 'close', 'append')
                 or (p[0] == 'fetch' and p[3] == 'True') or (p[0] == 'copy' and p[3] == 'RO')
                 for p in prog)
        run.count_exec(prog, nontrivial=nt, validated=not clause)
        if clause:
            bad = ev[line - 1]
            last = [e for e in ev[:line] if e['e'] == 'tagged' and e['s'] == 'a'][-1:]
            run.violation(f'{clause} at event {line}: {bad} after {last[0]["cmd"] if last else "?"}',
                          {'check': 'C12', 'meta': meta[i - 1], 'clause': clause,
                           'events': ev[max(0, line - 20):line]}, None)
    run.sample(meta[0])
    run.sample(meta[-1])
    return run.finish()


def replay(path: str) -> int:
    """Set the recorded execution up again, repeat every driver action and have TLC judge it."""
    import json
    from ..syncrun import run_recipe
    rec = json.load(open(path))
    recipe = (rec['replay'].get('meta') or {}).get('recipe')
    if not recipe:
        print('this replay file carries no recipe (written before replays of this check existed)')
        return 2
    sr = run_recipe(recipe)
    for e in sr.errors:
        print('note:', e)
    verdicts, vres = tlc.validate_total('Trace_RO.tla', 'Trace_RO.cfg', [sr.events])
    if len(verdicts) != 1:
        print('trace validation incomplete: ' + (vres.error or vres.output[-800:]))
        return 2
    line, clause = verdicts[1]
    for e in sr.events[max(0, (line or len(sr.events)) - 20):(line or len(sr.events))]:
        print('  ', e)
    if clause:
        print(f'REPRODUCED: {clause} at event {line}: {sr.events[line - 1]}')
        return 1
    print(f'NOT REPRODUCED (recorded: {rec["replay"].get("clause")}; now: every clause holds)')
    return 0
