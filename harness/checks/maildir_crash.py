"""Crash-point enumeration for the maildir backend (C15, maildir half of C04).

Everything that touches a real pymap server runs in a forked CHILD of the process that
imported pymap once:

  child_run   - builds a World on the scratch store, installs the filesystem-operation
                tracer (every mutating call is logged BEFORE it executes, and the child
                `os._exit(137)`s immediately before operation number `kill_at`), then plays
                one abstract history as IMAP commands.  The complete output stream of the
                session is logged write-by-write, so an acknowledgement is on record the
                moment the server produced it.
  child_dump  - the restarted server: a NEW World on the same directory (no provisioning),
                LIST / LSUB / per folder STATUS, EXAMINE + UID FETCH 1:* (UID FLAGS
                BODY.PEEK[]), then SELECT + one probe APPEND per folder (the first UID the
                restarted server hands out).

The parent only reads the logs, abstracts them (content -> message index, UIDVALIDITY ->
index, file names -> kinds) and builds one event list per run; TLC judges the event lists
against spec/Trace_Maildir.tla.  No semantics of the property lives here.
"""

from __future__ import annotations

import builtins
import errno
import json
import os
import shutil
import signal
import sys
import tempfile
import time
import traceback

from ..server import World, REPO          # noqa: F401  (puts pymap on sys.path)
from .. import respparse as rp

USER, PASSWORD = 'user1', 'pass1'
LOCK_EXPIRY = 600.0
SYSFLAGS = {'\\Seen': 'S', '\\Flagged': 'F', '\\Deleted': 'T', '\\Answered': 'R', '\\Draft': 'D'}

# ---------------------------------------------------------------------------------------
# the tracer


class _TempProxy:
    """the NamedTemporaryFile object handed to the code under test: everything is
    delegated; closing it (explicitly or by leaving the with block) is the 'write'
    crash point"""

    def __init__(self, f, tr):
        self.__dict__['_f'] = f
        self.__dict__['_tr'] = tr
        self.__dict__['_pointed'] = False

    def __getattr__(self, name):
        return getattr(self._f, name)

    def _point(self):
        if not self._pointed:
            self.__dict__['_pointed'] = True
            if self._tr.on and not self._tr.depth:
                self._tr.point('write', self._f.name)

    def __enter__(self):
        self._f.__enter__()
        return self

    def __exit__(self, *a):
        self._point()
        return self._f.__exit__(*a)

    def close(self):
        self._point()
        return self._f.close()

    def __iter__(self):
        return iter(self._f)


class Tracer:
    """Wraps the mutating filesystem entry points.  Nested wrapped calls (tempfile ->
    os.open, mailbox._create_carefully -> os.open + open) count once."""

    def __init__(self, fd: int, kill_at: int | None, user_dir: str, tmp_dir: str,
                 fail: tuple | None = None):
        self.fd = fd
        self.kill_at = kill_at
        # (k, errno): operation k is not performed and raises OSError(errno) instead - a
        # failing system call (ENOSPC, EIO, EXDEV ...); the process goes on
        self.fail = fail
        self.n = 0
        self.depth = 0
        self.user_dir = os.path.realpath(user_dir)
        self.base_dir = os.path.dirname(self.user_dir)
        self.tmp_dir = os.path.realpath(tmp_dir)
        self.on = False
        self.orig: dict = {}

    # -- logging ---------------------------------------------------------------------

    def emit(self, obj: dict) -> None:
        os.write(self.fd, (json.dumps(obj) + '\n').encode())

    def point(self, op: str, *paths) -> None:
        """one crash point: log, maybe die, count"""
        k = self.n
        rec = {'k': 'op', 'n': k, 'op': op, 'p': [self._s(p) for p in paths]}
        if self.kill_at is not None and k == self.kill_at:
            rec['killed'] = True
            self.emit(rec)
            os._exit(137)
        if self.fail is not None and k == self.fail[0]:
            rec['failed'] = self.fail[1]
            self.emit(rec)
            self.n = k + 1
            raise OSError(self.fail[1], os.strerror(self.fail[1]), *[self._s(p) for p in paths[:1]])
        self.emit(rec)
        self.n = k + 1

    @staticmethod
    def _s(p) -> str:
        if isinstance(p, bytes):
            return p.decode('utf-8', 'replace')
        return str(p)

    def err(self, exc: BaseException) -> None:
        self.emit({'k': 'operr', 'n': self.n - 1, 'err': type(exc).__name__,
                   'errno': getattr(exc, 'errno', None)})

    # -- wrappers --------------------------------------------------------------------

    def _wrap(self, name: str, real, npaths: int):
        tr = self

        def wrapper(*a, **kw):
            if not tr.on or tr.depth:
                return real(*a, **kw)
            tr.point(name, *a[:npaths])
            tr.depth += 1
            try:
                return real(*a, **kw)
            except OSError as exc:
                tr.err(exc)
                raise
            finally:
                tr.depth -= 1
        wrapper.__name__ = getattr(real, '__name__', name)
        return wrapper

    def install(self) -> None:
        import mailbox
        import pymap.backend.maildir.io as mio
        tr = self
        for name, npaths in (('rename', 2), ('replace', 2), ('link', 2), ('remove', 1),
                             ('unlink', 1), ('rmdir', 1), ('mkdir', 1), ('utime', 1)):
            real = getattr(os, name)
            self.orig[('os', name)] = real
            setattr(os, name, self._wrap(name, real, npaths))

        real_fsync = os.fsync
        self.orig[('os', 'fsync')] = real_fsync

        def fsync(fd):
            if tr.on and not tr.depth:
                tr.point('fsync')
            return real_fsync(fd)
        os.fsync = fsync

        real_osopen = os.open
        self.orig[('os', 'open')] = real_osopen

        def os_open(path, flags, *a, **kw):
            if tr.on and not tr.depth and flags & (os.O_CREAT | os.O_TRUNC):
                tr.point('creat', path)
                tr.depth += 1
                try:
                    return real_osopen(path, flags, *a, **kw)
                except OSError as exc:
                    tr.err(exc)
                    raise
                finally:
                    tr.depth -= 1
            return real_osopen(path, flags, *a, **kw)
        os.open = os_open

        real_open = builtins.open
        self.orig[('builtins', 'open')] = real_open

        def open_(file, mode='r', *a, **kw):
            if tr.on and not tr.depth and isinstance(file, (str, bytes, os.PathLike)) \
                    and any(c in mode for c in 'wxa'):
                path = os.fspath(file)
                tr.point('open-' + ('x' if 'x' in mode else 'w' if 'w' in mode else 'a'), path)
                tr.depth += 1
                try:
                    f = real_open(file, mode, *a, **kw)
                except OSError as exc:
                    tr.err(exc)
                    raise
                finally:
                    tr.depth -= 1
                if 'x' not in mode:
                    # the file now exists (created / truncated) and nothing has been written:
                    # a kill here is the "between open() and write()" crash point.  (The two
                    # exclusive creations in the anchored code - lock file, maildirfolder
                    # marker - never write anything.)
                    tr.point('write', path)
                return f
            return real_open(file, mode, *a, **kw)
        builtins.open = open_

        real_ntf = tempfile.NamedTemporaryFile
        self.orig[('tempfile', 'NamedTemporaryFile')] = real_ntf

        def ntf(*a, **kw):
            if tr.on and not tr.depth:
                tr.point('mktemp', kw.get('dir') or tempfile.gettempdir())
                tr.depth += 1
                try:
                    f = real_ntf(*a, **kw)
                except OSError as exc:
                    tr.err(exc)
                    raise
                finally:
                    tr.depth -= 1
                # the temp file's name, so that the parent recognises it wherever it was made
                tr.emit({'k': 'temp', 'p': f.name})
                # the data reaches the file when it is flushed, i.e. closed: that is the
                # 'write' crash point (a kill before it loses whatever is still buffered)
                return _TempProxy(f, tr)
            return real_ntf(*a, **kw)
        tempfile.NamedTemporaryFile = ntf
        # (the module imports the name; a tree that writes its control files another way
        # has no such attribute - then there is nothing to wrap here)
        if hasattr(mio, 'NamedTemporaryFile'):
            self.orig[('mio', 'NamedTemporaryFile')] = mio.NamedTemporaryFile
            mio.NamedTemporaryFile = ntf
        # stdlib mailbox and pymap call os.<name> / open through the module attribute,
        # which the assignments above already cover; keep explicit for the record:
        assert mailbox.os is os


# ---------------------------------------------------------------------------------------
# path abstraction (parent side)


def classify(path: str, user_dir: str, tmp_dir: str, layout: str, temps=()):
    """-> (folder name | None, kind).  kind: 'DIR', 'DIR/cur', 'cur/msg', 'uidlist',
    'uidlist.lock', 'subscriptions', 'TEMP', 'etc', ..."""
    p = os.path.realpath(path) if os.path.isabs(path) else path
    if path in temps or p in temps:
        return None, 'TEMP'          # made by NamedTemporaryFile (whatever the directory)
    base = os.path.dirname(user_dir)
    if p == tmp_dir or (p.startswith(tmp_dir + os.sep) and not p.startswith(user_dir + os.sep)
                        and os.path.dirname(p) == tmp_dir):
        return None, 'TEMP' if p != tmp_dir else 'TEMPDIR'
    if p == user_dir:
        return 'INBOX', 'DIR'
    if not p.startswith(user_dir + os.sep):
        if p.startswith(base + os.sep):
            return None, 'etc'
        return None, 'TEMP' if os.path.basename(p).startswith('tmp') else 'other'
    rel = p[len(user_dir) + 1:].split(os.sep)
    ctl = {'dovecot-uidlist': 'uidlist', 'dovecot-uidlist.lock': 'uidlist.lock',
           'subscriptions': 'subscriptions', 'subscriptions.lock': 'subscriptions.lock',
           'maildirfolder': 'maildirfolder', 'dovecot-keywords': 'keywords',
           'dovecot.sieve': 'sieve'}
    tail = None
    if len(rel) >= 2 and rel[-2] in ('tmp', 'new', 'cur'):
        tail = rel[-2] + '/msg'
        rel = rel[:-2]
    elif rel[-1] in ('tmp', 'new', 'cur'):
        tail = 'DIR/' + rel[-1]
        rel = rel[:-1]
    elif rel[-1] in ctl:
        tail = ctl[rel[-1]]
        rel = rel[:-1]
    else:
        tail = 'DIR'
    if not rel:
        folder = 'INBOX'
    elif layout == '++':
        folder = rel[0][1:].replace('.', '/') if rel[0].startswith('.') else '?' + rel[0]
        if len(rel) > 1:
            folder += '?' + '/'.join(rel[1:])
    else:
        folder = '/'.join(rel)
    return folder, tail


def op_label(op: dict, user_dir: str, tmp_dir: str, layout: str, temps=()) -> tuple[str, list]:
    cls = [classify(p, user_dir, tmp_dir, layout, temps) for p in op.get('p', [])]
    name = op['op']
    if name == 'mktemp':
        return 'mktemp(TEMPDIR)', [None]     # where it is made shows in the rename that follows
    if not cls:
        return name, []
    folders = [c[0] for c in cls]
    if len(cls) == 2:
        arrow = '->'
        if folders[0] is not None and folders[1] is not None and folders[0] != folders[1] \
                and cls[0][1] != 'DIR':
            arrow = '=>'          # crosses folders (MOVE)
        return f'{name}({cls[0][1]}{arrow}{cls[1][1]})', folders
    return f'{name}({cls[0][1]})', folders


# ---------------------------------------------------------------------------------------
# children


class Cfg:
    """one configuration: layout x temp-dir placement, on one scratch area"""

    def __init__(self, layout: str, tmp_place: str, store_root: str, tmp_root: str):
        self.layout = layout
        self.tmp_place = tmp_place        # 'same' | 'other'
        self.store_root = store_root      # directory under which run dirs are made
        self.tmp_root = tmp_root          # TMPDIR for the server (same or another filesystem)

    @property
    def name(self) -> str:
        return f'{self.layout}/{self.tmp_place}'


def message_body(i: int, nonce: str) -> bytes:
    return (f'From: m{i}@verif.test\r\nSubject: message {i}\r\n\r\n'
            f'body of m{i} {nonce}\r\nsecond line {i * 7919}\r\n').encode()


def norm_content(data: bytes) -> bytes:
    return data.replace(b'\r\n', b'\n')


def _set_tmp(tmp_dir: str) -> None:
    os.environ['TMPDIR'] = tmp_dir
    tempfile.tempdir = tmp_dir


class Driver:
    """one IMAP session on a World, with time-advancing command execution"""

    def __init__(self, world: World, name: str = 'a', logfd: int | None = None):
        self.w = world
        self.name = name
        self.logfd = logfd
        self.tagno = 0
        self.dead = False
        self.c = world.connect(name, local=True, run_greeting=False)
        if logfd is not None:
            real_write = self.c.writer.write

            def write(data, _rw=real_write, _fd=logfd):
                os.write(_fd, (json.dumps({'k': 'out', 'd': bytes(data).decode('latin-1')})
                               + '\n').encode())
                _rw(data)
            self.c.writer.write = write
        world.loop.run_owner(name)
        self.greeting = self.c.take()

    _tags = 0       # per process: tags stay unique across reconnects

    def cmd(self, line: bytes, note: dict | None = None) -> tuple[str, list, bytes]:
        """-> (cond of the tagged response | 'NONE', parsed responses, raw)"""
        Driver._tags += 1
        tag = b't%d' % Driver._tags
        if self.logfd is not None:
            rec = {'k': 'sent', 'tag': tag.decode(), 'line': line[:60].decode('latin-1')}
            if note:
                rec.update(note)
            os.write(self.logfd, (json.dumps(rec) + '\n').encode())
        c = self.c
        c.feed(tag + b' ' + line + b'\r\n')
        loop = self.w.loop
        marker = b'\r\n' + tag + b' '

        def done():
            out = c.peek()
            return c.done or out.startswith(tag + b' ') or marker in out
        loop.settle(2000000, max_vtime=loop.time() + 120.0, until=done)
        raw = c.take()
        try:
            resps = rp.parse_stream(raw)
        except rp.Malformed:
            resps = []
        cond = 'NONE'
        for r in resps:
            if r.kind == 'tagged' and r.tag == tag:
                cond = r.cond.decode()
        if cond == 'NONE' and any(_is_bye(r) for r in resps):
            cond = 'BYE'
        if cond in ('NONE', 'BYE') or any(_is_bye(r) for r in resps):
            loop.settle(200000, max_vtime=loop.time() + 1.0, until=lambda: c.done)
            self.dead = True
        return cond, resps, raw


def _is_bye(r) -> bool:
    return r.kind == 'untagged' and r.cond == b'BYE'


def _val(x):
    v = getattr(x, 'value', x)
    return v


def _code(r):
    """(NAME, [args as str]) of a response code, or None"""
    if not r.code:
        return None
    return r.code[0].decode().upper(), r.code[1].decode().split()


def _resp_code(resps, name: str):
    for r in resps:
        c = _code(r)
        if c and c[0] == name:
            return c[1]
    return None


def child_run(cfg: Cfg, run_dir: str, tmp_dir: str, history: list, kill_at, log_path: str,
              nonce: str, virgin: bool) -> None:
    """never returns"""
    code = 0
    try:
        signal.alarm(60)
        _set_tmp(tmp_dir)
        fd = os.open(log_path, os.O_WRONLY | os.O_CREAT | os.O_APPEND, 0o600)
        tr = Tracer(fd, kill_at, os.path.join(run_dir, USER), tmp_dir)
        tr.install()
        w = World('maildir', users={USER: PASSWORD}, layout=cfg.layout, maildir_dir=run_dir,
                  config_kw={'_provision': False})
        tr.on = True
        play(w, history, nonce, fd)
        tr.on = False
        os.write(fd, b'{"k": "end"}\n')
    except SystemExit:
        raise
    except BaseException:
        code = 3
        try:
            os.write(fd, (json.dumps({'k': 'harness-exc', 'tb': traceback.format_exc()[-1500:]})
                          + '\n').encode())
        except Exception:
            pass
    os._exit(code)


class _Sess:
    """the client: reconnects and logs in again when the server hung up on it"""

    def __init__(self, w: World, fd: int):
        self.w, self.fd, self.n = w, fd, 0
        self.d = None
        self.selected = None

    def cmd(self, line: bytes, note: dict | None = None):
        if self.d is None or self.d.dead or self.d.c.done:
            self.n += 1
            self.selected = None
            self.d = Driver(self.w, 'a%d' % self.n, self.fd)
            cond, _r, _raw = self.d.cmd(b'LOGIN %s %s' % (USER.encode(), PASSWORD.encode()),
                                        {'ab': ['Login']})
            if cond != 'OK':
                return 'NONE', [], b''
        return self.d.cmd(line, note)


def play(w: World, history: list, nonce: str, fd: int) -> None:
    """concretise the abstract history.  The addresses (UIDs) come from the server's own
    acknowledgements; the same rule is applied by the parent when it reads the log."""
    loc: dict = {}          # (folder, msg index) -> uid, from APPENDUID / COPYUID
    nmsg = 0
    d = _Sess(w, fd)
    d.cmd(b'NOOP', {'ab': ['Noop']})

    def select(f):
        if d.selected != f or d.d.dead:
            cond, _r, _raw = d.cmd(b'SELECT ' + _astring(f), {'ab': ['Select', f]})
            d.selected = f if cond == 'OK' else None
        return d.selected == f

    for step in history:
        op = step[0]
        note = {'ab': list(step)}
        if op == 'Append':
            _, f, flags = step
            nmsg += 1
            body = message_body(nmsg, nonce)
            fl = ' '.join(flags)
            cond, resps, _raw = d.cmd(b'APPEND %s (%s) {%d+}\r\n%s' % (_astring(f), fl.encode(),
                                                                       len(body), body),
                                      dict(note, m=nmsg))
            code = _resp_code(resps, 'APPENDUID')
            if cond == 'OK' and code:
                loc[(f, nmsg)] = int(code[1])
        elif op in ('Store', 'Copy', 'Move'):
            f, m = step[1], step[2]
            if not select(f):
                continue
            uid = loc.get((f, m))
            if uid is None:
                os.write(fd, (json.dumps({'k': 'skip', 'ab': list(step)}) + '\n').encode())
                continue
            if op == 'Store':
                mode, flag = step[3], step[4]
                sign = {'add': b'+', 'del': b'-', 'set': b''}[mode]
                d.cmd(b'UID STORE %d %sFLAGS (%s)' % (uid, sign, flag.encode()),
                      dict(note, uid=uid))
            else:
                g = step[3]
                cond, resps, _raw = d.cmd(b'UID %s %d %s' % (op.upper().encode(), uid, _astring(g)),
                                          dict(note, uid=uid))
                code = _resp_code(resps, 'COPYUID')
                if cond == 'OK' and code:
                    try:
                        loc[(g, m)] = int(code[2])
                    except Exception:
                        pass
                    if op == 'Move':
                        loc.pop((f, m), None)
        elif op == 'Select':
            select(step[1])
        elif op == 'Expunge':
            if select(step[1]):
                d.cmd(b'EXPUNGE', note)
        elif op == 'Check':
            if select(step[1]):
                d.cmd(b'CHECK', note)
        elif op == 'Create':
            d.cmd(b'CREATE ' + _astring(step[1]), note)
        elif op == 'Rename':
            cond, _r, _raw = d.cmd(b'RENAME %s %s' % (_astring(step[1]), _astring(step[2])), note)
            if cond == 'OK':
                a, b = step[1], step[2]
                for (f, m), u in list(loc.items()):
                    if f == a or f.startswith(a + '/'):
                        loc[(b + f[len(a):], m)] = loc.pop((f, m))
                if d.selected is not None and (d.selected == a or d.selected.startswith(a + '/')):
                    d.selected = None
        elif op == 'Subscribe':
            d.cmd(b'SUBSCRIBE ' + _astring(step[1]), note)
        elif op == 'Unsubscribe':
            d.cmd(b'UNSUBSCRIBE ' + _astring(step[1]), note)
        elif op == 'Logout':
            d.cmd(b'LOGOUT', note)
            return
        else:
            raise ValueError(step)


def child_dump(cfg: Cfg, run_dir: str, tmp_dir: str, out_path: str, nonce: str,
               trace_path: str | None = None) -> None:
    """the restarted server; never returns"""
    code = 0
    out: dict = {'cmds': [], 'boxes': [], 'folders': None, 'subs': None}
    try:
        signal.alarm(60)
        _set_tmp(tmp_dir)
        tr = None
        if trace_path:
            fd = os.open(trace_path, os.O_WRONLY | os.O_CREAT | os.O_APPEND, 0o600)
            tr = Tracer(fd, None, os.path.join(run_dir, USER), tmp_dir)
            tr.install()
            tr.on = True
        w = World('maildir', users={USER: PASSWORD}, layout=cfg.layout, maildir_dir=run_dir,
                  config_kw={'_provision': False})
        d = Driver(w, 'r')

        def note(cmd, f, cond, resps, raw):
            bug = b'SERVERBUG' in raw.upper() or b'[UNAVAILABLE]' in raw.upper()
            bye = any(_is_bye(r) for r in resps)
            out['cmds'].append({'cmd': cmd, 'f': f, 'cond': cond, 'bug': bool(bug or bye),
                                'raw': raw[-160:].decode('latin-1') if cond != 'OK' else ''})

        def relogin():
            nonlocal d
            if d.dead or d.c.done:
                d = Driver(w, 'r%d' % len(out['cmds']))
                d.cmd(b'LOGIN %s %s' % (USER.encode(), PASSWORD.encode()))

        cond, resps, raw = d.cmd(b'LOGIN %s %s' % (USER.encode(), PASSWORD.encode()))
        note('LOGIN', '', cond, resps, raw)
        cond, resps, raw = d.cmd(b'LIST "" *')
        note('LIST', '', cond, resps, raw)
        if cond == 'OK':
            # \Noselect names (a parent that is not itself a mailbox) are not mailboxes
            out['folders'] = [_list_name(r) for r in resps
                              if r.kind == 'untagged' and r.name == b'LIST'
                              and not any(_val(a).lower() == b'\\noselect' for a in r.data[0])]
        relogin()
        cond, resps, raw = d.cmd(b'LSUB "" *')
        note('LSUB', '', cond, resps, raw)
        if cond == 'OK':
            out['subs'] = [_list_name(r) for r in resps
                           if r.kind == 'untagged' and r.name == b'LSUB']
        for f in (out['folders'] or ['INBOX']):
            box = {'f': f, 'v': None, 'uidnext': None, 'msgs': None, 'probe': None}
            out['boxes'].append(box)
            fb = _astring(f)
            relogin()
            cond, resps, raw = d.cmd(b'STATUS %s (MESSAGES UIDNEXT UIDVALIDITY)' % fb)
            note('STATUS', f, cond, resps, raw)
            for r in resps:
                if r.kind == 'untagged' and r.name == b'STATUS':
                    box['status'] = _status_items(r)
            relogin()
            cond, resps, raw = d.cmd(b'EXAMINE ' + fb)
            note('EXAMINE', f, cond, resps, raw)
            if cond != 'OK':
                continue
            c_ = _resp_code(resps, 'UIDVALIDITY')
            if c_:
                box['v'] = int(c_[0])
            c_ = _resp_code(resps, 'UIDNEXT')
            if c_:
                box['uidnext'] = int(c_[0])
            cond, resps, raw = d.cmd(b'UID FETCH 1:* (UID FLAGS BODY.PEEK[])')
            note('FETCH', f, cond, resps, raw)
            if cond == 'OK':
                box['msgs'] = [_fetch_items(r) for r in resps
                               if r.kind == 'untagged' and r.name == b'FETCH']
            # the restarted server must also be able to write: SELECT + one APPEND
            relogin()
            cond, resps, raw = d.cmd(b'SELECT ' + fb)
            note('SELECT', f, cond, resps, raw)
            body = message_body(900 + len(out['boxes']), nonce)
            relogin()
            cond, resps, raw = d.cmd(b'APPEND %s {%d+}\r\n%s' % (fb, len(body), body))
            note('APPEND', f, cond, resps, raw)
            code_ = _resp_code(resps, 'APPENDUID')
            if cond == 'OK' and code_:
                box['probe'] = {'v': int(code_[0]), 'uid': int(code_[1]),
                                'c': 900 + len(out['boxes'])}
    except BaseException:
        code = 3
        out['harness_exc'] = traceback.format_exc()[-1500:]
    try:
        with open(out_path, 'w') as f:
            json.dump(out, f)
    except Exception:
        code = 3
    os._exit(code)


def _astring(name: str) -> bytes:
    b = name.encode()
    if b and all(c > 32 and c < 127 and c not in b'(){%*"\\' for c in b):
        return b
    return b'"' + b.replace(b'\\', b'\\\\').replace(b'"', b'\\"') + b'"'


def _list_name(r) -> str:
    return _val(r.data[-1]).decode('latin-1')


def _status_items(r) -> dict:
    return {k.decode().upper(): v for k, v in r.data[1].items() if isinstance(v, int)}


def _fetch_items(r) -> dict:
    uid, flags, body = None, [], b''
    for k, v in r.data.items():
        kk = k.decode().upper()
        if kk == 'UID':
            uid = int(v)
        elif kk == 'FLAGS':
            flags = sorted(_val(x).decode() for x in v)
        elif kk.startswith('BODY['):
            body = _val(v) or b''
    return {'uid': uid, 'fl': flags, 'body': body.decode('latin-1')}


# ---------------------------------------------------------------------------------------
# forking


def fork_call(fn, *args, timeout: float = 90.0) -> int:
    """run fn(*args) in a forked child; returns the exit status (137 = killed at the crash
    point, -N = signal N)"""
    sys.stdout.flush()
    sys.stderr.flush()
    pid = os.fork()
    if pid == 0:
        try:
            signal.alarm(int(timeout))
            fn(*args)
        finally:
            os._exit(4)
    # every child arms its own signal.alarm(): a hung child dies of SIGALRM
    _wpid, status = os.waitpid(pid, 0)
    if os.WIFSIGNALED(status):
        return -os.WTERMSIG(status)
    return os.WEXITSTATUS(status)


def read_log(path: str) -> list:
    out = []
    try:
        with open(path, 'rb') as f:
            for ln in f:
                try:
                    out.append(json.loads(ln))
                except Exception:
                    pass            # a torn last line cannot happen (single os.write), be lenient
    except FileNotFoundError:
        pass
    return out


def age_locks(run_dir: str) -> list:
    """stale *.lock files left by the kill: make them older than FileLock's expiry"""
    aged = []
    old = time.time() - LOCK_EXPIRY - 100
    for root, _dirs, files in os.walk(run_dir):
        for fn in files:
            if fn.endswith('.lock'):
                p = os.path.join(root, fn)
                try:
                    os.utime(p, (old, old))
                    aged.append(os.path.relpath(p, run_dir))
                except OSError:
                    pass
    return aged


def make_template(cfg: Cfg, path: str, same_tmp: str, virgin: bool) -> None:
    """provisioned store (users files); unless `virgin`, also one session that logged in and
    selected INBOX (user directory + INBOX uidlist exist).  Runs in a child with the temp
    directory on the store's filesystem (provisioning itself fails otherwise: see the
    TempDirOtherFilesystemEXDEV probe)."""
    def build():
        try:
            _set_tmp(same_tmp)
            w = World('maildir', users={USER: PASSWORD}, layout=cfg.layout, maildir_dir=path)
            if not virgin:
                d = Driver(w, 'a')
                d.cmd(b'LOGIN %s %s' % (USER.encode(), PASSWORD.encode()))
                d.cmd(b'SELECT INBOX')
                d.cmd(b'LOGOUT')
            os._exit(0)
        except BaseException:
            traceback.print_exc()
            os._exit(3)
    st = fork_call(build)
    if st != 0:
        raise RuntimeError(f'template for {cfg.name} could not be built (status {st})')


def copy_template(template: str, dest: str) -> None:
    shutil.copytree(template, dest, symlinks=True)


# ---------------------------------------------------------------------------------------
# one job = one history on one configuration: clean run + every crash point + restarts


def universe(history: list) -> list:
    """folder names the history can bring into existence"""
    names = ['INBOX']
    for st in history:
        for x in st[1:]:
            if isinstance(x, str) and not x.startswith('\\') and x not in ('add', 'del', 'set') \
                    and x not in names:
                names.append(x)
    changed = True
    while changed:
        changed = False
        for st in history:
            if st[0] == 'Rename':
                a, b = st[1], st[2]
                for n in list(names):
                    if n == a or n.startswith(a + '/'):
                        m = b + n[len(a):]
                        if m not in names:
                            names.append(m)
                            changed = True
    return names


def rename_pairs(history_names: list, a: str, b: str) -> list:
    return [[n, b + n[len(a):]] for n in history_names if n == a or n.startswith(a + '/')]


def split_commands(log: list) -> list:
    """[(sent record, [ops], raw output bytes)] in order"""
    cmds = []
    cur = None
    for rec in log:
        k = rec.get('k')
        if k == 'sent':
            cur = {'sent': rec, 'ops': [], 'out': b'', 'errs': []}
            cmds.append(cur)
        elif cur is None:
            continue
        elif k == 'op':
            cur['ops'].append(rec)
        elif k == 'operr':
            cur['errs'].append(rec)
        elif k == 'out':
            cur['out'] += rec['d'].encode('latin-1')
    return cmds


def tagged(cmd: dict):
    """(cond | None, parsed responses) of one logged command"""
    raw = cmd['out']
    tag = cmd['sent']['tag'].encode()
    # the stream may hold the greeting of a reconnect before the command's own output
    try:
        resps = rp.parse_stream(raw)
    except rp.Malformed:
        cut = raw.rfind(b'\r\n')
        try:
            resps = rp.parse_stream(raw[:cut + 2]) if cut >= 0 else []
        except rp.Malformed:
            resps = []
    for r in resps:
        if r.kind == 'tagged' and r.tag == tag:
            return r.cond.decode(), resps
    return None, resps


def imap_flags(fl) -> list:
    return sorted(x for x in fl if x.lower() != '\\recent')


class Abstraction:
    """log + dump of ONE run -> the event list for Trace_Maildir.tla"""

    def __init__(self, cfg: Cfg, history: list, nonce: str, user_dir: str, tmp_dir: str):
        self.cfg = cfg
        self.history = history
        self.names = universe(history)
        self.user_dir = os.path.realpath(user_dir)
        self.tmp_dir = os.path.realpath(tmp_dir)
        self.vals: list = []
        self.temps: set = set()
        self.contents = {}
        for i in list(range(1, 16)) + list(range(900, 930)):
            self.contents[norm_content(message_body(i, nonce))] = i

    def vidx(self, v) -> int:
        if v is None:
            return 0
        if v not in self.vals:
            self.vals.append(v)
        return self.vals.index(v) + 1

    def cid(self, body: bytes) -> int:
        n = norm_content(body)
        if n in self.contents:
            return self.contents[n]
        if n.strip() == b'':
            return 0                 # hollow: header-less, body-less
        return 999                   # something else

    def note_log(self, log: list) -> None:
        for rec in log:
            if rec.get('k') == 'temp':
                self.temps.add(rec['p'])
                self.temps.add(os.path.realpath(rec['p']))

    def label(self, op: dict) -> str:
        return op_label(op, self.user_dir, self.tmp_dir, self.cfg.layout, self.temps)[0]

    def events(self, log: list, dump: dict | None, aged: list, ctl: list, k,
               dump_log: list | None = None, halfmade: list | None = None) -> tuple[list, dict]:
        ev: list = []
        info = {'acks': 0, 'inflight': None, 'killed_before': None, 'after': None,
                'exdev': False, 'bye_in_history': 0}
        self.note_log(log)
        cmds = split_commands(log)
        for cmd in cmds:
            cond, resps = tagged(cmd)
            ab = cmd['sent'].get('ab') or ['?']
            op = ab[0]
            if any(e.get('errno') == 18 for e in cmd['errs']):
                info['exdev'] = True
            if cond is None:
                last = cmd is cmds[-1]
                if any(_is_bye(r) for r in resps) or not last:
                    info['bye_in_history'] += 1       # the server hung up (C06's business)
                    ev.append({'e': 'hungup', 'op': op.lower(),
                               'exdev': any(e.get('errno') == 18 for e in cmd['errs'])})
                    continue
                e = self._cmd_event('inflight', cmd, ab, resps)
                info['inflight'] = op
                if e:
                    ev.append(e)
                continue
            if cond != 'OK':
                continue
            e = self._cmd_event('ack', cmd, ab, resps)
            if e:
                ev.append(e)
                info['acks'] += 1
        ops = [r for r in log if r.get('k') == 'op']
        if ops and ops[-1].get('killed'):
            info['killed_before'] = self.label(ops[-1])
            info['after'] = self.label(ops[-2]) if len(ops) > 1 else 'start'
        ev.append({'e': 'crash', 'k': -1 if k is None else k,
                   'before': info['killed_before'] or 'end', 'after': info['after'] or 'start'})
        ev.append({'e': 'restart', 'aged': len(aged), 'ctl': ctl, 'halfmade': halfmade or []})
        if dump is not None:
            ev += self._dump_events(dump, dump_log or [], info, halfmade or [])
        return ev, info

    def _cmd_event(self, kind: str, cmd: dict, ab: list, resps: list):
        op = ab[0]
        s = cmd['sent']
        if op == 'Append':
            e = {'e': kind, 'op': 'append', 'f': ab[1], 'c': s.get('m', 0),
                 'fl': imap_flags(ab[2]), 'v': 0, 'uid': 0}
            code = _resp_code(resps, 'APPENDUID')
            if code:
                e['v'], e['uid'] = self.vidx(int(code[0])), int(code[1])
            return e
        if op == 'Store':
            return {'e': kind, 'op': 'store', 'f': ab[1], 'uid': s.get('uid', 0),
                    'mode': ab[3], 'fl': [ab[4]]}
        if op in ('Copy', 'Move'):
            e = {'e': kind, 'op': op.lower(), 'f': ab[1], 'uid': s.get('uid', 0), 'g': ab[3],
                 'v': 0, 'nuid': 0}
            code = _resp_code(resps, 'COPYUID')
            if code:
                e['v'], e['nuid'] = self.vidx(int(code[0])), int(code[2])
            return e
        if op == 'Expunge':
            return {'e': kind, 'op': 'expunge', 'f': ab[1]}
        if op == 'Create':
            return {'e': kind, 'op': 'create', 'f': ab[1]}
        if op == 'Rename':
            return {'e': kind, 'op': 'rename', 'pairs': rename_pairs(self.names, ab[1], ab[2])}
        if op == 'Subscribe':
            return {'e': kind, 'op': 'sub', 'f': ab[1]}
        if op == 'Unsubscribe':
            return {'e': kind, 'op': 'unsub', 'f': ab[1]}
        if kind == 'inflight':
            return {'e': kind, 'op': 'other'}
        return None

    def _dump_events(self, dump: dict, dump_log: list, info: dict, halfmade: list) -> list:
        """A dump command that was not answered OK gets the narrow signature of the cause
        when the failing execution itself shows one (else ''):
          TempDirOtherFilesystemEXDEV  the restarted server's own operation log has an
                        os.rename(<file in TMPDIR> -> control file) that failed with EXDEV
          <Op>CrashBetween:mkdir(..)|mkdir(..)  the kill fell inside the mkdir sequence of a
                        maildir and that directory is (inspected directly) without one of
                        tmp/new/cur, and the failing command addresses that folder"""
        exdev = False
        for rec in dump_log:
            if rec.get('k') == 'operr' and rec.get('errno') == 18:
                exdev = True
        mk = ''
        if info.get('killed_before', '') and info['killed_before'].startswith('mkdir(') \
                and (info.get('after') or '').startswith('mkdir(') and info.get('inflight'):
            mk = f"{info['inflight']}CrashBetween:{info['after']}|{info['killed_before']}"
        served = []
        for c in dump['cmds']:
            ok = c['cond'] == 'OK' and not c['bug']
            sig = ''
            if not ok:
                if exdev and self.cfg.tmp_place == 'other':
                    sig = 'TempDirOtherFilesystemEXDEV'
                elif mk and c['f'] in halfmade:
                    sig = mk
            served.append({'cmd': c['cmd'], 'f': c['f'], 'ok': ok, 'sig': sig})
        if dump.get('harness_exc'):
            served.append({'cmd': 'HARNESS', 'f': '', 'ok': False, 'sig': ''})
        out = [{'e': 'served', 'cmds': served}]
        boxes = []
        for b in dump['boxes']:
            if b.get('msgs') is None:
                continue
            msgs = [{'uid': m['uid'] or 0, 'c': self.cid(m['body'].encode('latin-1')),
                     'fl': imap_flags(m['fl'])} for m in b['msgs']]
            # UIDNEXT as told by STATUS (the FIRST thing asked of the restarted server) and by
            # EXAMINE: both must lie above every UID, so the lower of the two is judged
            nexts = [x for x in (b.get('uidnext'), (b.get('status') or {}).get('UIDNEXT')) if x]
            box = {'f': b['f'], 'v': self.vidx(b['v']), 'next': min(nexts) if nexts else 0,
                   'msgs': msgs, 'probe': []}
            if b.get('probe'):
                box['probe'] = [{'v': self.vidx(b['probe']['v']), 'uid': b['probe']['uid']}]
            boxes.append(box)
        out.append({'e': 'dump', 'folders': dump.get('folders') or [],
                    'listed': dump.get('folders') is not None,
                    'subs': dump.get('subs') or [], 'lsubbed': dump.get('subs') is not None,
                    'boxes': boxes})
        return out


def control_files(run_dir: str, layout: str) -> list:
    """parse every control file directly, independently of pymap: is it readable?"""
    out = []
    ud = os.path.join(run_dir, USER)
    for root, _dirs, files in os.walk(ud):
        for fn in files:
            p = os.path.join(root, fn)
            if fn == 'dovecot-uidlist':
                ok = True
                try:
                    with open(p, 'r') as f:
                        lines = f.read().split('\n')
                    head = lines[0].split()
                    ok = bool(head) and head[0] == '3' and any(t.startswith('V') and t[1:].isdigit() for t in head[1:]) \
                        and any(t.startswith('N') and t[1:].isdigit() for t in head[1:]) \
                        and any(t.startswith('G') for t in head[1:])
                    for ln in lines[1:]:
                        if ln.strip():
                            left, sep, _name = ln.partition(':')
                            ok = ok and bool(sep) and left.split()[0].isdigit()
                except Exception:
                    ok = False
                out.append({'kind': 'uidlist', 'p': os.path.relpath(p, ud), 'ok': ok})
            elif fn == 'subscriptions':
                try:
                    with open(p, 'r') as f:
                        f.read()
                    ok = True
                except Exception:
                    ok = False
                out.append({'kind': 'subscriptions', 'p': os.path.relpath(p, ud), 'ok': ok})
    return out


def half_made(run_dir: str, layout: str) -> list:
    """folder names whose directory exists without one of tmp/new/cur (direct inspection)"""
    ud = os.path.join(run_dir, USER)
    out = []
    if not os.path.isdir(ud):
        return out

    def incomplete(p):
        return not all(os.path.isdir(os.path.join(p, s)) for s in ('tmp', 'new', 'cur'))
    if incomplete(ud):
        out.append('INBOX')
    if layout == '++':
        for e in sorted(os.listdir(ud)):
            p = os.path.join(ud, e)
            if e.startswith('.') and os.path.isdir(p) and incomplete(p):
                out.append(e[1:].replace('.', '/'))
    else:
        for root, dirs, _files in os.walk(ud):
            dirs[:] = [d for d in dirs if d not in ('tmp', 'new', 'cur')]
            for d in sorted(dirs):
                p = os.path.join(root, d)
                if incomplete(p):
                    out.append(os.path.relpath(p, ud))
    return out


_WARM = False


def warm() -> None:
    """pay the lazy imports of the maildir backend once per worker, not once per child"""
    global _WARM
    if _WARM:
        return
    d = tempfile.mkdtemp(prefix='verif.c15.warm.')
    old_tmp, old_env = tempfile.tempdir, os.environ.get('TMPDIR')
    try:
        w = World('maildir', users={USER: PASSWORD}, layout='++', maildir_dir=os.path.join(d, 's'))
        drv = Driver(w, 'a')
        drv.cmd(b'LOGIN %s %s' % (USER.encode(), PASSWORD.encode()))
        drv.cmd(b'SELECT INBOX')
        body = message_body(1, 'warm')
        drv.cmd(b'APPEND INBOX {%d+}\r\n%s' % (len(body), body))
        drv.cmd(b'UID FETCH 1:* (UID FLAGS BODY.PEEK[])')
        drv.cmd(b'LIST "" *')
        drv.cmd(b'STATUS INBOX (MESSAGES)')
        w.close()
    except Exception:
        pass
    finally:
        tempfile.tempdir = old_tmp
        if old_env is None:
            os.environ.pop('TMPDIR', None)
        shutil.rmtree(d, ignore_errors=True)
    _WARM = True


def run_job(job: dict) -> dict:
    """executed in a pool worker.  job: {cfg: (layout, place, store_root, tmp_root, same_tmp),
    history, hid, nonce, virgin, points: None | [k...]}"""
    layout, place, store_root, tmp_root, same_tmp = job['cfg']
    cfg = Cfg(layout, place, store_root, tmp_root)
    history = [tuple(s) for s in job['history']]
    nonce = job['nonce']
    virgin = job['virgin']
    warm()
    work = tempfile.mkdtemp(prefix='verif.c15.job.', dir=store_root)
    res = {'hid': job['hid'], 'cfg': cfg.name, 'traces': [], 'L': 0, 'machinery': [],
           'clean_ops': [], 'aged_total': 0, 'aged_runs': 0, 'prefix_mismatch': 0,
           'dump_wall': 0.0, 'run_wall': 0.0}
    try:
        tpl = job['template_virgin'] if virgin else job['template']
        ab = Abstraction(cfg, history, nonce, os.path.join(work, 'r', USER), tmp_root)

        def one(k):
            rd = os.path.join(work, 'r')
            shutil.rmtree(rd, ignore_errors=True)
            copy_template(tpl, rd)
            log_path = os.path.join(work, 'log')
            dump_path = os.path.join(work, 'dump')
            dlog_path = os.path.join(work, 'dlog')
            for p in (log_path, dump_path, dlog_path):
                try:
                    os.unlink(p)
                except FileNotFoundError:
                    pass
            t0 = time.time()
            st = fork_call(child_run, cfg, rd, tmp_root, history, k, log_path, nonce, virgin)
            res['run_wall'] += time.time() - t0
            log = read_log(log_path)
            ab.note_log(log)
            if k is None and st != 0:
                res['machinery'].append(f'clean run of history {job["hid"]} exited {st}: '
                                        + str([r for r in log if r.get('k') == 'harness-exc'])[:600])
                return None, log
            if k is not None and st not in (137, 0):
                res['machinery'].append(f'crash run k={k} of history {job["hid"]} exited {st}: '
                                        + str([r for r in log if r.get('k') == 'harness-exc'])[:600])
                return None, log
            ctl = control_files(rd, layout)
            hm = half_made(rd, layout)
            aged = age_locks(rd) if job.get('age_locks', True) else []
            if aged:
                res['aged_total'] += len(aged)
                res['aged_runs'] += 1
            t0 = time.time()
            st2 = fork_call(child_dump, cfg, rd, tmp_root, dump_path, nonce,
                            dlog_path if place == 'other' else None)
            res['dump_wall'] += time.time() - t0
            try:
                with open(dump_path) as f:
                    dump = json.load(f)
            except Exception:
                dump = None
            if dump is None or st2 not in (0,):
                res['machinery'].append(f'dump after k={k} of history {job["hid"]} exited {st2}: '
                                        + str((dump or {}).get('harness_exc'))[:600])
                return None, log
            ev, info = ab.events(log, dump, aged, ctl, k, read_log(dlog_path), hm)
            return {'k': -1 if k is None else k, 'events': ev, 'info': info, 'aged': aged,
                    'failed_cmds': [c for c in dump['cmds'] if c['cond'] != 'OK' or c['bug']][:6]}, log

        tr, log = one(None)
        if tr is None:
            return res
        ops = [r for r in log if r.get('k') == 'op']
        L = len(ops)
        res['L'] = L
        res['clean_ops'] = [ab.label(o) for o in ops]
        res['clean_cmds'] = [[c['sent'].get('ab'), [ab.label(o) for o in c['ops']]]
                             for c in split_commands(log)]
        res['traces'].append(tr)
        points = job.get('points')
        for k in (range(L) if points is None else points):
            if k >= L:
                continue
            tr, klog = one(k)
            if tr is None:
                continue
            kops = [ab.label(o) for o in klog if o.get('k') == 'op']
            if kops != res['clean_ops'][:k + 1]:
                res['prefix_mismatch'] += 1
            res['traces'].append(tr)
    except Exception:
        res['machinery'].append('job failed: ' + traceback.format_exc()[-1200:])
    finally:
        shutil.rmtree(work, ignore_errors=True)
    return res


# ---------------------------------------------------------------------------------------
# two measured observations that are recorded in the evidence


def provisioning_probe(layout: str, store_root: str, other_tmp: str) -> dict:
    """creating the first user with the temp directory on another filesystem"""
    work = tempfile.mkdtemp(prefix='verif.c15.prov.', dir=store_root)
    out_path = os.path.join(work, 'out.json')

    def child():
        res = {'ok': False, 'errno': None, 'exc': ''}
        try:
            _set_tmp(other_tmp)
            World('maildir', users={USER: PASSWORD}, layout=layout,
                  maildir_dir=os.path.join(work, 'store'))
            res['ok'] = True
        except OSError as exc:
            res['errno'] = exc.errno
            res['exc'] = repr(exc)[:200]
        except BaseException as exc:
            res['exc'] = repr(exc)[:200]
        with open(out_path, 'w') as f:
            json.dump(res, f)
        os._exit(0)
    try:
        fork_call(child)
        with open(out_path) as f:
            res = json.load(f)
        res['st_dev_store'] = os.stat(store_root).st_dev
        res['st_dev_tmp'] = os.stat(other_tmp).st_dev
        res['leaked_temp_files'] = len([x for x in os.listdir(other_tmp) if x.startswith('tmp')])
        return res
    except Exception as exc:
        return {'ok': False, 'errno': None, 'exc': 'probe failed: ' + repr(exc)}
    finally:
        shutil.rmtree(work, ignore_errors=True)


def stale_lock_probe(job_base: dict) -> dict:
    """kill while dovecot-uidlist.lock is held, restart WITHOUT ageing the lock"""
    hist = [['Append', 'INBOX', []]]
    j0 = dict(job_base, history=hist, hid=-1, virgin=False, points=[])
    r0 = run_job(j0)
    ops = r0.get('clean_ops') or []
    ks = [i for i in range(1, len(ops)) if ops[i - 1] == 'open-x(uidlist.lock)'
          and ops[i].startswith('mktemp')]
    if not ks:
        return {'measured': False, 'why': 'no lock-holding crash point found', 'ops': ops}
    j1 = dict(j0, points=[ks[0]], age_locks=False)
    r1 = run_job(j1)
    tr = r1['traces'][-1] if len(r1['traces']) > 1 else None
    if tr is None:
        return {'measured': False, 'why': str(r1['machinery'])[:300]}
    served = next(e for e in tr['events'] if e['e'] == 'served')
    failed = [f"{c['cmd']} {c['f']}" for c in served['cmds'] if not c['ok']]
    j2 = dict(j0, points=[ks[0]], age_locks=True)
    r2 = run_job(j2)
    tr2 = r2['traces'][-1]
    served2 = next(e for e in tr2['events'] if e['e'] == 'served')
    return {'measured': True, 'kill_before_op': ks[0], 'op': ops[ks[0]],
            'without_ageing_failed_commands': failed,
            'without_ageing_answers': [c.get('raw', '')[:80] for c in tr.get('failed_cmds', [])][:3],
            'after_ageing_failed_commands': [f"{c['cmd']} {c['f']}" for c in served2['cmds']
                                             if not c['ok']],
            'expiry_s': LOCK_EXPIRY}


# =======================================================================================
# C14, maildir half (harness/checks/c14.py): ONE command under test, killed before every
# filesystem operation of THAT command.  Everything below was added for C14; nothing above
# is changed and C15 does not use it.
#
# A history (JSON-able):
#   {'seed':   [[folder, [flags]], ...]   message i (1-based) = message_body(i, nonce)
#    'select': folder the session under test has selected,
#    'other':  None | ['Store', cid, flag] | ['Append', folder, [flags]]   a SECOND session's
#              complete command, after the first session's SELECT (its message is cid 8),
#    'cut':    the command under test
#              ['Move'|'Copy', uid?, form, [cids], destination]   form: list | range | star | none
#              ['Append', destination, n, [flags]]                 its messages are cids 11..
#              ['Expunge'] | ['UidExpunge', form, [cids]] | ['Close'] | ['Raw', text]
#    'readonly': the session EXAMINEs instead of SELECTing (optional)}
# The store is seeded ONCE per history (child_seed, no tracer); every crash run starts from a
# copy of the seeded directory, replays the prelude (LOGIN, SELECT, the other session's
# command) with the tracer off, then counts filesystem operations from 0 while the command
# under test runs.  kill_at = 'pre' stops before the command is sent: the restart dump of
# that directory is the state the command started from.

OTHER_CID = 8
APPEND_CID0 = 11
FOLDERS14 = ('INBOX', 'Box')


def compact_set(nums: list) -> str:
    return ','.join(str(n) for n in nums)


def expand_set(s: str) -> list:
    """'1:3,7' -> [1, 2, 3, 7] (the sets of a COPYUID code: no '*')"""
    out = []
    for part in s.split(','):
        if ':' in part:
            a, b = part.split(':', 1)
            a, b = int(a), int(b)
            out += list(range(min(a, b), max(a, b) + 1))
        elif part:
            out.append(int(part))
    return out


def cut_cids(hist: dict) -> list:
    """content ids the command under test names (moved / copied / appended / expunged by UID)"""
    cut = hist['cut']
    if cut[0] in ('Move', 'Copy'):
        return list(cut[3])
    if cut[0] == 'Append':
        return [APPEND_CID0 + i for i in range(cut[2])]
    if cut[0] == 'UidExpunge':
        return list(cut[2])
    return []


def cut_line(hist: dict, loc: dict, nonce: str) -> bytes:
    """the command under test as IMAP text.  loc: cid -> [folder, uid] from the seeding
    session's APPENDUIDs; sequence numbers are positions in the selected folder as the
    session's SELECT saw it (the seeded messages, in UID order)."""
    cut = hist['cut']
    sel = hist['select']
    view = sorted(u for _c, (f, u) in loc.items() if f == sel)

    def addr(um, form, cids):
        uids = sorted(loc[c][1] for c in cids)
        nums = uids if um else [view.index(u) + 1 for u in uids]
        if form == 'star':
            return '1:*'
        if form == 'none':
            return '97' if um else '%d' % (len(view) + 4)
        if form == 'range':
            return f'{min(nums)}:{max(nums)}'
        return compact_set(nums)
    op = cut[0]
    if op in ('Move', 'Copy'):
        _, um, form, cids, dst = cut
        return b'%s%s %s %s' % (b'UID ' if um else b'', op.upper().encode(),
                                addr(um, form, cids).encode(), _astring(dst))
    if op == 'Append':
        _, dst, n, flags = cut
        out = b'APPEND ' + _astring(dst)
        for i in range(n):
            body = message_body(APPEND_CID0 + i, nonce)
            fl = (b' (' + ' '.join(flags).encode() + b')') if flags else b''
            out += fl + b' {%d+}\r\n' % len(body) + body
        return out
    if op == 'Expunge':
        return b'EXPUNGE'
    if op == 'UidExpunge':
        return b'UID EXPUNGE ' + addr(True, cut[1], cut[2]).encode()
    if op == 'Close':
        return b'CLOSE'
    if op == 'Raw':
        return cut[1].encode()
    raise ValueError(cut)


def child_seed(cfg: Cfg, run_dir: str, tmp_dir: str, hist: dict, out_path: str,
               nonce: str) -> None:
    """seeding session on a provisioned store: CREATE Box, one APPEND per seed message;
    writes {cid: [folder, uid]}.  Never returns."""
    code = 0
    loc: dict = {}
    try:
        signal.alarm(60)
        _set_tmp(tmp_dir)
        w = World('maildir', users={USER: PASSWORD}, layout=cfg.layout, maildir_dir=run_dir,
                  config_kw={'_provision': False})
        d = Driver(w, 's')
        d.cmd(b'LOGIN %s %s' % (USER.encode(), PASSWORD.encode()))
        d.cmd(b'CREATE Box')
        for i, (f, flags) in enumerate(hist['seed'], 1):
            body = message_body(i, nonce)
            cond, resps, _raw = d.cmd(b'APPEND %s (%s) {%d+}\r\n%s' % (
                _astring(f), ' '.join(flags).encode(), len(body), body))
            c_ = _resp_code(resps, 'APPENDUID')
            if cond != 'OK' or not c_:
                raise RuntimeError(f'seeding APPEND {i} answered {cond}')
            loc[i] = [f, int(c_[1])]
        d.cmd(b'LOGOUT')
    except BaseException:
        code = 3
        loc = {'harness_exc': traceback.format_exc()[-1500:]}
    try:
        with open(out_path, 'w') as fp:
            json.dump(loc, fp)
    except Exception:
        code = 3
    os._exit(code)


def child_cut(cfg: Cfg, run_dir: str, tmp_dir: str, hist: dict, loc: dict, kill_at,
              log_path: str, nonce: str) -> None:
    """prelude (tracer off), then the command under test with the tracer counting from 0;
    kill_at: None (run to the end) | 'pre' (stop before the command is sent) | k |
    ['fail', k, errno] (operation k raises OSError(errno) instead of being performed; the
    process goes on to the end).  Never returns."""
    code = 0
    fd = -1
    try:
        signal.alarm(60)
        _set_tmp(tmp_dir)
        fd = os.open(log_path, os.O_WRONLY | os.O_CREAT | os.O_APPEND, 0o600)
        tr = Tracer(fd, kill_at if isinstance(kill_at, int) else None,
                    os.path.join(run_dir, USER), tmp_dir,
                    fail=(kill_at[1], kill_at[2]) if isinstance(kill_at, (list, tuple)) else None)
        tr.install()
        w = World('maildir', users={USER: PASSWORD}, layout=cfg.layout, maildir_dir=run_dir,
                  config_kw={'_provision': False})
        login = b'LOGIN %s %s' % (USER.encode(), PASSWORD.encode())
        a = Driver(w, 'a', fd)
        sel_cmd = b'EXAMINE ' if hist.get('readonly') else b'SELECT '
        for line in (login, sel_cmd + _astring(hist['select'])):
            cond, _r, _raw = a.cmd(line, {'ab': ['Prelude']})
            if cond != 'OK':
                raise RuntimeError(f'prelude {line[:20]!r} answered {cond}')
        other = hist.get('other')
        if other:
            b = Driver(w, 'b', fd)
            lines = [login]
            if other[0] == 'Store':
                f, uid = loc[other[1]]
                lines += [b'SELECT ' + _astring(f),
                          b'UID STORE %d +FLAGS (%s)' % (uid, other[2].encode())]
            elif other[0] == 'Append':
                body = message_body(OTHER_CID, nonce)
                lines += [b'APPEND %s (%s) {%d+}\r\n%s' % (
                    _astring(other[1]), ' '.join(other[2]).encode(), len(body), body)]
            else:
                raise ValueError(other)
            for line in lines:
                cond, _r, _raw = b.cmd(line, {'ab': ['Prelude']})
                if cond != 'OK':
                    raise RuntimeError(f'other session {line[:20]!r} answered {cond}')
        if kill_at != 'pre':
            line = cut_line(hist, loc, nonce)
            tr.n = 0
            tr.on = True
            a.cmd(line, {'ab': ['Cut'], 'cut': True})
            tr.on = False
        os.write(fd, b'{"k": "end"}\n')
    except SystemExit:
        raise
    except BaseException:
        code = 3
        try:
            os.write(fd, (json.dumps({'k': 'harness-exc', 'tb': traceback.format_exc()[-1500:]})
                          + '\n').encode())
        except Exception:
            pass
    os._exit(code)


def child_dump_boxes(cfg: Cfg, run_dir: str, tmp_dir: str, out_path: str) -> None:
    """the restarted server, read only: LIST, per mailbox EXAMINE + UID FETCH 1:* (UID FLAGS
    BODY.PEEK[]).  Never returns."""
    code = 0
    out: dict = {'folders': None, 'boxes': [], 'failed': []}
    try:
        signal.alarm(60)
        _set_tmp(tmp_dir)
        w = World('maildir', users={USER: PASSWORD}, layout=cfg.layout, maildir_dir=run_dir,
                  config_kw={'_provision': False})
        n = 0
        d = Driver(w, 'r')
        login = b'LOGIN %s %s' % (USER.encode(), PASSWORD.encode())

        def cmd(line):
            nonlocal d, n
            if d.dead or d.c.done:
                n += 1
                d = Driver(w, 'r%d' % n)
                d.cmd(login)
            cond, resps, raw = d.cmd(line)
            if cond != 'OK':
                out['failed'].append({'cmd': line[:40].decode('latin-1'), 'cond': cond,
                                      'raw': raw[-160:].decode('latin-1')})
            return cond, resps
        cmd(login)
        cond, resps = cmd(b'LIST "" *')
        if cond == 'OK':
            out['folders'] = [_list_name(r) for r in resps
                              if r.kind == 'untagged' and r.name == b'LIST'
                              and not any(_val(x).lower() == b'\\noselect' for x in r.data[0])]
        for f in (out['folders'] if out['folders'] is not None else list(FOLDERS14)):
            box = {'f': f, 'ok': False, 'msgs': []}
            out['boxes'].append(box)
            cond, resps = cmd(b'EXAMINE ' + _astring(f))
            if cond != 'OK':
                continue
            cond, resps = cmd(b'UID FETCH 1:* (UID FLAGS BODY.PEEK[])')
            if cond != 'OK':
                continue
            box['ok'] = True
            box['msgs'] = [_fetch_items(r) for r in resps
                           if r.kind == 'untagged' and r.name == b'FETCH']
    except BaseException:
        code = 3
        out['harness_exc'] = traceback.format_exc()[-1500:]
    try:
        with open(out_path, 'w') as fp:
            json.dump(out, fp)
    except Exception:
        code = 3
    os._exit(code)


def boxes_event(kind: str, dump: dict, contents: dict) -> dict:
    """dump -> event: per mailbox the messages as (uid, content id, flags without \\Recent);
    content id 0 = blank, 999 = something the harness never sent"""
    boxes = []
    for b in dump['boxes']:
        msgs = []
        for m in b['msgs']:
            n = norm_content(m['body'].encode('latin-1'))
            c = contents.get(n, 0 if n.strip() == b'' else 999)
            msgs.append({'uid': m['uid'] or 0, 'c': c, 'fl': imap_flags(m['fl'])})
        boxes.append({'f': b['f'], 'ok': bool(b['ok']), 'msgs': msgs})
    return {'e': kind, 'listed': dump.get('folders') is not None, 'boxes': boxes}


def ack_event(cmd: dict | None) -> dict:
    """how the command under test was answered, from the output stream logged write by write
    BEFORE each write reached the connection: a tagged response on record was produced before
    the kill"""
    ev = {'e': 'ack', 'cond': 'NONE', 'code': '', 'pairs': []}
    if cmd is None:
        return ev
    cond, resps = tagged(cmd)
    if cond is None:
        if any(_is_bye(r) for r in resps):
            ev['cond'] = 'BYE'
        return ev
    ev['cond'] = cond
    tag = cmd['sent']['tag'].encode()
    for r in resps:
        if r.kind == 'tagged' and r.tag == tag and _code(r):
            ev['code'] = _code(r)[0]
    cu = _resp_code(resps, 'COPYUID')
    if cu and len(cu) >= 3:
        src, dst = expand_set(cu[1]), expand_set(cu[2])
        if len(src) == len(dst):
            ev['pairs'] = [[s, d] for s, d in zip(src, dst)]
    return ev


_DELIVER = ('link(tmp/msg->new/msg)', 'link(tmp/msg->cur/msg)')


def fail_errnos(label: str, mode: str) -> list:
    """which errors a failing system call of this kind plausibly returns: rename / link between
    directories EXDEV (another filesystem) or ENOSPC (the directory has to grow), creating or
    writing ENOSPC, removing EIO; mode 'all' adds EIO for every kind"""
    op = label.split('(')[0]
    if op in ('rename', 'replace', 'link'):
        out = [errno.EXDEV, errno.ENOSPC]
    elif op in ('creat', 'open-w', 'open-x', 'open-a', 'write', 'mktemp', 'mkdir'):
        out = [errno.ENOSPC]
    else:
        out = [errno.EIO]
    if mode == 'all' and errno.EIO not in out:
        out.append(errno.EIO)
    return out


def run_job14(job: dict) -> dict:
    """executed in a pool worker.  job: {cfg: (layout, store_root, tmp), hist, hid, nonce,
    template (provisioned store, INBOX opened once), points: None (all) | int (sample size),
    pseed}.  One trace per run: [pre, cmd, ack, kill, post]."""
    import random as _random
    layout, store_root, tmp_root = job['cfg']
    cfg = Cfg(layout, 'same', store_root, tmp_root)
    hist = job['hist']
    nonce = job['nonce']
    warm()
    work = tempfile.mkdtemp(prefix='verif.c14.job.', dir=store_root)
    res = {'hid': job['hid'], 'cfg': layout, 'traces': [], 'L': 0, 'machinery': [],
           'clean_ops': [], 'aged_runs': 0, 'prefix_mismatch': 0, 'wall': 0.0, 'sampled': False}
    t_job = time.time()
    try:
        contents = {norm_content(message_body(i, nonce)): i for i in range(1, 20)}
        seeded = os.path.join(work, 'seeded')
        copy_template(job['template'], seeded)
        loc_path = os.path.join(work, 'loc')
        st = fork_call(child_seed, cfg, seeded, tmp_root, hist, loc_path, nonce)
        with open(loc_path) as fp:
            loc = json.load(fp)
        if st != 0 or 'harness_exc' in loc:
            res['machinery'].append(f'seeding of history {job["hid"]} failed ({st}): '
                                    + str(loc.get('harness_exc'))[:600])
            return res
        loc = {int(c): v for c, v in loc.items()}
        rd = os.path.join(work, 'r')
        user_dir = os.path.realpath(os.path.join(rd, USER))
        tmp_real = os.path.realpath(tmp_root)
        temps: set = set()

        def label(op):
            return op_label(op, user_dir, tmp_real, layout, temps)[0]

        def one(k):
            """-> (dump | None, cut command record | None, [labels of its operations])"""
            shutil.rmtree(rd, ignore_errors=True)
            copy_template(seeded, rd)
            log_path = os.path.join(work, 'log')
            dump_path = os.path.join(work, 'dump')
            for p in (log_path, dump_path):
                try:
                    os.unlink(p)
                except FileNotFoundError:
                    pass
            st = fork_call(child_cut, cfg, rd, tmp_root, hist, loc, k, log_path, nonce)
            log = read_log(log_path)
            for rec in log:
                if rec.get('k') == 'temp':
                    temps.add(rec['p'])
                    temps.add(os.path.realpath(rec['p']))
            want = (137,) if isinstance(k, int) else (0,)
            if st not in want and not (isinstance(k, int) and st == 0):
                res['machinery'].append(f'run k={k} of history {job["hid"]} ({layout}) exited {st}: '
                                        + str([r for r in log if r.get('k') == 'harness-exc'])[:600])
                return None, None, []
            aged = age_locks(rd)
            if aged:
                res['aged_runs'] += 1
            st2 = fork_call(child_dump_boxes, cfg, rd, tmp_root, dump_path)
            try:
                with open(dump_path) as fp:
                    dump = json.load(fp)
            except Exception:
                dump = None
            if dump is None or st2 != 0 or dump.get('harness_exc'):
                res['machinery'].append(f'dump after k={k} of history {job["hid"]} exited {st2}: '
                                        + str((dump or {}).get('harness_exc'))[:600])
                return None, None, []
            cmds = split_commands(log)
            cut = next((c for c in cmds if c['sent'].get('cut')), None)
            labels = [label(o) for o in (cut['ops'] if cut else [])]
            dump['aged'] = len(aged)
            return dump, cut, labels

        pre_dump, _c, _l = one('pre')
        if pre_dump is None:
            return res
        if not pre_dump['boxes'] or not all(b['ok'] for b in pre_dump['boxes']):
            res['machinery'].append(f'history {job["hid"]}: the state before the command could not '
                                    f'be dumped: {pre_dump.get("failed")}')
            return res
        pre = boxes_event('pre', pre_dump, contents)
        cut = hist['cut']
        sel = hist['select']
        dst = cut[4] if cut[0] in ('Move', 'Copy') else cut[1] if cut[0] == 'Append' else sel
        cmd_ev = {'e': 'cmd', 'op': {'UidExpunge': 'uidexpunge'}.get(cut[0], cut[0].lower()),
                  'src': sel, 'dst': dst, 'cids': cut_cids(hist),
                  'n': cut[2] if cut[0] == 'Append' else len(cut_cids(hist))}

        def trace(k, dump, cutrec, labels, L):
            if isinstance(k, (list, tuple)):
                # a failing system call: operation k[1] raised OSError(k[2]) and was not
                # performed; whatever the command did afterwards is in labels too
                fk = k[1]
                hit = len(labels) > fk
                done = labels[:fk] + labels[fk + 1:]
                kill = {'e': 'kill', 'kind': 'fail', 'errno': errno.errorcode.get(k[2], str(k[2])),
                        'k': fk if hit else -1, 'L': L,
                        'before': labels[fk] if hit else 'end',
                        'after': (labels[fk - 1] if fk and hit else 'start'),
                        'delivered': sum(1 for x in done if x in _DELIVER)}
                post = boxes_event('post', dump, contents)
                post['aged'] = dump.get('aged', 0)
                return {'k': kill['k'], 'fault': 'fail:' + kill['errno'],
                        'events': [pre, cmd_ev, ack_event(cutrec), kill, post],
                        'failed': dump.get('failed', [])[:4]}
            killed = isinstance(k, int) and bool(labels) and len(labels) == k + 1
            done = labels[:-1] if killed else labels
            kill = {'e': 'kill', 'kind': 'kill', 'errno': '', 'k': k if killed else -1, 'L': L,
                    'before': labels[-1] if killed else 'end',
                    'after': (done[-1] if done else 'start'),
                    'delivered': sum(1 for x in done if x in _DELIVER)}
            post = boxes_event('post', dump, contents)
            post['aged'] = dump.get('aged', 0)
            return {'k': kill['k'], 'fault': 'kill',
                    'events': [pre, cmd_ev, ack_event(cutrec), kill, post],
                    'failed': dump.get('failed', [])[:4]}

        dump, cutrec, labels = one(None)
        if dump is None:
            return res
        L = len(labels)
        res['L'] = L
        res['clean_ops'] = labels
        res['line'] = cut_line(hist, loc, nonce)[:80].decode('latin-1')
        res['traces'].append(trace(None, dump, cutrec, labels, L))
        ks = list(range(L))
        n = job.get('points')
        if n is not None and len(ks) > n:
            ks = sorted(_random.Random(job.get('pseed', 0)).sample(ks, n))
            res['sampled'] = True
        for k in ks:
            dump, cutrec, klabels = one(k)
            if dump is None:
                continue
            if klabels != labels[:k + 1]:
                res['prefix_mismatch'] += 1
            res['traces'].append(trace(k, dump, cutrec, klabels, L))
        # failing system calls: operation k raises an OSError instead of being performed
        if job.get('fail'):
            for k in ks:
                for eno in fail_errnos(labels[k], job['fail']):
                    fk = ['fail', k, eno]
                    dump, cutrec, klabels = one(fk)
                    if dump is None:
                        continue
                    if klabels[:k + 1] != labels[:k + 1]:
                        res['prefix_mismatch'] += 1
                    res['traces'].append(trace(fk, dump, cutrec, klabels, L))
    except Exception:
        res['machinery'].append('job failed: ' + traceback.format_exc()[-1200:])
    finally:
        shutil.rmtree(work, ignore_errors=True)
        res['wall'] = round(time.time() - t_job, 2)
    return res
