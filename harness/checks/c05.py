"""C05 - the connection state machine follows RFC 3501 section 3.

1. TLC checks spec/Conn.tla (Conn_c05.cfg: the complete command alphabet of
   pymap - every built-in command with valid / invalid / missing-mailbox /
   existing-mailbox / read-only-mailbox argument classes, LOGIN and both SASL
   mechanisms, an unknown command, an unparsable line): the model's invariants
   and, on every generated step, the clauses of the property (gates, refused =>
   no effect, SELECT exact / failed SELECT deselects, CLOSE always OK, LOGOUT =
   BYE then OK); and dumps the complete state graph.
2. spec -> code, transition tour: every (state, input) pair of that graph is
   executed on the real server; after every input a characterising set of
   probes (CAPABILITY; LIST: authenticated?; FETCH 1: selected? which
   mailbox?; STORE: rw or ro?) identifies the state the server is in, the
   store is read off the backend, and response class + state + data must be
   one of the successors TLC computed for that input.
3. all input sequences of length <= 2 (thorough: a large sample of length 3)
   from the graph, TLC -simulate behaviours and seeded biased walks of length
   up to 40, tracked the same way.
4. Conn_badlimit.cfg: the default bad-command limit as part of the state.
"""

from __future__ import annotations

import json
import random
import time

from ..common import Run
from .. import tlc
from . import conn_common as cc

CFG = 'Conn_c05.cfg'
NOLIMIT = {'bad_command_limit': None}


def make_driver(env: str, rng, cfg: str = CFG):
    kw = None if cfg == 'Conn_badlimit.cfg' else NOLIMIT
    return cc.ImapDriver(env, rng, rich=True, config_kw=kw)


class Exec:
    """Bookkeeping shared by all kinds of executions."""

    def __init__(self, run: Run, model: cc.Model, cfg: str):
        self.run = run
        self.model = model
        self.cfg = cfg
        self.n = 0
        self.steps = 0
        self.notes: set = set()
        self.nolabel = 0

    def start(self, env: str, kind: str, protocol: bool = True) -> cc.Tracked:
        self.n += 1
        sub = (self.run.seed * 1000003 + self.n) & 0x7fffffff
        rng = random.Random(sub)
        drv = make_driver(env, rng, self.cfg)
        t = cc.Tracked(self.model, drv, {'env': env, 'kind': kind, 'rng_seed': sub},
                       protocol=protocol)
        if t.cur is None:
            self.run.drift.append({'why': 'greeting / initial state matches no initial '
                                          'state of the model', 'env': env,
                                   'observed': cc.obs_str(t.obs0)})
        return t

    def finish(self, t: cc.Tracked) -> None:
        run = self.run
        self.steps += len(t.labels)
        self.notes |= t.d.notes
        out = t.d.outcome()
        if isinstance(out, tuple):
            # connection task died with an exception (C06's business; noted)
            self.notes.add('connection task ended with ' + out[1][:80])
        run.count_exec(t.labels, nontrivial=t.changed)
        if t.problem:
            verdict, what, sig, detail = t.problem
            if verdict == 'violation':
                run.violation(what, t.replay_dict('C05', self.cfg), sig)
            else:
                run.drift.append({'labels': t.labels, 'what': what[:600]})
        if len(run.cov['samples']) < 3 and t.changed and len(t.labels) >= 3:
            run.sample({'env': t.meta['env'], 'kind': t.meta['kind'],
                        'trace': t.trace[:12]})
        t.d.close()


def tour(ex: Exec, max_len: int, deadline: float) -> dict:
    model = ex.model
    pl = cc.Planner(model, None)
    total = pl.left()
    paths = 0
    nav_steps = 0
    while pl.left() and time.time() < deadline:
        init = pl.best_init()
        if init is None:
            break
        env = cc.env_of_init(model, init)[0]
        t = ex.start(env, 'tour')
        paths += 1
        if t.cur is None:
            ex.finish(t)
            break
        if t.cur != init:
            # the server started in another initial state of the model: fine,
            # plan from there
            pass
        while len(t.labels) < max_len and not model.is_closed(t.cur):
            core = model.core_of[t.cur]
            label, cover = pl.choose(core)
            if label is None:
                break
            v = t.step(label, protocol=cover)
            pl.done(core, label)
            if not cover:
                nav_steps += 1
            if v != 'ok':
                break
        ex.finish(t)
    return {'pairs': total, 'uncovered': pl.left(), 'paths': paths,
            'navigation_steps': nav_steps}


def run_labels(ex: Exec, env: str, labels, kind: str, probe_every: int = 1) -> None:
    """probe_every = n: the protocol probes run after every n-th input and
    after the last one; in between the state is read off ConnectionState."""
    t = ex.start(env, kind, protocol=probe_every == 1)
    if t.cur is not None:
        for i, label in enumerate(labels):
            if ex.model.is_closed(t.cur):
                break
            v = t.step(label, protocol=(i + 1) % probe_every == 0 or i + 1 == len(labels))
            if v == 'nolabel':
                ex.nolabel += 1
                break
            if v != 'ok':
                break
    ex.finish(t)


def biased_walk(ex: Exec, env: str, rng, length: int) -> None:
    """Inputs chosen from the graph: half of the time one that changes the
    state in the model."""
    model = ex.model
    t = ex.start(env, 'walk')
    if t.cur is not None:
        for _ in range(length):
            if model.is_closed(t.cur):
                break
            outs = model.out.get(t.cur, {})
            core = model.core_of[t.cur]
            moving = [l for l, ds in sorted(outs.items())
                      if any(model.core_of[x] != core and not model.is_closed(x) for x in ds)]
            if moving and rng.random() < 0.5:
                label = rng.choice(moving)
            else:
                label = rng.choice(sorted(outs))
            if t.step(label) != 'ok':
                break
    ex.finish(t)


def load_model(run: Run, cfg: str):
    try:
        graph, res = tlc.dump_graph('Conn.tla', cfg, workers=8)
    except tlc.TLCError as exc:
        run.machinery(str(exc))
        return None
    run.add_model(res, cfg)
    if not res.ok:
        run.machinery(f'model check of {cfg} failed: {res.violated or res.error}')
        return None
    model = cc.Model(graph)
    bad = model.check_output_independent()
    if bad:
        run.machinery(bad)
        return None
    return model


def main(tier: str) -> int:
    run = Run('C05', tier)
    rng = random.Random(run.seed)
    t0 = time.time()
    run.cov['rule'] = (
        'executions = input sequences run on a fresh in-process pymap server (dict '
        'backend, a store shaped like the demo data of pymap) and tracked through the TLC state graph of Conn.tla: '
        'transition-tour paths, every sequence of length <= 2, TLC -simulate behaviours, '
        'seeded walks; non-trivial = at least one input changed the connection state '
        '(authenticated / selected / closed / TLS); distinct = distinct input sequences')
    run.assumptions += [
        'the server has no more connection states than the model distinguishes '
        '(W-method assumption); hidden state would have to show within the sequences run',
        'dict backend; one connection per server (interference between sessions is '
        "C01/C02/C16's subject)",
        'the consecutive-BAD limit is switched off (bad_command_limit=None) except in '
        'the Conn_badlimit part, which runs the default configuration',
        'TLS is a flag on a fake transport (start_tls is not a real handshake)',
        'pysasl entry-point lookup is memoised in the harness process (speed only)']

    model = load_model(run, CFG)
    if model is None:
        return run.finish()
    run.notes['graph'] = {'nodes': len(model.nodes), 'core_states': len(model.core_nodes),
                          'inputs': len(model.labels),
                          'edges': sum(len(ds) for d in model.out.values() for ds in d.values())}
    try:
        cc.fingerprints()
    except Exception as exc:               # noqa: BLE001
        run.machinery(f'calibration failed: {exc!r}')
        return run.finish()

    quick = tier == 'quick'
    ex = Exec(run, model, CFG)

    # 2. transition tour with state identification after every input
    info = tour(ex, max_len=400, deadline=t0 + (70 if quick else 600))
    run.notes['tour'] = info
    run.notes['tour_wall_s'] = round(time.time() - t0, 1)
    if info['uncovered']:
        run.notes['tour_incomplete'] = info['uncovered']

    # 3a. every input sequence of length <= 2 from each initial state
    t1 = time.time()
    envs = [cc.env_of_init(model, n)[0] for n in model.inits]
    nseq = 0
    for n, env in zip(model.inits, envs):
        seqs = list(cc.label_sequences(model, n, 2))
        if quick and env != 'plain':
            # the TLS-required configuration differs before authentication only:
            # quick tier samples it
            seqs = rng.sample(seqs, min(len(seqs), 1200))
        for labels in seqs:
            run_labels(ex, env, labels, 'seq2', probe_every=2)
            nseq += 1
    run.notes['seq_len2'] = nseq
    # 3b. length 3: sample (quick) / many (thorough), always behind a login so
    # that the sequence runs where the automaton has structure
    logins = [l for l in model.labels if model.parsed[l]['kind'] == 'auth'
              and model.parsed[l]['cred']['k'] == 'right'
              and model.parsed[l]['cred']['z'] == cc.NONE]
    n3 = 1000 if quick else 60000
    labels_all = model.labels
    for _ in range(n3):
        seq = [rng.choice(logins)] + [rng.choice(labels_all) for _ in range(3)]
        run_labels(ex, 'plain', seq, 'login+seq3')
    run.notes['seq_len3_sampled'] = n3
    run.notes['seq_wall_s'] = round(time.time() - t1, 1)

    # 3c. TLC -simulate behaviours and biased walks
    t2 = time.time()
    try:
        behs, sres = tlc.simulate('Conn.tla', CFG, num=150 if quick else 3000,
                                  depth=40, seed=run.seed + 1)
        run.add_model(sres, CFG + ' -simulate')
    except Exception as exc:               # noqa: BLE001
        run.machinery(f'simulation failed: {exc!r}')
        return run.finish()
    for beh in behs:
        labels = [l for l, _ in beh[1:] if l != 'Terminated']
        st0 = beh[0][1]
        env = 'plain' if not st0['stls'] else 'tlsremote'
        run_labels(ex, env, labels, 'simulate')
    run.notes['simulated_behaviours'] = len(behs)
    for i in range(200 if quick else 5000):
        biased_walk(ex, rng.choice(envs), rng, rng.randint(8, 40))
    run.notes['random_wall_s'] = round(time.time() - t2, 1)
    run.notes['steps_on_server'] = ex.steps
    if ex.nolabel:
        run.notes['inputs_outside_constrained_graph'] = ex.nolabel

    # 4. the bad-command limit of the default configuration
    t3 = time.time()
    bmodel = load_model(run, 'Conn_badlimit.cfg')
    if bmodel is not None:
        bex = Exec(run, bmodel, 'Conn_badlimit.cfg')
        bex.n = 500000
        run.notes['badlimit_tour'] = tour_glass(bex, t0 + (85 if quick else 900))
        for i in range(150 if quick else 2000):
            n = bmodel.inits[0]
            t = bex.start('plain', 'badlimit-walk', protocol=False)
            if t.cur is not None:
                for _ in range(rng.randint(5, 25)):
                    if bmodel.is_closed(t.cur):
                        break
                    label = rng.choice(sorted(bmodel.out.get(t.cur, {})))
                    if t.step(label, protocol=False) != 'ok':
                        break
            bex.finish(t)
        ex.notes |= bex.notes
        run.notes['badlimit_wall_s'] = round(time.time() - t3, 1)

    if tier == 'thorough':
        res = tlc.run_tlc('Conn.tla', 'Conn_c05_props.cfg', workers=16, timeout=1500)
        run.add_model(res, 'Conn_c05_props.cfg')
        if not res.ok:
            run.machinery(f'temporal clauses failed: {res.violated or res.error}')

    run.notes['observations'] = sorted(ex.notes)[:12]
    run.cov['exhaustive'] = not info['uncovered']
    run.notes['exhaustive_scope'] = (
        'every (state, input) pair of the Conn_c05 graph (2 initial configurations x '
        'not-authenticated / authenticated / selected x {INBOX rw, INBOX ro, read-only '
        'mailbox, scratch mailbox rw/ro} x data markers) executed with state '
        'identification after each input; every input sequence of length <= 2')
    return run.finish()


def tour_glass(ex: Exec, deadline: float) -> dict:
    """Transition tour without protocol probes (they would reset the counter
    that this configuration is about): state read off ConnectionState."""
    model = ex.model
    pl = cc.Planner(model, None)
    total = pl.left()
    paths = 0
    while pl.left() and time.time() < deadline:
        init = pl.best_init()
        if init is None:
            break
        t = ex.start('plain', 'badlimit-tour', protocol=False)
        paths += 1
        if t.cur is None:
            ex.finish(t)
            break
        while len(t.labels) < 200 and not model.is_closed(t.cur):
            core = model.core_of[t.cur]
            label, cover = pl.choose(core)
            if label is None:
                break
            v = t.step(label, protocol=False)
            pl.done(core, label)
            if v != 'ok':
                break
        ex.finish(t)
    return {'pairs': total, 'uncovered': pl.left(), 'paths': paths}


def replay(path: str) -> int:
    rec = json.load(open(path))
    rep = rec['replay']
    run = Run('C05', 'replay')
    model = load_model(run, rep['cfg'])
    if model is None:
        return 2
    cc.fingerprints()
    rng = random.Random(rep['rng_seed'])
    drv = make_driver(rep['env'], rng, rep['cfg'])
    t = cc.Tracked(model, drv, {'env': rep['env'], 'kind': 'replay',
                                'rng_seed': rep['rng_seed']})
    glass = rep['cfg'] == 'Conn_badlimit.cfg'
    status = 0
    for label in rep['labels']:
        v = t.step(label, protocol=not glass)
        print(f"{label:50s} {t.trace[-1]['observed'] if t.trace else ''}  [{v}]")
        if v != 'ok':
            print('  ', t.problem[1])
            print('   signature:', t.problem[2])
            status = 1 if v == 'violation' else 0
            break
    for d, b in drv.transcript[-12:]:
        print(d, b[:200])
    drv.close()
    return status
