"""C05 - the connection state machine follows RFC 3501 section 3.

1. TLC checks spec/Conn.tla (Conn_c05.cfg: the complete command alphabet of
   pymap - every built-in command with valid / invalid / missing-mailbox /
   existing-mailbox / read-only-mailbox argument classes, LOGIN and both SASL
   mechanisms, an unknown command, an unparsable line): the model's invariants
   and, on every generated step, the clauses of the property (gates, refused =>
   no effect, SELECT exact / failed SELECT deselects, CLOSE always OK, LOGOUT =
   BYE then OK); and dumps the complete state graph.
2. spec -> code, transition tour: every (state, input) pair of that graph is
   executed on the real server; after every input a characterising set of
   probes (CAPABILITY; LIST: authenticated?; FETCH 1: selected? which
   mailbox?; STORE: rw or ro?) identifies the state the server is in, the
   store is read off the backend, and response class + state + data must be
   one of the successors TLC computed for that input.
3. all input sequences of length <= 2 (thorough: a large sample of length 3)
   from the graph, TLC -simulate behaviours and seeded biased walks of length
   up to 40, tracked the same way.
4. Conn_badlimit.cfg: the default bad-command limit as part of the state.
"""

from __future__ import annotations

import json
import random
import time

from ..common import Run
from .. import tlc
from . import conn_common as cc

CFG = 'Conn_c05.cfg'
NOLIMIT = {'bad_command_limit': None}


def make_driver_for(cfg: str):
    kw = None if cfg == 'Conn_badlimit.cfg' else NOLIMIT

    def make(env: str, rng):
        return cc.ImapDriver(env, rng, rich=True, config_kw=kw, users={'user1': 'pass1'})
    return make


def main(tier: str) -> int:
    run = Run('C05', tier)
    rng = random.Random(run.seed)
    t0 = time.time()
    run.cov['rule'] = (
        'executions = input sequences run on a fresh in-process pymap server (dict '
        'backend, a store shaped like the demo data of pymap) and tracked through the TLC state graph of Conn.tla: '
        'transition-tour paths, sequences of length <= 2 (thorough: all; quick: a seeded sample), TLC -simulate behaviours, '
        'seeded walks; non-trivial = at least one input changed the connection state '
        '(authenticated / selected / closed / TLS); distinct = distinct input sequences')
    run.assumptions += [
        'the server has no more connection states than the model distinguishes '
        '(W-method assumption); hidden state would have to show within the sequences run',
        'dict backend; one connection per server (interference between sessions is '
        "C01/C02/C16's subject)",
        'the consecutive-BAD limit is switched off (bad_command_limit=None) except in '
        'the Conn_badlimit part, which runs the default configuration',
        'TLS is a flag on a fake transport (start_tls is not a real handshake)',
        'pysasl entry-point lookup is memoised in the harness process (speed only)']

    model = cc.load_model(run, CFG)
    if model is None:
        return run.finish()
    run.notes['graph'] = {'nodes': len(model.nodes), 'core_states': len(model.core_nodes),
                          'inputs': len(model.labels),
                          'edges': sum(len(ds) for d in model.out.values() for ds in d.values())}
    try:
        cc.fingerprints()
    except Exception as exc:               # noqa: BLE001
        run.machinery(f'calibration failed: {exc!r}')
        return run.finish()

    quick = tier == 'quick'
    ex = cc.Exec(run, 'C05', model, CFG, make_driver_for(CFG))

    # 2. transition tour with state identification after every input
    info = cc.tour(ex, max_len=400, deadline=t0 + (70 if quick else 600))
    run.notes['tour'] = info
    run.notes['tour_wall_s'] = round(time.time() - t0, 1)
    if info['uncovered']:
        run.notes['tour_incomplete'] = info['uncovered']

    # 3a. every input sequence of length <= 2 from each initial state
    t1 = time.time()
    envs = [cc.env_of_init(model, n)[0] for n in model.inits]
    nseq = 0
    for n, env in zip(model.inits, envs):
        seqs = list(cc.label_sequences(model, n, 2))
        if quick:
            # quick tier: a seeded sample (the transition tour above already
            # applies every input in every state); thorough: all of them
            seqs = rng.sample(seqs, min(len(seqs), 3500 if env == 'plain' else 400))
        for labels in seqs:
            cc.run_labels(ex, env, labels, 'seq2', probe_every=2)
            nseq += 1
    run.notes['seq_len2'] = nseq
    # 3b. length 3: sample (quick) / many (thorough), always behind a login so
    # that the sequence runs where the automaton has structure
    logins = [l for l in model.labels if model.parsed[l]['kind'] == 'auth'
              and model.parsed[l]['cred']['k'] == 'right'
              and model.parsed[l]['cred']['z'] == cc.NONE]
    n3 = 600 if quick else 20000
    labels_all = model.labels
    for _ in range(n3):
        seq = [rng.choice(logins)] + [rng.choice(labels_all) for _ in range(3)]
        cc.run_labels(ex, 'plain', seq, 'login+seq3')
    run.notes['seq_len3_sampled'] = n3
    run.notes['seq_wall_s'] = round(time.time() - t1, 1)

    # 3c. TLC -simulate behaviours and biased walks
    t2 = time.time()
    try:
        behs, sres = tlc.simulate('Conn.tla', CFG, num=150 if quick else 3000,
                                  depth=40, seed=run.seed + 1)
        run.add_model(sres, CFG + ' -simulate')
    except Exception as exc:               # noqa: BLE001
        run.machinery(f'simulation failed: {exc!r}')
        return run.finish()
    for beh in behs:
        labels = [l for l, _ in beh[1:] if l != 'Terminated']
        st0 = beh[0][1]
        env = 'plain' if not st0['stls'] else ('tlslocal' if st0['mechs'] else 'tlsremote')
        cc.run_labels(ex, env, labels, 'simulate')
    run.notes['simulated_behaviours'] = len(behs)
    for i in range(200 if quick else 5000):
        cc.biased_walk(ex, rng.choice(envs), rng, rng.randint(8, 40))
    run.notes['random_wall_s'] = round(time.time() - t2, 1)
    run.notes['steps_on_server'] = ex.steps
    if ex.nolabel:
        run.notes['inputs_outside_constrained_graph'] = ex.nolabel

    # 4. the bad-command limit of the default configuration
    t3 = time.time()
    bmodel = cc.load_model(run, 'Conn_badlimit.cfg')
    if bmodel is not None:
        # no protocol probes here: they would reset the counter
        bex = cc.Exec(run, 'C05', bmodel, 'Conn_badlimit.cfg',
                      make_driver_for('Conn_badlimit.cfg'), first_id=500000)
        run.notes['badlimit_tour'] = cc.tour(bex, 200, t0 + (110 if quick else 1000),
                                             protocol=False, kind='badlimit-tour')
        for i in range(150 if quick else 2000):
            cc.biased_walk(bex, 'plain', rng, rng.randint(5, 25), protocol=False,
                           kind='badlimit-walk')
        ex.notes |= bex.notes
        ex.steps += bex.steps
        run.notes['badlimit_wall_s'] = round(time.time() - t3, 1)

    if tier == 'thorough':
        res = tlc.run_tlc('Conn.tla', 'Conn_c05_props.cfg', workers=16, timeout=1500)
        run.add_model(res, 'Conn_c05_props.cfg')
        if not res.ok:
            run.machinery(f'temporal clauses failed: {res.violated or res.error}')

    close_under_interference(run, rng)

    run.notes['observations'] = sorted(ex.notes)[:12]
    run.cov['exhaustive'] = not info['uncovered']
    run.notes['exhaustive_scope'] = (
        'every (state, input) pair of the Conn_c05 graph (2 initial configurations x '
        'not-authenticated / authenticated / selected x {INBOX rw, INBOX ro, read-only '
        'mailbox, scratch mailbox rw/ro} x data markers) executed with state '
        'identification after each input; thorough tier: every input sequence of length <= 2 from every initial state')
    return run.finish()


def close_under_interference(run, rng) -> None:
    """Conn.tla: Effect("CLOSE") is OK + deselect in EVERY selected state - the model has no
    state in which it could fail.  The graph replay runs one connection; here the states are
    reached with a second session having changed the selected mailbox first (expunged what A
    still sees, deleted it, renamed it away, replaced it by another of the same name)."""
    from ..server import World
    others = {
        'expunge': [b'SELECT Work', b'STORE 1:* +FLAGS (\\Deleted)', b'EXPUNGE'],
        'expunge-one': [b'SELECT Work', b'STORE 1 +FLAGS (\\Deleted)', b'EXPUNGE', b'CLOSE'],
        'delete': [b'DELETE Work'],
        'rename': [b'RENAME Work Elsewhere'],
        'replace': [b'DELETE Work', b'CREATE Work', b'APPEND Work {7+}\r\nA: b\r\n\r\n'],
        'append': [b'APPEND Work {7+}\r\nA: b\r\n\r\n'],
    }
    n = 0
    for how in (b'SELECT', b'EXAMINE'):
        for deleted in (True, False):
            for name, cmds in others.items():
                w = World('dict', demo=False, users={'user1': 'pass1'},
                          config_kw={'bad_command_limit': None})
                log = []
                try:
                    for s in ('a', 'b'):
                        c = w.connect(s)
                        c.take()
                        w.login(s)
                    w.cmd('b', b'CREATE Work')
                    for _ in range(3):
                        w.cmd('b', b'APPEND Work {7+}\r\nA: b\r\n\r\n')
                    if deleted:
                        w.cmd('b', b'SELECT Work')
                        w.cmd('b', b'STORE 2 +FLAGS (\\Deleted)')
                        w.cmd('b', b'CLOSE' if name != 'expunge' else b'NOOP')
                    out = w.cmd('a', how + b' Work')
                    log.append((how, out[-60:]))
                    if b' OK ' not in out:
                        run.machinery(f'close-under-interference: {how!r} Work failed: {out!r}')
                        return
                    for c_ in cmds:
                        log.append(('b', c_, w.cmd('b', c_)[-60:]))
                    out = w.cmd('a', b'CLOSE')
                    closed = w.conns['a'].done
                    after = b'' if closed else w.cmd('a', b'FETCH 1 FLAGS')
                    n += 1
                    run.count_exec(('close-under', how, deleted, name), nontrivial=True)
                    ok = b' OK ' in out.split(b'\r\n')[-2] if out else False
                    desel = b' BAD ' in after
                    if not ok or not desel or closed or b'SERVERBUG' in out:
                        run.violation(
                            f'CLOSE after another session did [{name}] to the {how.decode()}ed mailbox: '
                            f'answered {out[-120:]!r}, a message command afterwards {after[-80:]!r} '
                            f'(Conn.tla CloseDeselects: CLOSE always succeeds and deselects)',
                            {'check': 'C05', 'part': 'close-under-interference', 'how': how.decode(),
                             'deleted_present': deleted, 'other': name},
                            'SelectionBoundToName' if name == 'replace' and how == b'SELECT'
                            and b'SERVERBUG' in out else None)
                finally:
                    w.close()
    run.notes['close_under_interference'] = n


def replay(path: str) -> int:
    return cc.replay_file('C05', path, make_driver_for)
