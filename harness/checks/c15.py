"""C15 - maildir state survives restart and crashes without UID damage
(+ the maildir half of C04: UIDs strictly increasing / never reused across restart).

1. TLC checks spec/MaildirStore.tla - the maildir store at filesystem-operation
   granularity, Crash enabled in every state, Restart = new MailboxSet + reset() - in the
   Ideal configuration (all invariants strict) and in the AsIs configuration (the named
   deviations of the tree as it is, tolerated narrowly; everything else strict).
2. spec -> code: the histories are behaviours taken out of TLC (-simulate, seeded, crash
   free) plus a few scenario seeds; for every simulated history the sequence of
   filesystem calls the model makes per command is compared with the sequence MEASURED on
   the real code (difference = drift), as are the UIDs the model acknowledges.
3. code -> spec: for every history and every configuration (layout x temp-dir placement)
   one clean run in a forked child records the filesystem-operation trace (length L);
   then L further children are killed (os._exit(137)) immediately before operation
   k = 0..L-1; after each, stale lock files are aged past their expiry and a NEW backend
   instance on the same directory dumps everything (maildir_crash.py).  acknowledgement
   log + crash point + dump = one trace; TLC validates all traces against
   spec/Trace_Maildir.tla, whose clauses are the clauses of the property.
"""

from __future__ import annotations

import concurrent.futures as cf
import json
import multiprocessing
import os
import random
import re
import shutil
import tempfile
import threading
import time

from ..common import Run, digest
from .. import tlc
from . import maildir_crash as mc

IMAPFLAG = {'S': '\\Seen', 'T': '\\Deleted', 'F': '\\Flagged', 'R': '\\Answered', 'D': '\\Draft'}
CLAUSES = ('C15_AckedSurvive', 'C15_AckedFlagsPersist', 'C15_NoUidReuse',
           'C15_ControlFilesReadable', 'C15_AckedCreatesPersist',
           'C15_AckedSubscriptionsPersist', 'C15_AckedSameUid')
EXDEV = 'TempDirOtherFilesystemEXDEV'

# model mutants: cfg -> the invariant TLC must report (None: must pass - writing the uidlist
# record before the message file is linked is harmless because the OK comes last and a record
# without a file is inert)
MODEL_MUTANTS = {
    'MaildirStore_mut_writeinplace.cfg': 'ControlFilesReadable',
    'MaildirStore_mut_nopersistn.cfg': 'NoUidReuse',
    'MaildirStore_mut_skipsubs.cfg': 'AckedSubscriptionsPersist',
    'MaildirStore_mut_uidlistfirst.cfg': None,
}

# scenario seeds (same alphabet as the model; the nested-folder ones are beyond the
# model's flat name space and are judged by the observer only)
SEEDS = [
    ('uid-after-expunge-check', False,
     [['Append', 'INBOX', ['\\Deleted']], ['Append', 'INBOX', []], ['Select', 'INBOX'],
      ['Store', 'INBOX', 2, 'add', '\\Deleted'], ['Expunge', 'INBOX'], ['Check', 'INBOX'],
      ['Append', 'INBOX', ['\\Seen']]]),
    ('uid-after-expunge-of-highest-check', False,
     [['Append', 'INBOX', []], ['Append', 'INBOX', []], ['Append', 'INBOX', ['\\Seen']],
      ['Select', 'INBOX'], ['Store', 'INBOX', 3, 'add', '\\Deleted'], ['Expunge', 'INBOX'],
      ['Check', 'INBOX'], ['Append', 'INBOX', ['\\Flagged']], ['Select', 'INBOX'],
      ['Store', 'INBOX', 2, 'add', '\\Deleted'], ['Expunge', 'INBOX'], ['Check', 'INBOX'],
      ['Copy', 'INBOX', 1, 'INBOX']]),
    ('names-ending-in-space', False,
     [['Create', 'Box '], ['Subscribe', 'Box '], ['Append', 'Box ', ['\\Seen']], ['Subscribe', 'Arch'],
      ['Select', 'Box '], ['Unsubscribe', 'Arch']]),
    ('control-file-names', False,
     [['Create', 'subscriptions'], ['Subscribe', 'subscriptions'], ['Create', 'cur'],
      ['Append', 'INBOX', []], ['Select', 'INBOX'], ['Create', 'dovecot-uidlist.lock'],
      ['Subscribe', 'Box'], ['Create', 'tmp'], ['Append', 'INBOX', ['\\Flagged']]]),
    ('nested-rename', False,
     [['Create', 'Box'], ['Create', 'Box/sub'], ['Append', 'Box/sub', ['\\Seen']],
      ['Append', 'Box', []], ['Subscribe', 'Box/sub'], ['Rename', 'Box', 'Arch'],
      ['Select', 'Arch/sub'], ['Store', 'Arch/sub', 1, 'add', '\\Flagged']]),
    ('move-out-and-back', False,
     [['Create', 'Box'], ['Append', 'INBOX', ['\\Seen']], ['Select', 'INBOX'],
      ['Move', 'INBOX', 1, 'Box'], ['Select', 'Box'], ['Move', 'Box', 1, 'INBOX'],
      ['Select', 'INBOX'], ['Check', 'INBOX']]),
    ('subscriptions', True,
     [['Subscribe', 'Box'], ['Subscribe', 'Arch'], ['Unsubscribe', 'Box'], ['Create', 'Box'],
      ['Unsubscribe', 'Arch'], ['Subscribe', 'Box']]),
    ('flags-and-copy', False,
     [['Create', 'Box'], ['Append', 'INBOX', []], ['Select', 'INBOX'],
      ['Store', 'INBOX', 1, 'add', '\\Seen'], ['Store', 'INBOX', 1, 'add', '\\Flagged'],
      ['Store', 'INBOX', 1, 'del', '\\Seen'], ['Copy', 'INBOX', 1, 'Box'],
      ['Store', 'INBOX', 1, 'set', '\\Answered']]),
    ('virgin-append', True,
     [['Append', 'INBOX', ['\\Flagged']], ['Create', 'Box'], ['Select', 'INBOX'],
      ['Copy', 'INBOX', 1, 'Box']]),
]


# ---------------------------------------------------------------------------------------
# histories out of TLC


def _step_of(label: str, before: dict):
    """B-label of the model -> abstract step of the harness (None: not a command start)"""
    name, args = tlc.parse_label(label)
    if not name.startswith('B'):
        return None

    def content(f, uid):
        for a in before['acked']:
            if a['f'] == f and a['uid'] == uid:
                return a['c']
        return 0
    if name == 'BAppend':
        return ['Append', str(args[0]), sorted(IMAPFLAG[x] for x in args[1])]
    if name == 'BSelect':
        return ['Select', str(args[0])]
    if name == 'BStore':
        return ['Store', str(args[0]), content(args[0], args[1]), str(args[2]), IMAPFLAG[args[3]]]
    if name in ('BCopy', 'BMove'):
        return [name[1:], str(args[0]), content(args[0], args[1]), str(args[2])]
    if name == 'BExpunge':
        return ['Expunge', str(args[0])]
    if name == 'BCheck':
        return ['Check', str(args[0])]
    if name == 'BCreate':
        return ['Create', str(args[0])]
    if name == 'BRename':
        return ['Rename', str(args[0]), str(args[1])]
    if name == 'BSub':
        return ['Subscribe' if args[1] else 'Unsubscribe', str(args[0])]
    if name == 'BLogin':
        return ['Login']
    raise ValueError(label)


def behaviour_to_history(beh: list) -> dict | None:
    """-> {'history': [...], 'model': [[step, [kinds], acked uid]...]}"""
    steps, model = [], []
    curk = None
    for i, (label, st) in enumerate(beh):
        if label == 'Init':
            continue
        if label.startswith('Step'):
            k = tlc.parse_label(label)[1][0]
            if curk is None:
                continue
            if k == 'ack':
                curk[2] = st['last']['uid']
                curk[3] = True
                curk = None
            elif k == 'fail':
                curk = None
            else:
                if k in ('link', 'mvmsg'):
                    # which subdirectory the file lands in is part of the measured label
                    c = beh[i - 1][1]['cur']
                    f = c['g'] if (k == 'mvmsg' or c['op'] == 'Copy') else c['f']
                    sub = [x['sub'] for x in st['files'][f] if x['key'] == c['key'] and x['sub'] != 'tmp']
                    k = f'{k}:{sub[0]}' if sub else k
                curk[1].append(k)
            continue
        step = _step_of(label, beh[i - 1][1])
        if step is None:
            continue
        curk = [step, [], 0, False]
        steps.append(step)
        model.append(curk)
    # drop a command the behaviour did not finish and trailing SELECTs (nothing follows them)
    while model and (not model[-1][3] or model[-1][0][0] == 'Select'):
        model.pop()
        steps.pop()
    if not any(s[0] not in ('Select',) for s in steps):
        return None
    return {'history': steps, 'model': [[m[0], m[1], m[2]] for m in model]}


def features(history: list) -> set:
    ks = [s[0] for s in history]
    f = set(ks) | {(a, b) for a, b in zip(ks, ks[1:])}
    sel = None
    for s in history:
        if s[0] == 'Select':
            sel = s[1]
        if s[0] == 'Append' and sel == s[1]:
            f.add('append-into-selected')
        if s[0] in ('Copy', 'Move') and len(s) > 3:
            f.add((s[0], 'to-inbox' if s[3] == 'INBOX' else 'to-box'))
        if s[0] == 'Append' and s[2]:
            f.add(('Append', tuple(s[2])))
    mv = [s for s in history if s[0] == 'Move']
    if len(mv) >= 2 and mv[0][1] == mv[1][3]:
        f.add('move-back')
    return f


def pick_histories(cands: list, n: int, rng) -> list:
    """greedy feature cover, seeded"""
    cands = list(cands)
    rng.shuffle(cands)
    chosen, covered = [], set()
    feats = [features(c['history']) for c in cands]
    # message / namespace operations are rarer in uniform simulation than APPEND / CREATE
    rich = [sum(1 for st in c['history'] if st[0] in ('Store', 'Copy', 'Move', 'Expunge', 'Check', 'Rename'))
            for c in cands]
    left = list(range(len(cands)))
    while left and len(chosen) < n:
        best = max(left, key=lambda i: (len(feats[i] - covered) + 0.4 * rich[i],
                                        -len(cands[i]['history'])))
        if not feats[best] - covered:
            # everything covered once: start a second round
            covered = set()
            if all(not feats[i] for i in left):
                break
            continue
        chosen.append(cands[best])
        covered |= feats[best]
        left.remove(best)
    return chosen


_KIND = [
    (r'open-x\(uidlist\.lock\)', 'lock'), (r'unlink\(uidlist\.lock\)', 'unlock'),
    (r'mktemp\(.*\)', 'mktemp'), (r'write\(TEMP\)', 'write'),
    (r'rename\(TEMP->uidlist\)', 'renameul'), (r'rename\(TEMP->subscriptions\)', 'renamesubs'),
    (r'creat\(tmp/msg\)', 'creat'), (r'fsync', 'fsync'), (r'utime\(tmp/msg\)', 'utime'),
    (r'link\(tmp/msg->new/msg\)', 'link:new'), (r'link\(tmp/msg->cur/msg\)', 'link:cur'),
    (r'remove\(tmp/msg\)', 'rmtmp'), (r'rename\(new/msg->cur/msg\)', 'claim'),
    (r'rename\((cur|new)/msg->\1/msg\)', 'renflag'),
    (r'rename\((cur|new)/msg=>new/msg\)', 'mvmsg:new'), (r'rename\((cur|new)/msg=>cur/msg\)', 'mvmsg:cur'),
    (r'remove\((cur|new)/msg\)', 'rmmsg'), (r'mkdir\(DIR.*\)', 'mkdir'),
    (r'open-x\(maildirfolder\)', 'mark'), (r'rename\(DIR->DIR\)', 'rendir'),
    (r'open-x\(subscriptions\.lock\)', 'slock'), (r'unlink\(subscriptions\.lock\)', 'sunlock'),
    (r'remove\(subscriptions\)', 'rmsubs'),
]


def kind_of(label: str) -> str:
    for pat, k in _KIND:
        if re.fullmatch(pat, label):
            return k
    return '?' + label


# ---------------------------------------------------------------------------------------


def _validate(traces: list, known: list, chunk: int = 2500) -> tuple[dict, list]:
    """{tid(1-based): (line, clause, used)}; TLC wraps long tuples over several lines, so the
    verdict lines are re-read from the raw output with a whitespace-tolerant pattern"""
    out, errs = {}, []
    pat = re.compile(r'<<\s*"VERDICT",\s*(\d+),\s*(\d+),\s*"([^"]*)",\s*\{([^}]*)\}\s*>>')

    def one(lo):
        part = traces[lo:lo + chunk]
        _v, res = tlc.validate_total('Trace_Maildir.tla', 'Trace_Maildir.cfg', part, known=known)
        got = {}
        for m in pat.finditer(res.output):
            used = [x.strip().strip('"') for x in m.group(4).split(',') if x.strip()]
            got[lo + int(m.group(1))] = (int(m.group(2)), m.group(3), used)
        if len(got) != len(part):
            errs.append((res.error or '') + res.output[-1200:])
        return got
    los = list(range(0, len(traces), chunk))
    with cf.ThreadPoolExecutor(max_workers=4) as ex:
        for got in ex.map(one, los):
            out.update(got)
    return out, errs


def signature(clause: str, tr: dict) -> str:
    """narrow signature of a failing crash run: the clause, the command in flight and the
    two filesystem operations the kill fell between"""
    info = tr['info']
    if tr['k'] < 0:
        return f'{clause}:CleanStop'
    return f"{clause}:{info.get('inflight') or 'Idle'}CrashBetween:{info.get('after')}|{info.get('killed_before')}"


def _selftest_traces(sample: list) -> list:
    """(b) of HOWTO: corrupt one value on the trace side; the observer must say so"""
    out = []
    base = json.loads(json.dumps(sample))
    dump = next(e for e in base if e['e'] == 'dump')
    boxes = [b for b in dump['boxes'] if b['msgs']]
    if not boxes:
        return out
    # 1. an acknowledged message is missing from the dump
    t = json.loads(json.dumps(base))
    d = next(e for e in t if e['e'] == 'dump')
    b = next(b for b in d['boxes'] if b['msgs'])
    b['msgs'] = b['msgs'][1:]
    out.append((t, 'C15_AckedSurvive'))
    # 2. it is served under another UID
    t = json.loads(json.dumps(base))
    d = next(e for e in t if e['e'] == 'dump')
    b = next(b for b in d['boxes'] if b['msgs'])
    b['msgs'][0]['uid'] += 7
    b['next'] += 8
    b['probe'] = []
    out.append((t, 'C15_AckedSurvive'))
    # 3. its flags changed
    t = json.loads(json.dumps(base))
    d = next(e for e in t if e['e'] == 'dump')
    b = next(b for b in d['boxes'] if b['msgs'])
    b['msgs'][0]['fl'] = sorted(set(b['msgs'][0]['fl']) ^ {'\\Answered'})
    out.append((t, 'C15_AckedFlagsPersist'))
    # 4. the probe APPEND reuses a UID
    t = json.loads(json.dumps(base))
    d = next(e for e in t if e['e'] == 'dump')
    b = next(b for b in d['boxes'] if b['msgs'])
    if b['probe']:
        b['probe'][0]['uid'] = b['msgs'][0]['uid']
        out.append((t, 'C15_NoUidReuse'))
    # 5. a control file does not parse
    t = json.loads(json.dumps(base))
    r = next(e for e in t if e['e'] == 'restart')
    r['ctl'] = list(r['ctl']) + [{'kind': 'uidlist', 'p': 'x', 'ok': False}]
    out.append((t, 'C15_ControlFilesReadable'))
    return out


def main(tier: str) -> int:
    run = Run('C15', tier)
    rng = random.Random(run.seed)
    t_start = time.time()
    run.cov['rule'] = (
        'executions = crash runs: one (history, configuration, crash point k) = the real '
        'maildir backend killed immediately before its k-th filesystem operation (k = -1: '
        'clean stop), restarted on the same directory and dumped; all k = 0..L-1 of every '
        'history are run (exhaustive per history).  non-trivial = the kill fell inside a '
        'command (a command was in flight); distinct = distinct (history, configuration, k)')
    run.assumptions += [
        'a crash is a process kill between two filesystem calls (os._exit): data written '
        'before the kill is on disk (no power loss / page-cache model); the only torn state '
        'of a single file considered is "opened for writing, nothing written yet"',
        'one writer session; concurrent writers across a crash are not enumerated',
        'stale *.lock files left by the kill are aged past FileLock\'s 600 s expiry before the '
        'restart (the property does not say "immediately"); counted in the evidence',
        'UIDVALIDITY freshness (16 random bits within one second) is assumed, not claimed',
        'message content is compared modulo CRLF/LF (maildir rewrites line endings: C03)',
        'the model has a flat name space: multi-directory RENAME (Maildir++ children) is '
        'exercised on the real code and judged by the observer, not by MaildirStore.tla',
    ]

    # ---- 0. worker pool, scratch area, templates: before anything makes this process fat
    # or multi-threaded (every crash run is a fork of a pool worker)
    ctx = multiprocessing.get_context('fork')
    pool = cf.ProcessPoolExecutor(max_workers=16, mp_context=ctx)
    store_root = tempfile.mkdtemp(prefix='verif.c15.', dir='/dev/shm' if os.path.isdir('/dev/shm')
                                  else None)
    same_tmp = os.path.join(store_root, 'tmp')
    os.makedirs(same_tmp)
    other_tmp = tempfile.mkdtemp(prefix='verif.c15.othertmp.', dir='/tmp')
    try:
        return _main(run, tier, rng, t_start, pool, store_root, same_tmp, other_tmp)
    finally:
        pool.shutdown(wait=False, cancel_futures=True)
        shutil.rmtree(store_root, ignore_errors=True)
        shutil.rmtree(other_tmp, ignore_errors=True)


def _warm_task(_i):
    mc.warm()
    time.sleep(0.05)
    return os.getpid()


def _simulate_part(a):
    """one TLC -simulate call -> histories only (the states are dropped at once)"""
    cfgname, num, seed = a
    behs, sres = tlc.simulate('MaildirStore.tla', cfgname, num=num, depth=220, seed=seed)
    out = []
    for b in behs:
        h = behaviour_to_history(b)
        if h is not None:
            h['existing'] = ['Box'] if cfgname.endswith('_box.cfg') else []
            out.append(h)
    return cfgname, len(behs), sres.ok, (sres.error or sres.output[-600:]) if not behs else '', out


def _main(run, tier, rng, t_start, pool, store_root, same_tmp, other_tmp) -> int:
    different_fs = os.stat(store_root).st_dev != os.stat(other_tmp).st_dev
    try:
        workers_seen = set(pool.map(_warm_task, range(48)))
        templates = {}
        for layout in ('++', 'fs'):
            cfg = mc.Cfg(layout, 'same', store_root, same_tmp)
            tpl = os.path.join(store_root, f'tpl.{layout}')
            tplv = os.path.join(store_root, f'tplv.{layout}')
            mc.make_template(cfg, tpl, same_tmp, False)
            mc.make_template(cfg, tplv, same_tmp, True)
            templates[layout] = (tpl, tplv)
    except Exception:
        import traceback
        run.machinery('worker pool / templates: ' + traceback.format_exc()[-1200:])
        return run.finish()
    run.notes['pool_workers'] = len(workers_seen)

    # ---- 1. the model ------------------------------------------------------------------
    if tier == 'quick':
        cfgs = ['MaildirStore_ideal.cfg', 'MaildirStore_ideal_msgs.cfg',
                'MaildirStore_asis.cfg', 'MaildirStore_asis_msgs.cfg',
                'MaildirStore_asis_otherfs.cfg', 'MaildirStore_asis_virgin.cfg']
        workers = 4
    else:
        cfgs = ['MaildirStore_ideal.cfg', 'MaildirStore_ideal_msgs.cfg',
                'MaildirStore_asis.cfg', 'MaildirStore_asis_msgs.cfg',
                'MaildirStore_asis_otherfs.cfg', 'MaildirStore_asis_virgin.cfg',
                'MaildirStore_asis_3names.cfg', 'MaildirStore_asis_4ops.cfg',
                'MaildirStore_ideal_4ops.cfg']
        workers = 5
    model_results: dict = {}

    def check_models():
        def one(c):
            return c, tlc.run_tlc('MaildirStore.tla', c, workers=workers, timeout=1500)
        with cf.ThreadPoolExecutor(max_workers=3) as ex:
            for c, res in ex.map(one, cfgs):
                model_results[c] = res
        # the deviations are real in the model: with nothing tolerated the as-is model
        # must break an invariant
        model_results['strict'] = tlc.run_tlc('MaildirStore.tla', 'MaildirStore_asis_strict.cfg',
                                              workers=workers, timeout=600)
        # and the invariants bite: model mutants (one named deviation each, nothing tolerated)
        with cf.ThreadPoolExecutor(max_workers=3) as ex:
            for c, res in ex.map(lambda c: (c, tlc.run_tlc('MaildirStore.tla', c, workers=2, timeout=900)),
                                 list(MODEL_MUTANTS if tier != 'quick' else list(MODEL_MUTANTS)[:3])):
                model_results[c] = res
    model_thread = threading.Thread(target=check_models)
    model_thread.start()

    # ---- 2. histories ------------------------------------------------------------------
    if tier == 'quick':
        n_hist, n_sim, fs_every, other_n = 18, 240, 2, 3
    else:
        n_hist, n_sim, fs_every, other_n = 200, 3000, 1, None
    cands, seen_h = [], set()
    sim_stats = []
    try:
        simcfgs = ('MaildirStore_sim.cfg', 'MaildirStore_sim_box.cfg')
        nthreads = 2 if tier == 'quick' else 6
        per_call = 120 if tier == 'quick' else 125
        parts = []
        for ci, cfgname in enumerate(simcfgs):
            for part in range(max(1, n_sim // 2 // per_call)):
                parts.append((cfgname, per_call, run.seed * 7919 + 17 + 101 * part))
        with cf.ThreadPoolExecutor(max_workers=nthreads) as ex:
            sims = list(ex.map(_simulate_part, parts))
        tot = {}
        for cfgname, nb, ok, err, hs in sims:
            t = tot.setdefault(cfgname, {'cfg': cfgname, 'behaviours': 0, 'ok': True})
            t['behaviours'] += nb
            t['ok'] = t['ok'] and ok
            if not nb:
                run.machinery(f'no behaviours from {cfgname}: {err}')
                model_thread.join()
                return run.finish()
            for h in hs:
                key = json.dumps([h['history'], h['existing']])
                if key not in seen_h:
                    seen_h.add(key)
                    cands.append(h)
        sim_stats = list(tot.values())
        del sims
    except (tlc.TLCError, ValueError) as exc:
        run.machinery('history generation failed: ' + repr(exc))
        model_thread.join()
        return run.finish()
    chosen = pick_histories(cands, n_hist, rng)
    histories = []
    for i, h in enumerate(chosen):
        pre = [['Create', f] for f in h['existing']]
        histories.append({'hid': len(histories), 'name': f'sim{i}', 'history': pre + h['history'],
                          'model': h['model'], 'npre': len(pre), 'virgin': False})
    for name, virgin, hist in SEEDS:
        histories.append({'hid': len(histories), 'name': name, 'history': hist, 'model': None,
                          'npre': 0, 'virgin': virgin})
    run.notes['histories'] = {'simulated_candidates': len(cands), 'chosen_simulated': len(chosen),
                              'seeds': len(SEEDS), 'simulation': sim_stats}

    # ---- 3. crash enumeration ----------------------------------------------------------
    results, jobs = [], []
    try:
        nonce = 'n%d' % run.seed
        for h in histories:
            places = [('++', 'same')]
            if h['hid'] % fs_every == 0:
                places.append(('fs', 'same'))
            if different_fs and (other_n is None or h['name'] in ('virgin-append', 'subscriptions')
                                 or h['hid'] < other_n - 2):
                places.append(('++', 'other') if h['hid'] % 2 == 0 else ('fs', 'other'))
                if other_n is None:
                    places.append(('fs', 'other') if h['hid'] % 2 == 0 else ('++', 'other'))
            for layout, place in places:
                jobs.append({'cfg': (layout, place, store_root,
                                     same_tmp if place == 'same' else other_tmp, same_tmp),
                             'history': h['history'], 'hid': h['hid'], 'nonce': nonce,
                             'virgin': h['virgin'],
                             'template': templates[layout][0],
                             'template_virgin': templates[layout][1]})
        t0 = time.time()
        ex = pool
        # longest first
        order = sorted(range(len(jobs)), key=lambda i: -len(jobs[i]['history']))
        futs = {ex.submit(mc.run_job, jobs[i]): i for i in order}
        base = {'cfg': ('++', 'same', store_root, same_tmp, same_tmp), 'nonce': nonce,
                'template': templates['++'][0], 'template_virgin': templates['++'][1]}
        stale_f = ex.submit(mc.stale_lock_probe, base)
        prov_f = {layout: ex.submit(mc.provisioning_probe, layout, store_root, other_tmp)
                  for layout in (('++', 'fs') if different_fs else ())}
        res_by = {}
        for fu in cf.as_completed(futs):
            res_by[futs[fu]] = fu.result()
        results = [res_by[i] for i in range(len(jobs))]
        stale = stale_f.result()
        prov = {layout: f.result() for layout, f in prov_f.items()}
        run.notes['enumeration_wall_s'] = round(time.time() - t0, 1)
    except Exception:
        import traceback
        run.machinery('crash enumeration failed: ' + traceback.format_exc()[-1500:])
        model_thread.join()
        return run.finish()

    for r in results:
        for m in r['machinery']:
            run.machinery(m)
    if run.machinery_errors:
        model_thread.join()
        return run.finish()

    # ---- model <-> measured operation order (drift) --------------------------------------
    op_table: dict = {}
    compared = mismatched = 0
    for job, r in zip(jobs, results):
        h = histories[job['hid']]
        cmds = [c for c in r.get('clean_cmds', []) if c[0] and c[0][0] not in ('Login', 'Noop')]
        for ab, labels in cmds:
            op_table.setdefault(f'{r["cfg"]} {ab[0]}', labels)
        if h['model'] is None or job['cfg'][1] != 'same':
            continue
        cmds = cmds[h['npre']:]
        for (mstep, mkinds, muid), (ab, labels) in zip(h['model'], cmds):
            compared += 1
            got = [kind_of(x) for x in labels]
            if ab[:2] != mstep[:2] or got != mkinds:
                mismatched += 1
                if len(run.drift) < 10:
                    run.drift.append({'history': h['name'], 'cfg': r['cfg'], 'step': mstep,
                                      'model_ops': mkinds, 'measured_ops': got})
                else:
                    run.drift.append({'history': h['name'], 'step': mstep})
        # acknowledged UIDs of the clean run vs the model's
        clean = r['traces'][0]['events'] if r['traces'] else []
        acks = [e for e in clean if e['e'] == 'ack' and e['op'] in ('append', 'copy', 'move')]
        macks = [m for m in h['model'] if m[0][0] in ('Append', 'Copy', 'Move')]
        pre_appends = 0
        for e, m in zip(acks[pre_appends:], macks):
            uid = e.get('uid') if e['op'] == 'append' else e.get('nuid')
            if uid != m[2]:
                run.drift.append({'history': h['name'], 'cfg': r['cfg'], 'step': m[0],
                                  'model_uid': m[2], 'real_uid': uid})
    run.notes['model_vs_measured'] = {'commands_compared': compared, 'mismatched': mismatched}
    run.notes['measured_op_traces'] = {k: v for k, v in sorted(op_table.items())
                                       if k.startswith('++/same') or k.startswith('fs/same Rename')
                                       or k.startswith('++/other Append')}

    # ---- 4. TLC judges the recorded executions ------------------------------------------
    traces, meta = [], []
    for job, r in zip(jobs, results):
        for tr in r['traces']:
            traces.append(tr['events'])
            meta.append({'hid': job['hid'], 'history': job['history'], 'cfg': r['cfg'],
                         'virgin': job['virgin'], 'k': tr['k'], 'L': r['L'], 'info': tr['info'],
                         'aged': tr['aged'], 'failed_cmds': tr.get('failed_cmds', [])})
    # the provisioning observation as a one-event trace (judged like everything else)
    for layout, p in prov.items():
        ok = bool(p.get('ok'))
        sig = EXDEV if (not ok and p.get('errno') == 18
                        and p.get('st_dev_store') != p.get('st_dev_tmp')) else ''
        traces.append([{'e': 'served', 'cmds': [{'cmd': 'PROVISION', 'f': '', 'ok': ok, 'sig': sig}]}])
        meta.append({'hid': -2, 'history': [['ProvisionFirstUser']], 'cfg': f'{layout}/other',
                     'virgin': True, 'k': -1, 'L': 0,
                     'info': {'inflight': 'Provision', 'after': None, 'killed_before': None},
                     'aged': [], 'failed_cmds': [p]})
    selftests = []
    sample = next((tr for tr, m in zip(traces, meta)
                   if m['k'] == -1 and m['cfg'].endswith('same') and any(
                       e['e'] == 'dump' and any(b['msgs'] for b in e['boxes']) for e in tr)
                   and not any(e['e'] == 'ack' and e['op'] in ('copy', 'move') for e in tr)), None)
    if sample is not None:
        selftests = _selftest_traces(sample)
    n_real = len(traces)
    all_traces = traces + [t for t, _c in selftests]
    t0 = time.time()
    verdicts, errs = _validate(all_traces, sorted(run.known.open))
    run.notes['trace_validation_wall_s'] = round(time.time() - t0, 1)
    if errs or len(verdicts) != len(all_traces):
        run.machinery('trace validation incomplete: ' + (errs[0] if errs else '')[-900:])
        model_thread.join()
        return run.finish()
    st_ok = 0
    for j, (t, want) in enumerate(selftests):
        line, clause, _used = verdicts[n_real + j + 1]
        if clause == want:
            st_ok += 1
        else:
            run.machinery(f'self-test: corrupted trace expected {want}, observer said {clause!r}')
    run.notes['selftest_corrupted_traces'] = {'tried': len(selftests), 'rejected_as_expected': st_ok}

    per_cfg: dict = {}
    per_clause = {c: {'checked': 0, 'failed': 0} for c in CLAUSES}
    points = 0
    inflight_hist: dict = {}
    for i in range(n_real):
        line, clause, used = verdicts[i + 1]
        m = meta[i]
        ev = traces[i]
        for name in used:
            run.known.excuses(name)      # tolerated inside the observer, everything else checked
        pc = per_cfg.setdefault(m['cfg'], {'runs': 0, 'crash_points': 0, 'accepted': 0,
                                           'runs_with_aged_locks': 0, 'aged_lock_files': 0,
                                           'histories': set()})
        pc['runs'] += 1
        pc['histories'].add(m['hid'])
        if m['k'] >= 0:
            pc['crash_points'] += 1
            points += 1
        if m['aged']:
            pc['runs_with_aged_locks'] += 1
            pc['aged_lock_files'] += len(m['aged'])
        if not clause:
            pc['accepted'] += 1
        has_dump = any(e['e'] == 'dump' and e['listed'] for e in ev)
        for c in CLAUSES:
            if c == 'C15_ControlFilesReadable' or has_dump:
                per_clause[c]['checked'] += 1
        infl = m['info'].get('inflight')
        inflight_hist[infl or 'idle'] = inflight_hist.get(infl or 'idle', 0) + 1
        run.count_exec((m['history'], m['cfg'], m['k']),
                       nontrivial=m['k'] >= 0 and infl is not None, validated=not clause)
        if clause:
            per_clause.setdefault(clause, {'checked': 0, 'failed': 0})['failed'] += 1
            sig = signature(clause, m)
            bad = ev[line - 1] if 0 < line <= len(ev) else {}
            crash = next((e for e in ev if e['e'] == 'crash'), {})
            what = (f'{clause} after a kill between {crash.get("after")} and {crash.get("before")} '
                    f'(k={m["k"]} of {m["L"]}, in flight: {infl}) of history '
                    f'{json.dumps(m["history"])} on {m["cfg"]}'
                    f'{" (virgin store)" if m["virgin"] else ""}; failing event: '
                    f'{json.dumps(bad)[:500]}; failed dump commands: {m["failed_cmds"][:2]}')
            run.violation(what, {'check': 'C15', 'history': m['history'], 'cfg': m['cfg'],
                                 'virgin': m['virgin'], 'k': m['k'], 'seed': run.seed,
                                 'clause': clause, 'events': ev}, sig)
    for pc in per_cfg.values():
        pc['histories'] = len(pc['histories'])
    run.notes['per_configuration'] = per_cfg
    run.notes['per_clause'] = per_clause
    run.notes['crash_points_total'] = points
    run.notes['histories_total'] = len(histories)
    run.notes['jobs'] = len(jobs)
    run.notes['in_flight_command_at_kill'] = inflight_hist
    run.notes['prefix_mismatch_runs'] = sum(r['prefix_mismatch'] for r in results)
    run.notes['stale_lock_observation'] = stale
    run.notes['provisioning_with_tmp_on_other_filesystem'] = prov
    run.notes['different_filesystems'] = different_fs
    run.notes['child_wall_s'] = {'runs': round(sum(r['run_wall'] for r in results), 1),
                                 'dumps': round(sum(r['dump_wall'] for r in results), 1)}
    run.cov['exhaustive'] = True
    run.notes['exhaustive_scope'] = ('every crash point k = 0..L-1 of every chosen history on its '
                                     'configurations; MaildirStore.tla exhaustively for the '
                                     'bounds in the cfg files with Crash in every state')
    for m in (meta[0], meta[min(len(meta) - 1, 40)]):
        run.sample({'history': m['history'], 'cfg': m['cfg'], 'k': m['k'], 'L': m['L']})

    # ---- the model results -------------------------------------------------------------
    model_thread.join()
    for c in cfgs:
        res = model_results.get(c)
        if res is None:
            run.machinery(f'{c}: no result')
            continue
        run.add_model(res, c)
        if not res.ok:
            run.machinery(f'model check of {c} failed: {res.violated or res.error}')
    strict = model_results.get('strict')
    if strict is not None:
        run.notes['asis_strict'] = {'violated': strict.violated, 'states': strict.distinct,
                                    'expected': 'an invariant is violated (the named deviations are '
                                                'real in the model)'}
        if strict.ok or not strict.violated:
            run.machinery('MaildirStore_asis_strict.cfg: expected an invariant violation, got '
                          + str(strict.error or 'none'))
    mm = {}
    for c, want in MODEL_MUTANTS.items():
        res = model_results.get(c)
        if res is None:
            continue
        got = (res.violated or [None])[0]
        mm[c] = {'expected': want, 'got': got, 'states': res.distinct}
        if got != want or (want is None and not res.ok):
            run.machinery(f'{c}: expected {want}, TLC reported {got} {res.error or ""}')
    run.notes['model_mutants'] = mm
    run.notes['total_wall_s'] = round(time.time() - t_start, 1)
    return run.finish()


def replay(path: str) -> int:
    """re-run one (history, configuration, k) and print what the observer says"""
    with open(path) as f:
        rec = json.load(f)
    rp_ = rec['replay']
    layout, place = rp_['cfg'].split('/')
    store_root = tempfile.mkdtemp(prefix='verif.c15.', dir='/dev/shm')
    same_tmp = os.path.join(store_root, 'tmp')
    os.makedirs(same_tmp)
    other_tmp = tempfile.mkdtemp(prefix='verif.c15.othertmp.', dir='/tmp')
    try:
        cfg = mc.Cfg(layout, 'same', store_root, same_tmp)
        tpl, tplv = os.path.join(store_root, 'tpl'), os.path.join(store_root, 'tplv')
        mc.make_template(cfg, tpl, same_tmp, False)
        mc.make_template(cfg, tplv, same_tmp, True)
        res = mc.run_job({'cfg': (layout, place, store_root,
                                  same_tmp if place == 'same' else other_tmp, same_tmp),
                          'history': rp_['history'], 'hid': 0, 'nonce': 'n%d' % rp_.get('seed', 0),
                          'virgin': rp_['virgin'], 'template': tpl, 'template_virgin': tplv,
                          'points': [rp_['k']] if rp_['k'] >= 0 else []})
    finally:
        shutil.rmtree(store_root, ignore_errors=True)
        shutil.rmtree(other_tmp, ignore_errors=True)
    if res['machinery'] or not res['traces']:
        print('MACHINERY-ERROR', res['machinery'])
        return 2
    tr = res['traces'][-1]
    from ..common import Known
    verd, errs = _validate([tr['events']], sorted(Known('C15').open))
    for e in tr['events']:
        print(json.dumps(e))
    print('observer:', verd.get(1), errs[:1])
    if verd.get(1) and verd[1][1]:
        print(f'VIOLATION property=C15 replay={path}')
        print('  ' + signature(verd[1][1], {'k': tr['k'], 'info': tr['info']}))
        return 1
    return 0
