"""Shared machinery of C05 / C09: binding between spec/Conn.tla and pymap.

The oracle is the state graph TLC computes from Conn.tla.  This module only

* concretises abstract inputs (command instances, authentication forms x
  credential classes) into bytes,
* abstracts what the real server answers (strict response parser) and the
  state its probes reveal into the vocabulary of the spec's variables,
* walks the TLC graph alongside the real server: after every input the set of
  successor states TLC computed for that input must contain one that agrees
  with what was observed.
"""

from __future__ import annotations

import base64
import functools
import logging
import os
import random
import time
from collections import deque

from .. import tlc
from .. import respparse as rp
from ..server import World

import pysasl

# SASLAuth.defaults() scans the installed entry points on every call (5 ms);
# the set of installed packages does not change while a check runs.
if not getattr(pysasl, '_verif_cached', False):
    _entry_points = pysasl.entry_points

    @functools.lru_cache(None)
    def _cached_eps(group):
        return tuple(_entry_points(group=group))

    pysasl.entry_points = lambda group: _cached_eps(group)
    pysasl._verif_cached = True

# ManageSieve logs handled exceptions with a traceback: keep stderr clean
logging.getLogger('pymap.sieve.manage').setLevel(logging.CRITICAL + 1)

# user2's secret is long (longer than the 72 octets bcrypt-style hashes look at, and
# than any block of a digest): wrong credentials that share a long prefix / suffix
# with it are part of the "wrongpw" class
_LONG = 'pass2-' + ''.join(chr(97 + (7 * i) % 26) + str(i % 10) for i in range(80))
# the second ordinary user is a LOOK-ALIKE of the first: 'user' + FULLWIDTH DIGIT ONE is a different
# account that SASLprep / NFKC / casefold map to 'user1' - a comparison of prepared names where
# the raw ones are meant lets one act as the other
U2 = 'user\uff11'
USERS = {'user1': 'pass1', U2: _LONG, 'adm': ('admpw', {'admin'})}
MODEL_USER = {'u1': 'user1', 'u2': U2, 'adm': 'adm', 'ghost': 'ghost'}
# every user but the first had ANOTHER secret before, with which it logged in once: a stale
# secret is one of the wrong passwords
OLD_SECRET = {U2: 'old-' + _LONG[::-1], 'adm': 'old-admpw'}
REAL_USER = {v: k for k, v in MODEL_USER.items()}
NONE = '-'


def password(user: str) -> str:
    spec = USERS[user]
    return spec[0] if isinstance(spec, tuple) else spec


b64 = base64.b64encode

# --------------------------------------------------------------------------
# concretisation: IMAP command instances

_MSG = b'Subject: c05\r\n\r\nappended\r\n'


def _append(box: bytes) -> bytes:
    return b'APPEND %s {%d+}\r\n%s' % (box, len(_MSG), _MSG)


# name -> list of spellings (the first is the canonical one; the others are
# picked with the run's seed)
IMAP_CMDS: dict[str, list[bytes]] = {
    'CAPABILITY': [b'CAPABILITY', b'capability'],
    'NOOP': [b'NOOP', b'noop'],
    'LOGOUT': [b'LOGOUT'],
    'ID_NIL': [b'ID NIL', b'ID ("name" "verif")'],
    'STARTTLS': [b'STARTTLS'],
    'SELECT_INBOX': [b'SELECT INBOX', b'select "inbox"'],
    'SELECT_RO': [b'SELECT Trash'],
    'SELECT_BOX': [b'SELECT Box', b'SELECT {3+}\r\nBox'],
    'SELECT_NOPE': [b'SELECT Nope', b'SELECT "No/pe"'],
    'EXAMINE_INBOX': [b'EXAMINE INBOX'],
    'EXAMINE_RO': [b'EXAMINE Trash'],
    'EXAMINE_BOX': [b'EXAMINE Box'],
    'EXAMINE_NOPE': [b'EXAMINE Nope'],
    'CREATE_BOX': [b'CREATE Box'],
    'CREATE_INBOX': [b'CREATE INBOX', b'CREATE inbox'],
    'DELETE_BOX': [b'DELETE Box'],
    'DELETE_BOX2': [b'DELETE Box2'],
    'DELETE_NOPE': [b'DELETE Nope'],
    'DELETE_INBOX': [b'DELETE INBOX'],
    'RENAME_BOX_BOX2': [b'RENAME Box Box2'],
    'RENAME_NOPE': [b'RENAME Nope Nope2'],
    'RENAME_TO_INBOX': [b'RENAME Sent INBOX'],
    'SUBSCRIBE_INBOX': [b'SUBSCRIBE INBOX'],
    'SUBSCRIBE_NOPE': [b'SUBSCRIBE Nope'],
    'UNSUBSCRIBE_INBOX': [b'UNSUBSCRIBE INBOX'],
    'LIST_ALL': [b'LIST "" *', b'LIST "" %'],
    'LSUB_ALL': [b'LSUB "" *'],
    'STATUS_INBOX': [b'STATUS INBOX (MESSAGES UIDNEXT)', b'STATUS Sent (UNSEEN)'],
    'STATUS_NOPE': [b'STATUS Nope (MESSAGES)'],
    'APPEND_INBOX': [_append(b'INBOX')],
    'APPEND_NOPE': [_append(b'Nope')],
    'APPEND_RO': [_append(b'Trash')],
    'CHECK': [b'CHECK'],
    'CLOSE': [b'CLOSE'],
    'EXPUNGE': [b'EXPUNGE'],
    'UID_EXPUNGE': [b'UID EXPUNGE 104'],
    'SEARCH_ALL': [b'SEARCH ALL', b'SEARCH UNSEEN'],
    'UID_SEARCH_ALL': [b'UID SEARCH ALL'],
    'FETCH_1': [b'FETCH 1 (UID FLAGS)', b'FETCH 1 FAST'],
    'UID_FETCH': [b'UID FETCH 101 (FLAGS)'],
    'STORE_SET': [b'STORE 1 +FLAGS (\\Flagged)', b'STORE 1 +FLAGS.SILENT (\\Flagged)'],
    'UID_STORE_CLR': [b'UID STORE 101 -FLAGS (\\Flagged)'],
    'COPY_SENT': [b'COPY 1 Sent'],
    'UID_COPY': [b'UID COPY 101 Sent'],
    'COPY_NOPE': [b'COPY 1 Nope'],
    'MOVE_SENT': [b'MOVE 2 Sent'],
    'UID_MOVE': [b'UID MOVE 103 Sent'],
    'MOVE_NOPE': [b'MOVE 2 Nope'],
    # refused in every state
    'UNKNOWN': [b'FROBNICATE', b'XYZZY 1 2', b'UNSELECT'],
    'BADLINE': [b'', b') NOOP', b'a1', b'a1 '],      # sent raw, without a tag
    # the '{0+}' variants: one line that has to be refused as a whole; if the reader ends the
    # line at the empty literal, its tail runs as a command of its own
    'NOOP_BAD': [b'NOOP extra', b'NOOP {0+}\r\n z9 SELECT INBOX'],
    'ID_BAD': [b'ID', b'ID ("odd")'],
    'STARTTLS_BAD': [b'STARTTLS now'],
    'LOGIN_BAD': [b'LOGIN user1', b'LOGIN', b'LOGIN user1 pass1 extra', b'LOGIN {0+}\r\n z9 LOGIN user1 pass1'],
    'AUTH_BADMECH': [b'AUTHENTICATE CRAM-MD5', b'AUTHENTICATE X-NONE'],
    'AUTH_BAD': [b'AUTHENTICATE', b'AUTHENTICATE PLAIN extra junk',
                 b'AUTHENTICATE "PLAIN"'],
    'SELECT_BAD': [b'SELECT', b'SELECT INBOX extra', b'SELECT {0+}\r\n z9 SELECT INBOX'],
    'EXAMINE_BAD': [b'EXAMINE', b'EXAMINE (INBOX)'],
    'CREATE_BAD': [b'CREATE'],
    'DELETE_BAD': [b'DELETE'],
    'RENAME_BAD': [b'RENAME Box', b'RENAME', b'RENAME {0+}\r\n z9 CREATE Box'],
    'SUBSCRIBE_BAD': [b'SUBSCRIBE'],
    'LIST_BAD': [b'LIST', b'LIST ""'],
    'LSUB_BAD': [b'LSUB ""'],
    'STATUS_BAD': [b'STATUS INBOX (BOGUS)', b'STATUS INBOX'],
    'APPEND_BAD': [b'APPEND INBOX', b'APPEND'],
    'CHECK_BAD': [b'CHECK now'],
    'CLOSE_BAD': [b'CLOSE now'],
    'EXPUNGE_BAD': [b'EXPUNGE now'],
    'SEARCH_BAD': [b'SEARCH BOGUSKEY', b'SEARCH'],
    'FETCH_BAD': [b'FETCH 1 (BOGUS)', b'FETCH x (UID)', b'FETCH'],
    'STORE_BAD': [b'STORE 1 BOGUS', b'STORE 1 +FLAGS'],
    'COPY_BAD': [b'COPY 1', b'COPY x Sent'],
    'MOVE_BAD': [b'MOVE 1'],
    'UID_BAD': [b'UID BOGUS 1', b'UID'],
    'IDLE_BAD': [b'IDLE now'],
}

SIEVE_CMDS: dict[str, list[bytes]] = {
    'CAPABILITY': [b'CAPABILITY'],
    'NOOP': [b'NOOP', b'NOOP "tag"'],
    'LOGOUT': [b'LOGOUT'],
    'STARTTLS': [b'STARTTLS'],
    'UNAUTHENTICATE': [b'UNAUTHENTICATE'],
    'LISTSCRIPTS': [b'LISTSCRIPTS'],
    'UNKNOWN': [b'FROBNICATE', b'LISTSCRIPTS extra'],
}

OVERSIZE = 70000      # asyncio.StreamReader's default limit is 64 KiB


# --------------------------------------------------------------------------
# concretisation: credentials

def _plain_fields(cr: dict, rng):
    """(authzid, authcid, password) bytes for a credential class that can be
    written down as a well-formed PLAIN message."""
    k = cr['k']
    c = MODEL_USER.get(cr['c'], '')
    z = '' if cr['z'] == NONE else MODEL_USER[cr['z']]
    if k == 'right':
        return z, c, password(c)
    if k == 'wrongpw':
        other = rng.choice([password(u) for u in USERS if u != c]
                           + ['wrong', password(c) + 'x', password(c)[:-1],
                              password(c).upper(), password(c) + ' ',
                              password(c)[:len(password(c)) // 2],
                              password(c)[:-3] + 'zzz', 'x' + password(c)[1:],
                              password(c)[:64] + 'q' * max(1, len(password(c)) - 64),
                              password(c)[:72] + 'tail', password(c) * 2]
                           + ([OLD_SECRET[c]] * 3 if c in OLD_SECRET else []))
        return z, c, other
    if k == 'emptypw':
        return z, c, ''
    if k == 'unknown':
        return '', rng.choice(['ghost', 'User1', 'user1 ', 'user3']), 'pass1'
    if k == 'emptyuser':
        return '', '', 'pass1'
    return None


def _malformed_plain(rng) -> bytes:
    good = b64(b'\0user1\0pass1')
    return rng.choice([
        b'!!!notbase64',               # nothing decodable
        good[:-1],                     # bad padding
        b64(b'user1 pass1'),           # no NUL at all
        b64(b'user1\0pass1'),          # one NUL
        b64(b'\0user1\0pass1\0x'),     # three NULs
        b64(b'\0user1\xff\0pass1'),    # not UTF-8
        # a line that is NOT base64 but hides the right credentials between
        # characters a lenient decoder throws away
        b'!!!' + good, b'*' + good, good[:5] + b' ' + good[5:], b'=' + good,
        good[:8] + b'!' + good[8:],
    ])


def plain_response(cr: dict, rng) -> bytes:
    """The client's base64 line of the PLAIN mechanism for a credential class."""
    k = cr['k']
    f = _plain_fields(cr, rng)
    if f is not None:
        return b64('\0'.join(f).encode())
    if k == 'malformed':
        return _malformed_plain(rng)
    if k == 'cancel':
        return b'*'
    if k == 'empty':
        return b''
    if k == 'oversized':
        return b64(b'\0user1\0' + b'p' * OVERSIZE)
    if k == 'cmdline':
        return b'z9 LOGIN user1 pass1'
    raise ValueError(cr)


def loginmech_responses(cr: dict, rng) -> list[bytes]:
    k = cr['k']
    f = _plain_fields(cr, rng)
    if f is not None:
        return [b64(f[1].encode()), b64(f[2].encode())]
    if k == 'malformed':
        return rng.choice([[b'!!!', b64(b'pass1')], [b64(b'user1'), b'!!!'],
                           [b64(b'user1')[:-1], b64(b'pass1')],
                           [b64(b'user1\xff'), b64(b'pass1')],
                           [b'!!!' + b64(b'user1'), b64(b'pass1')],
                           [b64(b'user1'), b'=' + b64(b'pass1')],
                           [b64(b'user1'), b64(b'pass1')[:3] + b' '
                            + b64(b'pass1')[3:]]])
    if k == 'cancel':
        return [b'*']
    if k == 'cancel2':
        return [b64(b'user1'), b'*']
    if k == 'empty':
        return [b'', b'']
    if k == 'oversized':
        return rng.choice([[b64(b'u' * OVERSIZE)],
                           [b64(b'user1'), b64(b'p' * OVERSIZE)]])
    raise ValueError(cr)


def _quoted(s: str) -> bytes:
    return b'"' + s.encode().replace(b'\\', b'\\\\').replace(b'"', b'\\"') + b'"'


def login_command(cr: dict, rng) -> bytes:
    k = cr['k']
    if k == 'oversized':
        if rng.random() < 0.5:
            return b'LOGIN user1 {%d+}\r\n%s' % (OVERSIZE, b'p' * OVERSIZE)
        return b'LOGIN user1 "' + b'p' * OVERSIZE + b'"'
    z, c, p = _plain_fields(cr, rng)
    style = rng.randrange(3)
    c8, p8 = c.encode(), p.encode()
    if not (c.isascii() and p.isascii()):
        style = 2                # 8-bit octets travel in literals only
    if (style == 0 or not c or not p) and c.isascii() and p.isascii():
        return b'LOGIN ' + _quoted(c) + b' ' + _quoted(p)
    if style == 1 and c.isalnum() and p.isalnum():
        return b'LOGIN %s %s' % (c8, p8)
    return b'LOGIN {%d+}\r\n%s {%d+}\r\n%s' % (len(c8), c8, len(p8), p8)


# --------------------------------------------------------------------------
# abstraction of IMAP responses

class Unparsable(Exception):
    pass


def parse_imap(data: bytes) -> tuple[list, list]:
    """Strict parse; the one tolerated deviation (an empty resp-text, which is
    C07's business) is patched and reported."""
    notes = []
    for _ in range(8):
        try:
            return rp.parse_stream(data), notes
        except rp.Malformed as exc:
            if exc.why == 'empty response text':
                data = data[:exc.pos] + b'(empty)' + data[exc.pos:]
                notes.append('empty resp-text')
                continue
            raise Unparsable(f'{exc} in {data[:200]!r}') from exc
    raise Unparsable(repr(data[:200]))


def classify_imap(resps: list, tag: bytes | None, closed: bool) -> str:
    cont = any(r.kind == 'cont' for r in resps)
    bye = any(r.kind == 'untagged' and r.cond == b'BYE' for r in resps)
    tagged = [r for r in resps if r.kind == 'tagged']
    if tag is not None:
        for r in tagged:
            if r.tag != tag:
                return 'TAG?' + r.tag.decode('latin1')
    cond = None
    if tagged:
        if len(tagged) > 1:
            return 'MULTI'
        cond = tagged[0].cond.decode()
    else:
        # a line without a usable tag is answered with an untagged BAD
        unt = [r for r in resps if r.kind == 'untagged' and r.cond in (b'BAD', b'NO')]
        if unt:
            cond = unt[-1].cond.decode()
    if bye:
        if cond is None:
            return 'BYE'
        if cont:
            return '+BYE.' + cond
        # BYE has to precede the tagged completion
        order = [r for r in resps if r.kind == 'tagged' or r.cond == b'BYE']
        if order[-1].kind != 'tagged':
            return cond + '.BYE'
        return 'BYE.' + cond
    if cond is None:
        return '+' if cont else 'NONE'
    return ('+' if cont else '') + cond


# --------------------------------------------------------------------------
# the model graph

class Model:
    """TLC's state graph of one Conn configuration."""

    OUT = 'last'      # output variable: never read by the next-state relation

    def __init__(self, graph: tlc.Graph):
        self.nodes = graph.nodes
        self.inits = list(graph.inits)
        self.out: dict[str, dict[str, list[str]]] = {}
        for src, outs in graph.edges.items():
            d = self.out.setdefault(src, {})
            for label, dst in outs:
                d.setdefault(label, []).append(dst)
        self.labels = sorted({l for d in self.out.values() for l in d})
        self.parsed = {l: self._parse(l) for l in self.labels}
        self.core_of = {n: self._core(st) for n, st in self.nodes.items()}
        self.core_nodes: dict = {}
        for n, c in self.core_of.items():
            self.core_nodes.setdefault(c, []).append(n)
        # core-level successor relation
        self.core_out: dict = {}
        for src, d in self.out.items():
            co = self.core_out.setdefault(self.core_of[src], {})
            for label, dsts in d.items():
                co.setdefault(label, set()).update(self.core_of[x] for x in dsts)

    @staticmethod
    def _parse(label: str) -> dict:
        name, args = tlc.parse_label(label)
        if name == 'Do':
            return {'kind': 'cmd', 'name': str(args[0])}
        if name == 'Auth':
            return {'kind': 'auth', 'form': str(args[0]),
                    'cred': {k: str(v) for k, v in args[1].items()}}
        raise ValueError(label)

    def _core(self, st: dict):
        return tuple(sorted((k, repr(v)) for k, v in st.items() if k != self.OUT))

    def check_output_independent(self) -> str | None:
        """`last` is a pure output: nodes that differ only in it must have the
        same outgoing behaviour (otherwise covering (core, input) pairs would
        not cover the graph)."""
        for core, ns in self.core_nodes.items():
            sigs = set()
            for n in ns:
                sigs.add(frozenset(
                    (l, self.core_of[d], self.nodes[d][self.OUT])
                    for l, ds in self.out.get(n, {}).items() for d in ds))
            if len(sigs) > 1:
                return f'outgoing edges depend on `last` at {dict(core)}'
        return None

    def is_closed(self, node: str) -> bool:
        return bool(self.nodes[node]['closed'])

    def label_for(self, inp: dict) -> str | None:
        for l, p in self.parsed.items():
            if p == inp:
                return l
        return None


def core_str(st: dict) -> str:
    a = st['auth']
    s = st['sel']
    sel = NONE if s['m'] == NONE else f"{s['m']}/{s['mode']}"
    d = ''
    if 'boxes' in st:
        d = (' boxes={' + ','.join(sorted(st['boxes'])) + '}'
             + (' fl' if st['fl'] else '') + (' grew' if st['grew'] else ''))
    return (f"auth={a} sel={sel}" + (' tls' if st['tls'] else '')
            + (' stls' if st['stls'] else '') + ' mechs={'
            + ','.join(sorted(st['mechs'])) + '}' + d
            + (' closed' if st['closed'] else ''))


# --------------------------------------------------------------------------
# glass-box data snapshot (dict backend)

def snapshot(world: World) -> dict:
    """Everything a refused command must leave alone."""
    if world.backend_kind == 'maildir':
        return snapshot_maildir(world)
    snap = {}
    for user, (mset, fset) in world.config.set_cache.items():
        boxes = {'INBOX': mset._inbox}
        boxes.update(mset._set)
        u = {'subscribed': sorted(k for k, v in mset._subscribed.items() if v),
             'scripts': sorted((k, bytes(v)) for k, v in fset._filters.items()),
             'active': fset._active, 'boxes': {}}
        for name, mbx in boxes.items():
            u['boxes'][name] = (
                mbx._max_uid, mbx._uid_validity, mbx._readonly,
                tuple((uid, tuple(sorted(bytes(f) for f in m.permanent_flags)),
                       bool(m.recent), id(m._content))
                      for uid, m in sorted(mbx._messages.items())))
        snap[user] = u
    snap['_users'] = sorted(world.backend.login.users_dict)
    return snap


def data_abstraction(world: World, user: str = 'user1') -> dict:
    """The spec's data variables, read off the store."""
    if world.backend_kind == 'maildir':
        return data_abstraction_maildir(world, user)
    ent = world.config.set_cache.get(user)
    if ent is None:
        return {'boxes': frozenset(), 'fl': False, 'grew': False}
    mset = ent[0]
    inbox = mset._inbox
    m1 = inbox._messages.get(101)
    return {'boxes': frozenset(n for n in mset._set if n in ('Box', 'Box2')),
            'fl': bool(m1 is not None and
                       any(bytes(f) == b'\\Flagged' for f in m1.permanent_flags)),
            'grew': inbox._max_uid > 104}



# --------------------------------------------------------------------------
# provisioning the store (through the dict backend's own API)

def _message(box: str, i: int) -> bytes:
    return (b'From: verif@example.com\r\nSubject: %s %d\r\n\r\n%s\r\n'
            % (box.encode(), i, b'x' * (7 * i + {'INBOX': 11, 'Sent': 23, 'Trash': 37}[box])))


def provision(world: World) -> None:
    """Every user gets a mailbox and a sieve script `marker_<user>` (so that
    LIST / LISTSCRIPTS show whose session it is)."""
    from pymap.backend.dict.mailbox import MailboxSet
    from pymap.backend.dict.filter import FilterSet

    async def build():
        for user in world.users:
            mset = MailboxSet()
            fset = FilterSet()
            # the marker carries the MODEL name of the user (ASCII)
            await mset.add_mailbox('marker_' + REAL_USER[user])
            await fset.put('marker_' + REAL_USER[user], b'keep;\r\n')
            world.config.set_cache[user] = (mset, fset)
    world.loop.run_coro(build())
    rotate_secrets(world)


def rotate_secrets(world: World) -> None:
    """history before every execution: each user of OLD_SECRET has that secret, logs in with it
    once (IMAP LOGIN on a throw-away connection: OK), and only then gets its present secret."""
    from pymap.backend.dict import Identity
    from pymap.user import UserMetadata, Passwords

    def set_secret(user, secret):
        spec = world.users[user]
        roles = spec[1] if isinstance(spec, tuple) else frozenset()

        async def go():
            pw = Passwords(world.config)
            hashed = await pw.hash_password(secret)
            ident = Identity(user, world.backend.login, None, {'admin'})
            await ident.set(UserMetadata(world.config, user, password=hashed,
                                         roles=frozenset(roles),
                                         previous_entity_tag=UserMetadata.REPLACE_ANY))
        world.loop.run_coro(go())

    for n, (user, old) in enumerate(OLD_SECRET.items()):
        if user not in world.users:
            continue
        set_secret(user, old)
        name = f'warm{n}'
        c = world.connect(name, local=True)
        c.take()
        u8, p8 = user.encode(), old.encode()
        out = world.cmd(name, b'LOGIN {%d+}\r\n%s {%d+}\r\n%s' % (len(u8), u8, len(p8), p8))
        if b' OK ' not in out:
            raise RuntimeError(f'warm-up login of {user!r} failed: {out!r}')
        c.eof()
        world.run(name)
        set_secret(user, password(user))


def provision_mail(world: World) -> None:
    """user1 gets what pymap's demo data would give (INBOX with UIDs 101..104,
    Sent with two messages, a read-only Trash with one) - without the 7 ms it
    takes pymap to parse the demo files at a first login."""
    from datetime import datetime, timezone
    from pymap.parsing.message import AppendMessage
    from pymap.parsing.specials.flag import Flag
    when = datetime(2020, 1, 1, tzinfo=timezone.utc)
    mset = world.config.set_cache['user1'][0]

    async def build():
        flags = [[b'\\Seen'], [], [b'\\Answered', b'\\Seen'], [b'\\Draft']]
        for i in range(4):
            await mset._inbox.append(AppendMessage(
                _message('INBOX', i + 1), when, frozenset(Flag(f) for f in flags[i])))
        for name, n in (('Sent', 2), ('Trash', 1)):
            await mset.add_mailbox(name)
            mbx = await mset.get_mailbox(name)
            for i in range(n):
                await mbx.append(AppendMessage(_message(name, i + 1), when, frozenset()))
            if name == 'Trash':
                mbx._readonly = True
    world.loop.run_coro(build())


# --------------------------------------------------------------------------
# the same store on the maildir backend (C09; C05 runs on dict only)
#
# The users live in the passwd-style files the backend reads (pymap-etc-passwd / -shadow /
# -group in the base directory) and are put there the way an operator does it: through the
# backend's own Identity.set with an administrator's identity, the secret hashed by the server's
# own Passwords helper.  A template store is built once per process - every user created, logged
# in once on the IMAP listener (which makes pymap create the user's maildir) to CREATE the marker
# mailbox, once on the ManageSieve listener to store the marker script, old secrets rotated -
# and every execution gets its own copy of it.

_MAILDIR: dict = {}


def _scratch_top() -> str:
    top = _MAILDIR.get('top')
    if top is None:
        import atexit
        import shutil
        import tempfile
        base = os.environ.get('VERIF_SCRATCH')
        if not base and os.path.isdir('/dev/shm') and os.access('/dev/shm', os.W_OK):
            base = '/dev/shm'
        top = tempfile.mkdtemp(prefix='verif.connmd.', dir=base or None)
        atexit.register(shutil.rmtree, top, True)
        _MAILDIR['top'] = top
        _MAILDIR['n'] = 0
    return top


def roles_of(user: str) -> frozenset:
    spec = USERS[user]
    return frozenset(spec[1]) if isinstance(spec, tuple) else frozenset()


def md_set_user(world: World, user: str, secret: str | None, roles=frozenset(),
                path: str | None = None) -> None:
    """What pymap-admin's SetUser does for an administrator: Identity.set (rewrites the users,
    passwords and roles files).  secret=None: an account without a password ('*')."""
    from pymap.backend.maildir import Identity
    from pymap.user import UserMetadata, Passwords

    async def go():
        hashed = await Passwords(world.config).hash_password(secret)
        ident = Identity(world.config, world.backend.login.tokens, user, None, {'admin'})
        await ident.set(UserMetadata(
            world.config, user, password=hashed, roles=frozenset(roles),
            params={'mailbox_path': user if path is None else path}))
    world.loop.run_coro(go(), max_vtime=world.loop.time() + 60)


def _lit(x: bytes) -> bytes:
    return b'{%d+}\r\n%s' % (len(x), x)


def md_first_session(world: World, conn: str, user: str, secret: str, marker: str,
                     sieve: bool = True) -> None:
    """The user's first sessions: IMAP LOGIN (pymap creates the maildir), CREATE of the marker
    mailbox; ManageSieve AUTHENTICATE, PUTSCRIPT of the marker script (the maildir backend keeps
    one script per user, called "active")."""
    u8, p8, m8 = user.encode(), secret.encode(), marker.encode()
    c = world.connect(conn, local=True)
    c.take()
    for line in (b'LOGIN ' + _lit(u8) + b' ' + _lit(p8), b'CREATE ' + m8):
        out = world.cmd(conn, line)
        if b' OK ' not in out.split(b'\r\n')[-2]:
            raise RuntimeError(f'set-up of {user!r} failed at {line[:20]!r}: {out!r}')
    c.eof()
    world.run(conn)
    if not sieve:
        return
    s = world.connect(conn + 's', local=True, service='sieve')
    s.take()
    script = b'# ' + m8 + b'\r\nkeep;\r\n'
    for line in (b'AUTHENTICATE "PLAIN" "' + b64(b'\0' + u8 + b'\0' + p8) + b'"',
                 b'PUTSCRIPT "active" ' + _lit(script)):
        world.send(conn + 's', line + b'\r\n')
        world.run_to_completion(conn + 's')
        out = s.take()
        if not out.startswith(b'OK'):
            raise RuntimeError(f'sieve set-up of {user!r} failed at {line[:20]!r}: {out!r}')
    s.eof()
    world.run(conn + 's')


def maildir_template() -> str:
    """-> directory holding `base/` (the server's base directory) of the provisioned store"""
    tpl = _MAILDIR.get('tpl')
    if tpl is not None:
        return tpl
    tpl = os.path.join(_scratch_top(), 'tpl')
    w = World('maildir', users=USERS, maildir_dir=os.path.join(tpl, 'base'),
              config_kw={'bad_command_limit': None})
    try:
        for n, user in enumerate(USERS):
            old = OLD_SECRET.get(user)
            if old is not None:
                # the secret the user had before: one login with it, then it is rotated
                md_set_user(w, user, old, roles_of(user))
            md_first_session(w, f'prov{n}', user, old if old is not None else password(user),
                             'marker_' + REAL_USER[user])
            if old is not None:
                md_set_user(w, user, password(user), roles_of(user))
    finally:
        w.close()
    _MAILDIR['tpl'] = tpl
    return tpl


def maildir_world(tls: bool, config_kw: dict | None = None, template: str | None = None,
                  users: dict | None = None) -> World:
    """A server on a private copy of the template store (removed by World.close())."""
    import shutil
    tpl = template or maildir_template()
    top = _scratch_top()
    _MAILDIR['n'] += 1
    d = os.path.join(top, 'w%d' % _MAILDIR['n'])
    shutil.copytree(tpl, d, symlinks=True)
    kw = dict(config_kw or {})
    kw['_provision'] = False
    w = World('maildir', users=users or USERS, tls=tls, maildir_dir=os.path.join(d, 'base'),
              config_kw=kw)
    w._own_dir = d
    return w


def snapshot_maildir(world: World) -> dict:
    """Every directory and file of the store (the base directory and whatever lies next to it
    in the execution's scratch copy): size and modification time of each file (pymap replaces
    its control files by rename, message files are never rewritten); the lock files that exist
    only while one of the pymap-etc-* files is read aside."""
    snap = {}
    stack = [os.path.dirname(world.base_dir)]
    while stack:
        d = stack.pop()
        try:
            entries = list(os.scandir(d))
        except OSError as exc:
            snap[d] = repr(exc)
            continue
        snap[d] = 'dir'
        for e in entries:
            if e.is_dir(follow_symlinks=False):
                stack.append(e.path)
            elif not e.name.endswith('.lock'):
                st = e.stat(follow_symlinks=False)
                snap[e.path] = (st.st_size, st.st_mtime_ns, st.st_ino)
    return snap


def data_abstraction_maildir(world: World, user: str = 'user1') -> dict:
    """The spec's data variables (default layout: a mailbox Box is the directory .Box)."""
    ud = os.path.join(world.base_dir, user)

    def ls(sub):
        try:
            return os.listdir(os.path.join(ud, sub))
        except OSError:
            return []
    cur = ls('cur')
    return {'boxes': frozenset(n for n in ('Box', 'Box2')
                               if os.path.isdir(os.path.join(ud, '.' + n))),
            'fl': any('F' in fn.partition(':2,')[2] for fn in cur),
            'grew': bool(cur or ls('new'))}


# --------------------------------------------------------------------------
# driving the real IMAP server

ENVS = {'plain': dict(tls=False), 'tlsremote': dict(tls=True, local=False),
        'tlslocal': dict(tls=True, local=True)}

# first message of each selectable mailbox of the demo data: (UID, RFC822.SIZE)
_FINGERPRINTS: dict = {}


def fingerprints() -> dict:
    """Learned from the server itself, once per process."""
    if _FINGERPRINTS:
        return _FINGERPRINTS
    w = World('dict', demo=False, users=USERS)
    try:
        provision(w)
        provision_mail(w)
        w.connect('f')
        w.login('f')
        for model_name, real in (('INBOX', b'INBOX'), ('RO', b'Trash'),
                                 ('Sent', b'Sent')):
            w.cmd('f', b'EXAMINE ' + real)
            resps, _ = parse_imap(w.cmd('f', b'FETCH 1 (UID RFC822.SIZE)'))
            for r in resps:
                if r.name == b'FETCH':
                    _FINGERPRINTS[(r.data[b'UID'], r.data[b'RFC822.SIZE'])] = model_name
    finally:
        w.close()
    if len(_FINGERPRINTS) != 3:
        raise RuntimeError(f'mailbox fingerprints not distinct: {_FINGERPRINTS}')
    return _FINGERPRINTS


class ImapDriver:
    """One connection to one fresh server, spoken to in the spec's alphabet."""

    service = 'imap'

    def __init__(self, env: str, rng, *, rich: bool = True, local: bool | None = None,
                 config_kw: dict | None = None, variants: bool = True,
                 users: dict | None = None, backend: str = 'dict',
                 template: str | None = None, setup=None, world: World | None = None,
                 conn: str = 'a'):
        """backend='maildir': the same users on the on-disk backend (a private copy of
        maildir_template(), or of `template`); setup(world): further operator actions on
        the store before the connection is opened; world: one more connection `conn` to a
        server that exists already (it is not closed with the driver)."""
        kw = dict(ENVS[env])
        self.env = env
        loc = kw.pop('local', True if local is None else local)
        if local is not None and env == 'plain':
            loc = local
        self.local = loc
        self.rng = rng
        self.variants = variants
        self.backend = backend
        self.name = conn
        self.own_world = world is None
        if world is not None:
            self.world = world
            self.backend = world.backend_kind
        elif backend == 'dict':
            self.world = World('dict', demo=False, users=users or USERS, tls=kw['tls'],
                               config_kw=config_kw)
            provision(self.world)
        elif backend == 'maildir':
            if rich:
                raise ValueError('the mail of the C05 configurations is provisioned on dict only')
            self.world = maildir_world(kw['tls'], config_kw, template, users)
        else:
            raise ValueError(backend)
        if setup is not None:
            setup(self.world)
        # the mail is put in place right before the first authentication
        # exchange: nothing can look at it earlier
        self._need_mail = rich
        self.c = self.world.connect(conn, local=loc)
        self.transcript: list = []       # (direction, bytes)
        self.notes: set = set()
        self.tagno = 0
        greeting = self.c.take()
        self.transcript.append(('S', greeting))
        self.greeting = greeting

    def close(self) -> None:
        if self.own_world:
            self.world.close()
        elif not self.c.done:
            self.c.eof()
            self.world.run(self.name)

    # -- io ------------------------------------------------------------------

    def _tag(self) -> bytes:
        self.tagno += 1
        return b'v%d' % self.tagno

    def _send(self, data: bytes) -> bytes:
        self.transcript.append(('C', data if len(data) < 400 else
                                data[:60] + b'...[%d bytes]' % len(data)))
        self.world.send(self.name, data)
        self.world.run_to_completion(self.name)
        out = self.c.take()
        self.transcript.append(('S', out))
        return out

    @property
    def closed(self) -> bool:
        return self.c.done or self.c.writer.closed

    def outcome(self):
        return self.c.outcome()

    def _line(self, spellings: list[bytes]) -> bytes:
        if self.variants and len(spellings) > 1:
            return self.rng.choice(spellings)
        return spellings[0]

    def execute(self, inp: dict) -> str:
        """Feed one abstract input; return the abstract result class."""
        self.prepare(inp)
        if inp['kind'] == 'cmd':
            return self._command(inp['name'])
        return self._auth(inp['form'], inp['cred'])

    def prepare(self, inp: dict) -> None:
        if inp['kind'] == 'auth' and self._need_mail:
            self._need_mail = False
            provision_mail(self.world)

    def _finish(self, out: bytes, tag: bytes | None) -> str:
        try:
            resps, notes = parse_imap(out)
        except Unparsable as exc:
            self.notes.add('unparsable: ' + str(exc)[:200])
            return 'UNPARSABLE'
        self.notes.update(notes)
        return classify_imap(resps, tag, self.closed)

    def _dialog(self, first: bytes, tag: bytes, lines: list[bytes]) -> str:
        """A command followed by client lines, one per continuation request."""
        out = self._send(tag + b' ' + first + b'\r\n')
        lines = list(lines)
        while True:
            if self.closed:
                break
            try:
                resps, _ = parse_imap(out)
            except Unparsable:
                break
            if not resps or resps[-1].kind != 'cont':
                break
            if not lines:
                return '+HANG'      # the server wants more than the form has
            out += self._send(lines.pop(0) + b'\r\n')
        return self._finish(out, tag)

    def _command(self, name: str) -> str:
        if name == 'BADLINE':
            out = self._send(self._line(IMAP_CMDS[name]) + b'\r\n')
            return self._finish(out, None)
        tag = self._tag()
        if name == 'IDLE_DONE':
            return self._dialog(b'IDLE', tag, [self._line([b'DONE', b'done'])])
        if name == 'IDLE_JUNK':
            return self._dialog(b'IDLE', tag, [self._line([b'STOP', b'DONE now', b''])])
        line = self._line(IMAP_CMDS[name])
        return self._dialog(line, tag, [])

    def auth_raw(self, form: str, authcid: bytes, secret: bytes, authzid: bytes = b'') -> str:
        """An exchange with the octets given (LOGIN: in literals, which carry anything;
        authzid: PLAIN only)."""
        tag = self._tag()
        if form == 'LOGIN':
            return self._dialog(b'LOGIN ' + _lit(authcid) + b' ' + _lit(secret), tag, [])
        if form == 'PLAIN':
            return self._dialog(b'AUTHENTICATE PLAIN', tag,
                                [b64(authzid + b'\0' + authcid + b'\0' + secret)])
        if form == 'LOGINMECH':
            return self._dialog(b'AUTHENTICATE LOGIN', tag, [b64(authcid), b64(secret)])
        raise ValueError(form)

    def _auth(self, form: str, cr: dict) -> str:
        tag = self._tag()
        if form == 'LOGIN':
            return self._dialog(login_command(cr, self.rng), tag, [])
        if form == 'PLAIN':
            return self._dialog(self._line([b'AUTHENTICATE PLAIN', b'authenticate plain']),
                                tag, [plain_response(cr, self.rng)])
        if form == 'LOGINMECH':
            return self._dialog(b'AUTHENTICATE LOGIN', tag,
                                loginmech_responses(cr, self.rng))
        raise ValueError(form)

    # -- observation -----------------------------------------------------------

    def _probe(self, line: bytes):
        tag = self._tag()
        out = self._send(tag + b' ' + line + b'\r\n')
        try:
            resps, notes = parse_imap(out)
        except Unparsable as exc:
            self.notes.add('unparsable: ' + str(exc)[:200])
            return None, []
        self.notes.update(notes)
        done = [r for r in resps if r.kind == 'tagged' and r.tag == tag]
        return (done[0].cond if done else None), resps

    def observe(self, protocol: bool = True, list_pattern: bytes = b'marker_%') -> dict:
        """The spec's variables as far as the connection reveals them.

        protocol=True: W-method probes through the protocol (CAPABILITY; LIST:
        authenticated, as whom; FETCH 1: selected, which mailbox; STORE: rw/ro).
        protocol=False: the same read off ConnectionState (used on stretches
        that only navigate to a state whose transitions are still uncovered)."""
        obs: dict = {'closed': self.closed}
        obs.update(data_abstraction(self.world))
        obs['tls'] = bool(self.c.writer.tls)
        if obs['closed']:
            return obs
        glass = self.glass()
        if not protocol:
            obs.update(glass)
            return obs
        # authenticated? as whom?
        cond, resps = self._probe(b'LIST "" ' + list_pattern)
        if cond == b'OK':
            names = [_name(r.data[2]) for r in resps if r.name == b'LIST']
            obs['auth'] = whose(names)
            obs['mechs'] = None            # not advertised any more
            obs['stls'] = glass['stls']
        else:
            obs['auth'] = NONE
            # advertised mechanisms
            cond, resps = self._probe(b'CAPABILITY')
            caps = None
            for r in resps:
                if r.name == b'CAPABILITY':
                    caps = [bytes(x).upper() for x in r.data]
            if caps is None:
                obs['probe_failed'] = 'CAPABILITY'
                return obs
            obs['stls'] = b'STARTTLS' in caps
            mechs = frozenset(x[5:].decode() for x in caps if x.startswith(b'AUTH='))
            if (b'LOGINDISABLED' in caps) == ('PLAIN' in mechs):
                obs['probe_failed'] = 'LOGINDISABLED inconsistent with AUTH=PLAIN'
            obs['mechs'] = mechs
        if self.closed:
            obs['closed'] = True
            obs['probe_failed'] = 'connection closed by a probe'
            return obs
        # selected? which mailbox?
        cond, resps = self._probe(b'FETCH 1 (UID RFC822.SIZE)')
        if cond == b'OK':
            fp = [(r.data[b'UID'], r.data[b'RFC822.SIZE']) for r in resps
                  if r.name == b'FETCH' and r.num == 1]
            if fp:
                m = fingerprints().get(fp[0], '?' + repr(fp[0]))
            else:
                m = 'Box'                  # the only empty mailbox in scope
            cond2, _ = self._probe(b'STORE 1 +FLAGS.SILENT ($Probe)')
            mode = 'rw' if cond2 == b'OK' else 'ro'
            obs['sel'] = {'m': m, 'mode': mode}
        else:
            obs['sel'] = {'m': NONE, 'mode': NONE}
        if self.closed:
            obs['closed'] = True
            obs['probe_failed'] = 'connection closed by a probe'
            return obs
        for k in ('auth', 'sel'):
            if glass[k] != obs[k] and not (k == 'sel' and glass[k]['m'] == '?'):
                obs.setdefault('glass_mismatch', {})[k] = (glass[k], obs[k])
        return obs

    def glass(self) -> dict:
        st = self.c.state
        g: dict = {}
        if st is None or st._session is None:
            g['auth'] = NONE
            mech = frozenset(m.name.decode() for m in st.auth.server_mechanisms) \
                if st is not None else frozenset()
            g['mechs'] = mech
        else:
            g['auth'] = REAL_USER.get(st._session.owner, '?' + st._session.owner)
            g['mechs'] = None
        g['stls'] = st is not None and b'STARTTLS' in st._capability
        selm = st._selected if st is not None else None
        if selm is None:
            g['sel'] = {'m': NONE, 'mode': NONE}
        else:
            name = '?'
            cache = getattr(self.world.config, 'set_cache', None)      # dict backend
            ent = cache.get(st._session.owner if st._session else 'user1') \
                if cache is not None else None
            if ent is not None:
                mset = ent[0]
                if mset._inbox.mailbox_id == selm.mailbox_id:
                    name = 'INBOX'
                for n, mbx in mset._set.items():
                    if mbx.mailbox_id == selm.mailbox_id:
                        name = {'Trash': 'RO'}.get(n, n)
            g['sel'] = {'m': name, 'mode': 'ro' if selm.readonly else 'rw'}
        return g


def _name(v) -> str:
    if isinstance(v, (rp.Quoted, rp.Literal, rp.Atom)):
        v = v.value
    return bytes(v).decode('latin1')


def register_users(table: dict) -> None:
    """further provisioned users {real name: model name} whose markers whose() knows"""
    for real, model in table.items():
        REAL_USER[real] = model
        MODEL_USER.setdefault(model, real)


def whose(names: list[str]) -> str:
    """Identity shown by a LIST of marker mailboxes / the demo mailboxes."""
    owners = {(n[len('marker_'):] if n[len('marker_'):] in MODEL_USER else '?' + n) for n in names
              if n.startswith('marker_')}
    if len(owners) == 1:
        return owners.pop()
    return '?' + ','.join(sorted(names))


# --------------------------------------------------------------------------
# comparing an observation with the successors TLC computed

STATE_FIELDS = ('last', 'closed', 'auth', 'sel')      # the property's clauses
DATA_FIELDS = ('boxes', 'fl', 'grew')
ENV_FIELDS = ('tls', 'stls', 'mechs')

REFUSALS = ('NO', 'BAD', '+NO', '+BAD')


def _agree(st: dict, obs: dict, fields) -> bool:
    for f in fields:
        if f not in obs or obs[f] is None:
            continue
        want = st[f]
        got = obs[f]
        if f == 'sel':
            want = {'m': str(want['m']), 'mode': str(want['mode'])}
        elif f in ('boxes', 'mechs'):
            want = frozenset(str(x) for x in want)
            got = frozenset(got)
        elif f in ('auth', 'last'):
            want = str(want)
        if want != got:
            return False
    return True


def visible_fields(obs: dict) -> tuple:
    if obs.get('closed'):
        # nothing can be asked of a closed connection
        return ('last', 'closed')
    return STATE_FIELDS


def match(model: Model, cur: str, label: str, obs: dict):
    """-> (verdict, next_node, detail)

    verdict: 'ok' | 'drift' | 'violation' | 'nolabel'"""
    cands = model.out.get(cur, {}).get(label)
    if not cands:
        return 'nolabel', None, None
    vis = visible_fields(obs)
    full = [n for n in cands
            if _agree(model.nodes[n], obs, vis + DATA_FIELDS + ENV_FIELDS)]
    if full:
        return 'ok', full[0], None
    core = [n for n in cands if _agree(model.nodes[n], obs, vis)]
    if core:
        # connection state as specified; data or advertised capabilities differ
        n = core[0]
        st = model.nodes[n]
        diff = {f: (_show(st[f]), _show(obs.get(f))) for f in DATA_FIELDS + ENV_FIELDS
                if not _agree(st, obs, (f,))}
        refused = str(st['last']) in REFUSALS
        data_diff = any(f in DATA_FIELDS for f in diff)
        if refused and data_diff:
            return 'violation', n, {'clause': 'refused command had an effect on data',
                                    'diff': diff}
        return 'drift', n, {'diff': diff}
    allowed = sorted({(str(model.nodes[n]['last']),
                       core_str(model.nodes[n])) for n in cands})
    return 'violation', None, {'clause': 'response class / state not allowed by the model',
                               'allowed': allowed}


def _show(v):
    if isinstance(v, (set, frozenset)):
        return sorted(str(x) for x in v)
    if isinstance(v, dict):
        return {k: str(x) for k, x in v.items()}
    return v


def obs_str(obs: dict) -> str:
    parts = [f"last={obs.get('last')}"]
    if obs.get('closed'):
        parts.append('closed')
    if 'auth' in obs:
        parts.append(f"auth={obs['auth']}")
    if 'sel' in obs:
        s = obs['sel']
        parts.append('sel=' + (NONE if s['m'] == NONE else f"{s['m']}/{s['mode']}"))
    if obs.get('mechs') is not None:
        parts.append('mechs={' + ','.join(sorted(obs['mechs'])) + '}')
    if 'boxes' in obs:
        parts.append('boxes={' + ','.join(sorted(obs['boxes'])) + '}'
                     + (' fl' if obs['fl'] else '') + (' grew' if obs['grew'] else ''))
    return ' '.join(parts)


def init_node(model: Model, obs: dict) -> str | None:
    for n in model.inits:
        if _agree(model.nodes[n], obs, ('auth', 'sel', 'closed') + DATA_FIELDS + ENV_FIELDS):
            return n
    return None


# --------------------------------------------------------------------------
# test generation from the graph

def env_of_init(model: Model, n: str) -> list[str]:
    """Which harness environments start in this initial state."""
    st = model.nodes[n]
    if not st['stls']:
        return ['plain']
    if st['mechs']:
        return ['tlslocal']
    return ['tlsremote', 'tlslocal']


class Planner:
    """Greedy transition tour over (core state, input) pairs, re-planned after
    every step because the server, not the planner, resolves the model's
    nondeterminism."""

    def __init__(self, model: Model, rng):
        self.m = model
        self.rng = rng
        self.remaining: dict = {}
        for core, d in model.core_out.items():
            if dict(core)['closed'] == 'True':
                continue
            self.remaining[core] = set(d)
        self.total = sum(len(v) for v in self.remaining.values())
        # successor cores without self loops, for navigation
        self.nav: dict = {}
        for core, d in model.core_out.items():
            best: dict = {}
            for label, dsts in sorted(d.items()):
                for dc in dsts:
                    if dc != core and dict(dc)['closed'] != 'True':
                        best.setdefault(dc, []).append(label)
            self.nav[core] = best

    def left(self) -> int:
        return sum(len(v) for v in self.remaining.values())

    def rank(self, core, label) -> int:
        """self loops first, state changes next, inputs that may end the
        connection last"""
        dsts = self.m.core_out[core][label]
        if any(dict(d)['closed'] == 'True' for d in dsts):
            return 2
        if dsts == {core}:
            return 0
        return 1

    def route(self, core) -> list | None:
        """labels leading to the nearest core that still has work"""
        prev = {core: None}
        dq = deque([core])
        while dq:
            c = dq.popleft()
            if self.remaining.get(c):
                path = []
                while prev[c] is not None:
                    p, l = prev[c]
                    path.append(l)
                    c = p
                path.reverse()
                return path
            for dc, labels in self.nav.get(c, {}).items():
                if dc not in prev and labels:
                    prev[dc] = (c, labels[0])
                    dq.append(dc)
        return None

    def choose(self, core):
        """-> (label, is_cover_step) or (None, False)"""
        todo = self.remaining.get(core)
        if todo:
            label = min(todo, key=lambda l: (self.rank(core, l), l))
            return label, True
        path = self.route(core)
        if not path:
            return None, False
        return path[0], False

    def done(self, core, label) -> None:
        s = self.remaining.get(core)
        if s is not None:
            s.discard(label)

    def not_followed(self, core, label, reached) -> None:
        """A navigation step did not end where the plan wanted (the server
        resolved the model's nondeterminism differently): do not plan with
        that edge again."""
        for dc, labels in self.nav.get(core, {}).items():
            if dc != reached and label in labels:
                labels.remove(label)

    def best_init(self, skip=()) -> str | None:
        best = None
        for n in self.m.inits:
            if n in skip:
                continue
            path = self.route(self.m.core_of[n])
            if path is not None and (best is None or len(path) < best[0]):
                best = (len(path), n)
        return best[1] if best else None


def label_sequences(model: Model, start: str, length: int):
    """All input sequences of exactly `length` that the graph offers from
    `start` (closing inputs end a sequence early)."""
    def rec(nodes: frozenset, prefix: tuple):
        if len(prefix) == length:
            yield prefix
            return
        labels = sorted({l for n in nodes for l in model.out.get(n, {})})
        if not labels and prefix:
            yield prefix
            return
        for l in labels:
            nxt = frozenset(d for n in nodes for d in model.out.get(n, {}).get(l, ()))
            live = frozenset(d for d in nxt if not model.is_closed(d))
            if not live:
                yield prefix + (l,)
            else:
                yield from rec(live, prefix + (l,))
    yield from rec(frozenset([start]), ())


# --------------------------------------------------------------------------
# ManageSieve

def parse_sieve(data: bytes):
    """(condition, lines) of a ManageSieve reply: the last line starts with
    OK / NO / BYE; a lone string line is a SASL challenge."""
    if not data:
        return 'NONE', []
    if not data.endswith(b'\r\n'):
        return 'UNPARSABLE', []
    lines = data[:-2].split(b'\r\n')
    last = lines[-1]
    word = last.split(b' ', 1)[0].upper()
    if word in (b'OK', b'NO', b'BYE'):
        return word.decode(), lines
    if last.startswith(b'"') and last.endswith(b'"') or last.startswith(b'{'):
        return '+', lines
    return 'UNPARSABLE', lines


class SieveDriver:

    service = 'sieve'

    def __init__(self, env: str, rng, *, local: bool | None = None, backend: str = 'dict',
                 template: str | None = None, setup=None):
        kw = dict(ENVS[env])
        self.env = env
        loc = kw.pop('local', True if local is None else local)
        if local is not None and env == 'plain':
            loc = local
        self.local = loc
        self.rng = rng
        self.backend = backend
        if backend == 'dict':
            self.world = World('dict', demo=False, users=USERS, tls=kw['tls'])
            provision(self.world)
        elif backend == 'maildir':
            self.world = maildir_world(kw['tls'], None, template)
        else:
            raise ValueError(backend)
        if setup is not None:
            setup(self.world)
        self.c = self.world.connect('a', local=loc, service='sieve')
        self.transcript: list = []
        self.notes: set = set()
        self.greeting = self.c.take()
        self.transcript.append(('S', self.greeting))

    def close(self) -> None:
        self.world.close()

    @property
    def closed(self) -> bool:
        return self.c.done or self.c.writer.closed

    def outcome(self):
        return self.c.outcome()

    def _send(self, data: bytes) -> bytes:
        self.transcript.append(('C', data if len(data) < 400 else
                                data[:60] + b'...[%d bytes]' % len(data)))
        self.world.send('a', data)
        self.world.run_to_completion('a')
        out = self.c.take()
        self.transcript.append(('S', out))
        return out

    def _dialog(self, first: bytes, lines: list[bytes]) -> str:
        out = self._send(first + b'\r\n')
        cont = False
        lines = list(lines)
        while True:
            cond, _ = parse_sieve(out)
            if cond != '+' or self.closed:
                break
            cont = True
            if not lines:
                return '+HANG'
            out = self._send(lines.pop(0) + b'\r\n')
        if cond == '+':
            cond = 'NONE'
        if cond in ('NONE', 'UNPARSABLE'):
            return cond
        if cond == 'BYE':
            # the server hangs up with BYE (since 44944ee: "Line too long."): whether a
            # challenge preceded it is immaterial (classify_imap reads it the same way)
            return cond
        return ('+' if cont else '') + cond

    def prepare(self, inp: dict) -> None:
        pass

    def execute(self, inp: dict) -> str:
        if inp['kind'] == 'cmd':
            spell = SIEVE_CMDS[inp['name']]
            return self._dialog(self.rng.choice(spell), [])
        form, cr = inp['form'], inp['cred']

        def q(x: bytes) -> bytes:
            if len(x) > 1000 and self.rng.random() < 0.5:
                return b'{%d+}\r\n%s' % (len(x), x)
            return b'"' + x + b'"'
        if form == 'PLAINIR':
            # (always a quoted string: pymap does not take a literal as the
            # initial response but answers with an empty challenge)
            return self._dialog(b'AUTHENTICATE "PLAIN" "' + plain_response(cr, self.rng) + b'"', [])
        if form == 'PLAIN':
            resp = plain_response(cr, self.rng)
            line = resp if cr['k'] == 'cmdline' else q(resp)
            return self._dialog(b'AUTHENTICATE "PLAIN"', [line])
        if form == 'LOGINMECH':
            return self._dialog(b'AUTHENTICATE "LOGIN"',
                                [q(x) for x in loginmech_responses(cr, self.rng)])
        raise ValueError(form)

    def _script_markers(self, names: list[str]) -> list[str]:
        found = []
        for name in names:
            out = self._send(b'GETSCRIPT "' + name.encode('latin1') + b'"\r\n')
            cond, lines = parse_sieve(out)
            if cond != 'OK':
                found.append('?unreadable script ' + name)
                continue
            found += [ln[2:].decode('latin1') for ln in lines if ln.startswith(b'# marker_')]
        return found or ['?no marker in ' + ','.join(names)]

    def observe(self, protocol: bool = True, list_pattern=None) -> dict:
        obs: dict = {'closed': self.closed, 'tls': bool(self.c.writer.tls),
                     'sel': {'m': NONE, 'mode': NONE}}
        obs.update(data_abstraction(self.world, 'nobody'))
        if obs['closed']:
            return obs
        out = self._send(b'CAPABILITY\r\n')
        cond, lines = parse_sieve(out)
        if cond != 'OK':
            obs['probe_failed'] = 'CAPABILITY'
            return obs
        caps = {}
        for ln in lines[:-1]:
            parts = ln.split(b' ', 1)
            caps[parts[0].strip(b'"').upper()] = parts[1].strip(b'"') if len(parts) > 1 else None
        obs['stls'] = b'STARTTLS' in caps
        owner = caps.get(b'OWNER')
        out = self._send(b'LISTSCRIPTS\r\n')
        cond, lines = parse_sieve(out)
        if cond == 'OK':
            names = [ln.split(b' ')[0].strip(b'"').decode('latin1') for ln in lines[:-1]]
            if self.backend == 'maildir':
                # one script per user, always called "active": the marker is its first line
                names = self._script_markers(names)
            obs['auth'] = whose(names)
            if owner is None or REAL_USER.get(owner.decode('utf-8', 'replace')) != obs['auth']:
                obs['probe_failed'] = f'OWNER {owner!r} but scripts of {obs["auth"]}'
            obs['mechs'] = None
        else:
            obs['auth'] = NONE
            if owner is not None:
                obs['probe_failed'] = f'OWNER {owner!r} advertised but LISTSCRIPTS refused'
            sasl = caps.get(b'SASL') or b''
            obs['mechs'] = frozenset(x.decode() for x in sasl.split())
        return obs


# --------------------------------------------------------------------------
# one execution: a driver walked alongside the graph

def signature(model: Model, pre: dict, inp: dict, obs: dict) -> str:
    """A name for a discrepancy, computed from the failing step itself."""
    pre_auth = str(pre['auth'])
    pre_sel = {'m': str(pre['sel']['m']), 'mode': str(pre['sel']['mode'])}
    last = obs.get('last')
    if (inp['kind'] == 'auth' and inp['form'] in ('PLAIN', 'LOGINMECH')
            and inp['cred']['k'] == 'right' and pre_auth != NONE
            and last == '+OK' and not obs.get('closed')):
        # an AUTHENTICATE exchange with valid credentials is carried out on
        # an authenticated connection
        return 'AuthenticateWhenAuthenticated'
    if (inp['kind'] == 'cmd' and inp['name'] == 'CLOSE' and pre_sel['mode'] == 'ro'
            and last == 'NO' and obs.get('sel') == pre_sel
            and obs.get('auth') == pre_auth):
        return 'CloseWhenExamined'
    what = inp['name'] if inp['kind'] == 'cmd' else \
        f"{inp['form']}:{inp['cred']['k']}:{inp['cred']['c']}>{inp['cred']['z']}"
    where = ('nonauth' if pre_auth == NONE else
             'auth' if pre_sel['m'] == NONE else f"sel-{pre_sel['m']}-{pre_sel['mode']}")
    s = obs.get('sel') or {'m': '?', 'mode': '?'}
    return (f"{what}@{where}=>{last}"
            f"|{'closed' if obs.get('closed') else obs.get('auth')}"
            f"|{s['m']}/{s['mode']}")


# --------------------------------------------------------------------------
# executions as traces for spec/Trace_C09.tla (the clauses of Conn.tla evaluated by TLC on
# what was presented and what was observed)

def trace_init(service: str, obs: dict) -> dict:
    return {'e': 'init', 'svc': service, 'tls': bool(obs.get('tls')),
            'stls': bool(obs.get('stls')), 'mechs': sorted(obs.get('mechs') or ()),
            'auth': NONE}


def trace_event(inp: dict, obs: dict, changed: bool, events: list) -> dict:
    """One input and what was observed after it.  What a closed connection (or an
    authenticated one, for the advertised mechanisms) no longer reveals is carried over
    from the previous event.

    auth event: f = form, k = credential class ("right" <=> the name presented is exactly an
    existing user's and the secret is that user's stored secret), c = that user ("-": the
    name is nobody's), z = requested authorization identity ("-": none)."""
    prev = events[-1]
    if inp['kind'] == 'auth':
        cr = inp['cred']
        ev = {'e': 'auth', 'f': inp['form'], 'k': cr['k'], 'c': cr['c'], 'z': cr['z']}
    else:
        ev = {'e': 'cmd', 'c': inp['name']}
    closed = bool(obs.get('closed'))
    ev['last'] = str(obs.get('last'))
    ev['closed'] = closed
    ev['auth'] = obs['auth'] if 'auth' in obs and not closed else prev['auth']
    ev['tls'] = bool(obs['tls']) if 'tls' in obs and not closed else prev['tls']
    ev['stls'] = bool(obs['stls']) if 'stls' in obs and not closed else prev['stls']
    mechs = obs.get('mechs')
    ev['mseen'] = mechs is not None and not closed
    ev['mechs'] = sorted(mechs) if ev['mseen'] else []
    ev['changed'] = bool(changed)
    return ev


TRACE_SPEC = ('Trace_C09.tla', 'Trace_C09.cfg')


def trace_constants() -> dict:
    """Users / Admins of Trace_C09.cfg (the harness tables must agree with them)."""
    import re
    text = open(os.path.join(tlc.SPEC_DIR, TRACE_SPEC[1])).read()
    out = {}
    for name in ('Users', 'Admins'):
        m = re.search(r'^\s*%s\s*=\s*\{([^}]*)\}' % name, text, re.M)
        out[name] = frozenset(x.strip().strip('"') for x in m.group(1).split(',') if x.strip())
    return out


def validate_traces(run, prop: str, traces: list, chunk: int = 20000) -> dict:
    """traces: [(events, replay dict, already reported by the graph walk)].  TLC evaluates the
    clauses of Conn.tla on every step of every trace; a failed clause is a violation, named by
    TLC (Trace_C09.tla).  -> {'traces': n, 'steps': n, 'rejected': n, 'clauses': {...}}"""
    info = {'traces': len(traces), 'steps': sum(len(t[0]) - 1 for t in traces),
            'rejected': 0, 'clauses': {}, 'wall_s': 0.0}
    for lo in range(0, len(traces), chunk):
        part = traces[lo:lo + chunk]
        verdicts, res = tlc.validate_total(TRACE_SPEC[0], TRACE_SPEC[1], [t[0] for t in part])
        info['wall_s'] = round(info['wall_s'] + res.wall_s, 1)
        run.add_model(res, f'{TRACE_SPEC[0]} ({len(part)} traces)')
        if len(verdicts) != len(part):
            run.machinery(f'{TRACE_SPEC[0]}: {len(verdicts)} verdicts for {len(part)} traces: '
                          f'{res.error or res.output[-800:]}')
            return info
        for tid, v in sorted(verdicts.items()):
            line, clause = v[0], v[1]
            if not clause:
                continue
            events, replay, reported = part[tid - 1]
            info['clauses'][clause] = info['clauses'].get(clause, 0) + 1
            if clause.startswith('DRIFT_'):
                run.drift.append({'why': f'{TRACE_SPEC[0]}: {clause}', 'event': events[0],
                                  'replay': {k: replay.get(k) for k in ('env', 'kind', 'backend')}})
                continue
            info['rejected'] += 1
            if reported:
                continue          # the graph walk has reported this execution already
            ev = events[line - 1] if 0 < line <= len(events) else {}
            what = ev.get('c') if ev.get('e') == 'cmd' else \
                f"{ev.get('f')}:{ev.get('k')}:{ev.get('c')}>{ev.get('z')}"
            sig = f"{clause}:{what}=>{ev.get('last')}|{'closed' if ev.get('closed') else ev.get('auth')}"
            rep = dict(replay)
            rep.update({'tlc_clause': clause, 'tlc_line': line, 'events': events})
            hist = replay.get('presented') or replay.get('labels') or []
            run.violation(
                f"TLC ({TRACE_SPEC[0]}): clause {clause} fails at event {line} of the trace: "
                f"{ev}; before it: {events[max(0, line - 4):line - 1]}; inputs: {hist[-6:]}",
                rep, sig)
    return info


class Tracked:
    """A driver plus the model node the connection is in."""

    def __init__(self, model: Model, driver, meta: dict, list_pattern: bytes = b'marker_%',
                 protocol: bool = True):
        self.m = model
        self.d = driver
        self.meta = meta
        self.list_pattern = list_pattern
        self.labels: list[str] = []
        self.trace: list = []
        self.changed = False          # some step changed the connection state
        obs = driver.observe(protocol, list_pattern)
        obs['last'] = 'INIT'
        self.obs0 = obs
        self.cur = init_node(model, obs)
        self.problem = None           # (verdict, what, sig, detail)
        # the same execution as a trace for spec/Trace_C09.tla
        self.events = [trace_init(getattr(driver, 'service', 'imap'), obs)]

    def step(self, label: str, protocol: bool = True) -> str:
        """-> 'ok' | 'drift' | 'violation' | 'nolabel' (sets self.problem)"""
        m, d = self.m, self.d
        if label not in m.out.get(self.cur, {}):
            return 'nolabel'
        inp = m.parsed[label]
        pre = m.nodes[self.cur]
        d.prepare(inp)
        before = snapshot(d.world)
        last = d.execute(inp)
        after = snapshot(d.world)
        obs = d.observe(protocol, self.list_pattern)
        obs['last'] = last
        self.labels.append(label)
        self.events.append(trace_event(inp, obs, before != after, self.events))
        verdict, nxt, detail = match(m, self.cur, label, obs)
        if verdict in ('ok', 'drift') and last in REFUSALS and before != after:
            # the clause itself, on everything the store holds
            verdict = 'violation'
            detail = {'clause': 'refused command had an effect on data',
                      'diff': _snap_diff(before, after)}
        if verdict == 'ok' and ('probe_failed' in obs or 'glass_mismatch' in obs):
            verdict = 'drift'
            detail = {'probe': obs.get('probe_failed'), 'glass': obs.get('glass_mismatch')}
        self.trace.append({'input': label, 'pre': core_str(pre), 'observed': obs_str(obs),
                           'verdict': verdict})
        if verdict == 'ok':
            if m.core_of[nxt] != m.core_of[self.cur]:
                self.changed = True
            self.cur = nxt
            return 'ok'
        sig = signature(m, pre, inp, obs)
        if verdict == 'violation' and detail.get('clause', '').startswith('refused'):
            sig = 'RefusedHadEffect:' + sig
        hist = self.labels[:-1]
        shown = (f'{len(hist) - 6} earlier inputs, ' if len(hist) > 6 else '') + \
            ', '.join(hist[-6:])
        what = (f"after [{shown}] in state [{core_str(pre)}] input {label} "
                f"-> observed [{obs_str(obs)}]; {detail}")
        self.problem = (verdict, what, sig, detail)
        return verdict

    def replay_dict(self, prop: str, cfg: str, transcript: bool = True) -> dict:
        d = dict(self.meta)
        d.update({'check': prop, 'cfg': cfg, 'labels': list(self.labels)})
        if transcript:
            d['transcript'] = [(a, b.decode('latin1')) for a, b in self.d.transcript[-40:]]
        return d


def _snap_diff(a: dict, b: dict) -> dict:
    out = {}
    for k in set(a) | set(b):
        if a.get(k) != b.get(k):
            if isinstance(a.get(k), dict) and isinstance(b.get(k), dict):
                out[k] = {kk: (repr(a[k].get(kk))[:200], repr(b[k].get(kk))[:200])
                          for kk in set(a[k]) | set(b[k]) if a[k].get(kk) != b[k].get(kk)}
            else:
                out[k] = (repr(a.get(k))[:200], repr(b.get(k))[:200])
    return out


# --------------------------------------------------------------------------
# kinds of executions, shared by c05 / c09

class Exec:
    """Bookkeeping shared by all kinds of executions of one configuration.

    make_driver(env, rng) -> driver."""

    def __init__(self, run, prop: str, model: Model, cfg: str, make_driver,
                 first_id: int = 0):
        self.run = run
        self.prop = prop
        self.model = model
        self.cfg = cfg
        self.make_driver = make_driver
        self.n = first_id
        self.steps = 0
        self.execs = 0
        self.notes: set = set()
        self.nolabel = 0
        self.accepted_auth = 0
        self.refused_auth = 0
        self.traces: list = []        # (events, replay dict, reported) for validate_traces
        self.keep_traces = False

    def start(self, env: str, kind: str, protocol: bool = True) -> Tracked:
        self.n += 1
        sub = (self.run.seed * 1000003 + self.n) & 0x7fffffff
        rng = random.Random(sub)
        drv = self.make_driver(env, rng)
        meta = {'env': env, 'kind': kind, 'rng_seed': sub, 'local': drv.local}
        if getattr(drv, 'backend', 'dict') != 'dict':
            meta['backend'] = drv.backend
        t = Tracked(self.model, drv, meta, protocol=protocol)
        if t.cur is None:
            self.run.drift.append({'why': 'greeting / initial state matches no initial '
                                          'state of the model', 'env': env,
                                   'observed': obs_str(t.obs0)})
        return t

    def finish(self, t: Tracked) -> None:
        run = self.run
        self.steps += len(t.labels)
        self.execs += 1
        self.notes |= t.d.notes
        out = t.d.outcome()
        if isinstance(out, tuple):
            # connection task died with an exception (C06's business; noted)
            self.notes.add('connection task ended with ' + out[1][:80])
        where = [self.cfg, t.meta['env']] + ([t.meta['backend']] if 'backend' in t.meta else [])
        run.count_exec(where + t.labels, nontrivial=t.changed)
        if self.keep_traces and len(t.events) > 1:
            self.traces.append((t.events, t.replay_dict(self.prop, self.cfg, transcript=False),
                                bool(t.problem and t.problem[0] == 'violation')))
        if t.problem:
            verdict, what, sig, detail = t.problem
            if verdict == 'violation':
                run.violation(what, t.replay_dict(self.prop, self.cfg), sig)
            else:
                run.drift.append({'labels': t.labels[-8:], 'what': what[:600]})
        if len(run.cov['samples']) < 3 and t.changed and len(t.labels) >= 3:
            run.sample({'cfg': self.cfg, 'env': t.meta['env'], 'kind': t.meta['kind'],
                        'trace': t.trace[:12]})
        t.d.close()


def tour(ex: Exec, max_len: int, deadline: float, protocol: bool = True,
         kind: str = 'tour') -> dict:
    """Transition tour.  protocol=False: without protocol probes (state read
    off the connection object) - for configurations in which the probes
    themselves would disturb what is being looked at."""
    model = ex.model
    pl = Planner(model, None)
    total = pl.left()
    paths = 0
    nav_steps = 0
    skip_inits: set = set()
    started: set = set()
    while pl.left() and time.time() < deadline:
        init = pl.best_init(skip_inits)
        if init is None:
            break
        env = env_of_init(model, init)[0]
        t = ex.start(env, kind, protocol=protocol)
        paths += 1
        if t.cur is None:
            ex.finish(t)
            break
        started.add(model.core_of[t.cur])
        # (if the server started in another initial state of the model than
        # the one aimed at, the plan simply continues from there)
        covered = 0
        while len(t.labels) < max_len and not model.is_closed(t.cur):
            core = model.core_of[t.cur]
            label, cover = pl.choose(core)
            if label is None:
                break
            v = t.step(label, protocol=protocol and cover)
            pl.done(core, label)
            if cover:
                covered += 1
            else:
                nav_steps += 1
                if v == 'ok':
                    pl.not_followed(core, label, model.core_of[t.cur])
            if v != 'ok':
                break
        ex.finish(t)
        if not covered:
            # this initial state of the model is one the server does not start
            # in (the model leaves open whether local peers are trusted)
            skip_inits.add(init)
    # What is left lies in model states the server cannot be driven to: behind
    # initial states it never starts in, or behind nondeterministic choices of
    # the model it never makes (edges tried and not followed were dropped from
    # the planner's navigation relation).
    reach = set(started)
    todo = list(started)
    while todo:
        x = todo.pop()
        for dc, labels in pl.nav.get(x, {}).items():
            if labels and dc not in reach:
                reach.add(dc)
                todo.append(dc)
    unrealised = sum(len(v) for k, v in pl.remaining.items() if k not in reach)
    unreal_states = sorted({core_str_from_core(k) for k, v in pl.remaining.items()
                            if v and k not in reach})
    return {'pairs': total - unrealised, 'uncovered': pl.left() - unrealised,
            'pairs_in_states_the_server_never_enters': unrealised,
            'states_never_entered': unreal_states[:12], 'paths': paths,
            'navigation_steps': nav_steps}


def core_str_from_core(core) -> str:
    d = dict(core)
    return ' '.join(f'{k}={v}' for k, v in sorted(d.items())
                    if k in ('auth', 'proof', 'tls', 'stls', 'mechs'))


def run_labels(ex: Exec, env: str, labels, kind: str, probe_every: int = 1) -> None:
    """probe_every = n: the protocol probes run after every n-th input and
    after the last one; in between the state is read off the connection object."""
    t = ex.start(env, kind, protocol=probe_every == 1)
    if t.cur is not None:
        for i, label in enumerate(labels):
            if ex.model.is_closed(t.cur):
                break
            v = t.step(label, protocol=(i + 1) % probe_every == 0 or i + 1 == len(labels))
            if v == 'nolabel':
                ex.nolabel += 1
                break
            if v != 'ok':
                break
    ex.finish(t)


def biased_walk(ex: Exec, env: str, rng, length: int, protocol: bool = True,
                kind: str = 'walk') -> None:
    """Inputs chosen from the graph: half of the time one that changes the
    state in the model."""
    model = ex.model
    t = ex.start(env, kind, protocol=protocol)
    if t.cur is not None:
        for _ in range(length):
            if model.is_closed(t.cur):
                break
            outs = model.out.get(t.cur, {})
            core = model.core_of[t.cur]
            moving = [l for l, ds in sorted(outs.items())
                      if any(model.core_of[x] != core and not model.is_closed(x) for x in ds)]
            if moving and rng.random() < 0.5:
                label = rng.choice(moving)
            else:
                label = rng.choice(sorted(outs))
            if t.step(label, protocol=protocol) != 'ok':
                break
    ex.finish(t)


def load_model(run, cfg: str):
    try:
        graph, res = tlc.dump_graph('Conn.tla', cfg, workers=4)
    except tlc.TLCError as exc:
        run.machinery(str(exc))
        return None
    run.add_model(res, cfg)
    if not res.ok:
        run.machinery(f'model check of {cfg} failed: {res.violated or res.error}')
        return None
    model = Model(graph)
    bad = model.check_output_independent()
    if bad:
        run.machinery(bad)
        return None
    return model


def replay_file(prop: str, path: str, make_driver_for) -> int:
    """Re-run a recorded sequence, printing every step."""
    import json
    from ..common import Run
    rec = json.load(open(path))
    rep = rec['replay']
    run = Run(prop, 'replay')
    model = load_model(run, rep['cfg'])
    if model is None:
        return 2
    fingerprints()
    rng = random.Random(rep['rng_seed'])
    extra = {'backend': rep['backend']} if rep.get('backend') else {}
    drv = make_driver_for(rep['cfg'], **extra)(rep['env'], rng)
    glass = rep['cfg'] == 'Conn_badlimit.cfg'
    t = Tracked(model, drv, {'env': rep['env'], 'kind': 'replay',
                             'rng_seed': rep['rng_seed']}, protocol=not glass)
    status = 0
    for label in rep['labels']:
        v = t.step(label, protocol=not glass)
        print(f"{label:60s} {t.trace[-1]['observed'] if t.trace else ''}  [{v}]")
        if v != 'ok':
            if t.problem:
                print('  ', t.problem[1])
                print('   signature:', t.problem[2])
            status = 1 if v == 'violation' else 0
            break
    for d, b in drv.transcript[-14:]:
        print(d, b[:200])
    drv.close()
    return status
