"""C11 - mailbox namespace commands behave as the RFC 3501 reference model,
on the dict backend and on the maildir backend in both layouts.

Oracle: spec/Namespace.tla.  Names and patterns are token sequences, `MatchX`
is the recursive RFC 3501 wildcard matcher, every command has a SET of allowed
outcomes (RFC latitude = several outcomes, each tagged), and every named
deviation of the tree under test is an extra outcome carrying r.dev.  The
variable `store` ("dict", "pp" = maildir '++', "fs" = maildir 'fs'; chosen in
Init from the Stores of the configuration) says which backend a behaviour is
about.  The allowed outcomes are the same for every store, except that CREATE /
RENAME to a name the store cannot hold may answer NO (Unstorable: the token
"u", bound per store by UNSTORABLE_PART; an empty name part under 'fs';
SUBSCRIBE of a name with a line break on maildir); the store only selects, in
NextAsIs, the allowed outcome the backend is believed to produce ('fs' makes
missing superiors and answers NO [HASCHILDREN] to DELETE of a mailbox with
inferiors, ...) and scopes the deviations (DevFor).

1. TLC checks the model's own sanity on every allowed outcome
   (Namespace_rfc.cfg, and Namespace_oddrfc.cfg for the maildir stores with
   unstorable names: INBOX protected, a failing command changes nothing,
   RENAME preserves the mailboxes it moves, the effects bookkeeping is exact).
2. spec -> code.  `NextAsIs` is the deterministic selection, from the allowed
   outcomes, of what pymap is believed to do (AllOpen = the OPEN entries of
   known/C11.json, each applied to its stores only).  TLC dumps its state
   graph for several small configurations (hierarchy, INBOX, trailing /
   leading delimiter, names a store cannot hold), one run per configuration
   for all stores; an edge cover is run on fresh real servers - World('dict')
   or World('maildir', layout=...) on a scratch directory of its own, removed
   when the execution ends.  After EVERY command the tagged result
   and data are compared with `last`, and LIST "" * / LSUB "" * / STATUS of
   every name with `probe` / `mbx`; the real mailboxes (UIDVALIDITY,
   UIDNEXT, UIDs, bodies - as STATUS, SELECT + UID FETCH 1:* (UID BODY.PEEK[])
   and APPENDUID report them, on every backend) are followed through r.moved /
   r.fresh / r.gone / r.app.  The probes of every second execution go through
   a second connection of the same user (maildir: a MailboxSet of its own over
   the same directory).  `-simulate` behaviours (VERIF_SEED) of a bigger
   universe are the longer programs; the matcher configuration enumerates
   <name set, reference, pattern>.  Every abstract name is sent in several
   concretisations (CONCS) and wire forms (atom / quoted / literal+,
   modified UTF-7 written and read by this module, not by pymap).
   A deviation may end the connection ("* BYE", no tagged answer: r.bye): the
   driver notes it and goes on with a new connection of the same user.
   Maildir in the quick tier: a slice (every MD_SLICE-th path of the big
   tours and small name set of the matcher, rotating with VERIF_SEED, half the
   simulated behaviours); thorough: everything dict gets.  The executions are
   forked into workers after all TLC work of the prediction is done.
3. code -> spec.  An execution that differs from the prediction is judged by
   TLC (Trace_Namespace.tla) against ALL allowed outcomes and all deviations
   known for its store: accepted = drift (exit 0), rejected = VIOLATION.  A
   sample of the matching executions is judged as well so that the judge runs
   on every invocation.  (Expected drift on the unchanged tree: maildir '++'
   renames the directories of a mailbox and its inferiors one by one in
   directory order - which of them were renamed when RENAME onto an existing
   name fails cannot be predicted, MaildirRenameOntoExisting allows any.)
The deviations an accepted execution needs are its known-finding signatures;
one excuses only on the stores it is a finding of (Maildir*: maildir,
MaildirFs*: the 'fs' layout).  Namespace_lead.cfg (initial states with a
leading delimiter) is not run on 'fs', which cannot hold such a name;
Namespace_odd.cfg asks for one with CREATE there.
"""

from __future__ import annotations

import base64
import zlib
import binascii
import json
import os
import random
import re
import shutil
import time

from ..common import Run
from .. import tlc
from .. import respparse as rp
from ..server import World

PROP = 'C11'
SPEC = 'Namespace.tla'


# --------------------------------------------------------------------------
# modified UTF-7 (RFC 3501 5.1.3), independent of pymap


def mutf7_encode(s: str, raw_nl: bool = False) -> bytes:
    out = bytearray()
    buf: list[str] = []

    def flush():
        if buf:
            b = ''.join(buf).encode('utf-16-be')
            out.extend(b'&' + base64.b64encode(b).rstrip(b'=')
                       .replace(b'/', b',') + b'-')
            buf.clear()
    for ch in s:
        o = ord(ch)
        if 0x20 <= o <= 0x7e or (raw_nl and ch == '\n'):
            flush()
            out.extend(b'&-' if ch == '&' else bytes([o]))
        else:
            buf.append(ch)
    flush()
    return bytes(out)


def mutf7_decode(b: bytes) -> str:
    """Strict: raises ValueError on anything RFC 3501 5.1.3 does not allow."""
    out = []
    i = 0
    while i < len(b):
        c = b[i]
        if c == 0x26:
            j = b.find(b'-', i + 1)
            if j < 0:
                raise ValueError('unterminated shift sequence')
            if j == i + 1:
                out.append('&')
            else:
                chunk = b[i + 1:j].replace(b',', b'/')
                try:
                    raw = base64.b64decode(chunk + b'=' * (-len(chunk) % 4),
                                           validate=True)
                except (binascii.Error, ValueError) as exc:
                    raise ValueError('bad base64') from exc
                if len(raw) % 2:
                    raw = raw[:-1]
                try:
                    out.append(raw.decode('utf-16-be'))
                except UnicodeDecodeError as exc:
                    raise ValueError('bad utf-16') from exc
            i = j + 1
        elif c >= 0x80:
            raise ValueError('8-bit octet in mailbox name')
        else:
            out.append(chr(c))
            i += 1
    return ''.join(out)


# --------------------------------------------------------------------------
# concretisation of abstract names


_ATOM_OK = re.compile(rb'[\x21\x23\x24\x26\x27\x2b-\x5b\x5e-\x7a\x7c\x7e]+')
_LISTMBX_OK = re.compile(rb'[\x21\x23-\x27\x2a-\x5b\x5d-\x7a\x7c\x7e]+')


class Conc:
    """token -> text.  Letter texts use pairwise disjoint characters, none of
    them a delimiter / wildcard, so matching on texts and on tokens agree."""

    def __init__(self, name: str, letters: dict, inbox: str = 'inbox',
                 wire: str = 'auto', raw_nl: bool = True, ascii_only: bool = True,
                 delim: str = '/'):
        self.name = name
        self.letters = letters
        self.inbox = inbox
        self.wire = wire
        self.raw_nl = raw_nl
        self.ascii_only = ascii_only
        self.delim = delim
        self.map = {'/': delim, '*': '*', '%': '%', 'I': 'INBOX', 'i': inbox,
                    'n': '\n', '&': '&'}
        self.map.update(letters)
        self._index()
        self._bound: dict = {}

    def _index(self):
        back = [(v, k) for k, v in self.map.items() if k != 'i']
        back.sort(key=lambda p: -len(p[0]))
        self.back = back

    def bind(self, store: str) -> 'Conc':
        """The same concretisation with the token "u" (a name part the store
        cannot hold, see Unstorable in Namespace.tla) bound for `store`."""
        c = self._bound.get(store)
        if c is None:
            c = object.__new__(Conc)
            c.__dict__.update(self.__dict__)
            c.map = dict(self.map)
            c.map['u'] = UNSTORABLE_PART[store]
            c._index()
            self._bound[store] = c
        return c

    def text(self, toks) -> str:
        return ''.join(self.map[t] for t in toks)

    def abstract(self, s: str) -> tuple:
        toks = []
        i = 0
        while i < len(s):
            for text, tok in self.back:
                if s.startswith(text, i):
                    toks.append(tok)
                    i += len(text)
                    break
            else:
                toks.append('?%04x' % ord(s[i]))
                i += 1
        return tuple(toks)

    # -- wire forms ----------------------------------------------------------

    def _string(self, b: bytes, atom_re) -> bytes:
        quotable = all(c not in (0x0d, 0x0a, 0x00) and c < 0x80 for c in b)
        if self.wire == 'auto' and b and atom_re.fullmatch(b) \
                and b.upper() != b'NIL':
            return b
        if self.wire in ('auto', 'quoted') and quotable:
            return b'"' + b.replace(b'\\', b'\\\\').replace(b'"', b'\\"') + b'"'
        return b'{%d+}\r\n%s' % (len(b), b)

    def wire_name(self, toks) -> bytes:
        s = self.text(toks)
        return self._string(mutf7_encode(s, self.raw_nl), _ATOM_OK)

    def wire_pattern(self, toks) -> bytes:
        s = self.text(toks)
        return self._string(mutf7_encode(s, self.raw_nl), _LISTMBX_OK)


# what the token "u" stands for: a part with the Maildir++ separator (the
# folder "a.b" is the directory of "a/b"); "tmp", a directory of every maildir
# (filesystem layout: a part is a path component).  An ordinary name on dict.
UNSTORABLE_PART = {'dict': 'u.v', 'pp': 'u.v', 'fs': 'tmp'}
# store -> (backend, layout)
STORES = {'dict': ('dict', None), 'pp': ('maildir', '++'), 'fs': ('maildir', 'fs')}

# (no letter text is a substring of "inbox" in any case: pymap matches INBOX
# against a pattern case-insensitively, which RFC 3501 neither demands nor
# forbids, and the token model cannot express it)
CONCS = [
    Conc('plain', {'a': 'a', 'b': 'c'}),
    Conc('case', {'a': 'a', 'b': 'A'}, inbox='Inbox', wire='quoted', raw_nl=False),
    Conc('space-quote', {'a': 'x y', 'b': 'q"r'}, inbox='iNbOx'),
    Conc('backslash', {'a': 'k\\s', 'b': 'To Do'}, wire='literal'),
    Conc('ampersand', {'a': 'm&n', 'b': 'c'}, ascii_only=False),
    Conc('non-ascii', {'a': '\u00e9', 'b': '\u65e5\u672c'}, inbox='InBox',
         ascii_only=False),
    Conc('mixed', {'a': 'Entw\u00fcrfe', 'b': '{3}'}, wire='literal',
         ascii_only=False),
    # ordinary names that str.upper() / casefold() turn into INBOX / into each other
    Conc('inbox-lookalike', {'a': '\u0131nbox', 'b': 'INBO\u212a'}, ascii_only=False),
    # characters that str.splitlines() takes for line ends and a line-oriented file does not
    Conc('line-separators', {'a': 'p\u2028q', 'b': 'r\x0bs\u0085t'}, ascii_only=False),
]
CONC_BY_NAME = {c.name: c for c in CONCS}


# --------------------------------------------------------------------------
# driving the real server


class Ident:
    """What the real server said about one mailbox object."""

    __slots__ = ('uv', 'uidnext', 'msgs')

    def __init__(self, uv, uidnext, msgs):
        self.uv = uv
        self.uidnext = uidnext
        self.msgs = msgs          # [(uid, body)]

    def show(self):
        return {'uidvalidity': self.uv, 'uidnext': self.uidnext,
                'uids': [u for u, _ in self.msgs]}


class Driver:

    def __init__(self, conc: Conc, store: str = 'dict'):
        self.store = store
        self.conc = conc.bind(store)
        backend, layout = STORES[store]
        if backend == 'dict':
            self.w = World('dict', demo=False, users={'user1': 'pass1'})
        else:
            # on a scratch directory of its own, removed by close()
            self.w = World('maildir', users={'user1': 'pass1'}, layout=layout)
        self.names = {}           # role -> name of the live connection
        self.nconn = 0
        self.byes = 0
        self._open('a')
        # a second connection of the same user, open from the start, through which the probes
        # of every second execution go: what exists is the user's, not the connection's
        # (maildir: every connection has a MailboxSet of its own over the same directory)
        self._open('o')
        self.w.cmd(self.names['o'], b'LIST "" *')
        self.probe_via = 'a'
        self.wire: list = []      # transcript
        self.nmsg = 0
        self.ncmd = 0
        self.bye = False          # the last command ended in BYE, without a tagged answer

    def _open(self, role: str):
        self.nconn += 1
        name = role if role not in self.names else '%s%d' % (role, self.nconn)
        c = self.w.connect(name, local=True)
        c.take()
        self.w.login(name)
        self.names[role] = name
        return c

    def close(self):
        self.w.close()

    def _cmd(self, line: bytes, via: str = 'a'):
        """-> (cond or None, [Resp]); cond None = no tagged answer / garbage.
        A connection the server has closed (BYE) is replaced by a new one of
        the same user for the NEXT command: the namespace is the user's."""
        self.ncmd += 1
        self.bye = False
        conn = self.w.conns[self.names[via]]
        if conn.done:
            conn = self._open(via)
        out = self.w.cmd(self.names[via], line)
        self.wire.append((line, out))
        try:
            resps = rp.parse_stream(out)
        except rp.Malformed:
            return None, []
        tagged = [r for r in resps if r.kind == 'tagged']
        if not tagged and conn.done and resps and resps[-1].kind == 'untagged' \
                and resps[-1].cond == b'BYE':
            self.bye = True
            self.byes += 1
        if len(tagged) != 1 or conn.done:
            return None, resps
        return tagged[0].cond, resps

    def _norm(self, body):
        """maildir stores a message with LF line ends (a finding of C03, not of
        this property): bodies are compared modulo the line end there."""
        if body is not None and self.store != 'dict':
            return body.replace(b'\r\n', b'\n')
        return body

    def _okno(self, cond):
        return {'ok': cond == b'OK', 'bad': cond not in (b'OK', b'NO'), 'bye': self.bye}

    def _ents(self, resps, word):
        ents = []
        bad = False
        for r in resps:
            if r.kind != 'untagged' or r.name != word:
                continue
            flags, delim, nm = r.data
            if delim != self.conc.delim.encode():
                bad = True
            try:
                s = mutf7_decode(nm.value)
                toks = self.conc.abstract(s)
            except ValueError:
                toks = ('?undecodable',)
            ents.append((toks, any(f.lower() == b'\\noselect' for f in flags)))
        return ents, bad

    def listing(self, word: bytes, ref, pat, via: str = 'a'):
        line = word + b' ' + (self.conc.wire_name(ref) if ref else b'""') \
            + b' ' + (self.conc.wire_pattern(pat) if pat else b'""')
        cond, resps = self._cmd(line, via)
        o = self._okno(cond)
        ents, bad = self._ents(resps, word)
        o['ents'] = ents
        o['bad'] = o['bad'] or bad
        return o

    def status(self, name, via: str = 'a'):
        cond, resps = self._cmd(b'STATUS ' + self.conc.wire_name(name)
                                + b' (MESSAGES UIDNEXT UIDVALIDITY)', via)
        o = self._okno(cond)
        o['n'] = 0
        if o['ok']:
            st = [r.data[1] for r in resps if r.kind == 'untagged' and r.name == b'STATUS']
            if len(st) != 1 or not {b'MESSAGES', b'UIDNEXT', b'UIDVALIDITY'} <= set(st[0]):
                o['bad'] = True
            else:
                o['n'] = st[0][b'MESSAGES']
                o['uidnext'] = st[0][b'UIDNEXT']
                o['uv'] = st[0][b'UIDVALIDITY']
        return o

    def select(self, name):
        cond, resps = self._cmd(b'SELECT ' + self.conc.wire_name(name))
        o = self._okno(cond)
        o['n'] = 0
        if not o['ok']:
            return o
        ex = [r.num for r in resps if r.kind == 'untagged' and r.name == b'EXISTS']
        uv = [int(r.code[1]) for r in resps if r.kind == 'untagged'
              and r.code and r.code[0] == b'UIDVALIDITY']
        o['n'] = ex[-1] if ex else -1
        o['uv'] = uv[-1] if uv else None
        msgs = []
        if o['n']:
            cond2, resps2 = self._cmd(b'UID FETCH 1:* (UID BODY.PEEK[])')
            if cond2 != b'OK':
                o['bad'] = True
            for r in resps2:
                if r.kind == 'untagged' and r.name == b'FETCH':
                    body = r.data.get(b'BODY[]')
                    msgs.append((r.data.get(b'UID'),
                                 self._norm(getattr(body, 'value', None))))
        o['msgs'] = msgs
        cond3, _ = self._cmd(b'CLOSE')
        if cond3 != b'OK':
            o['bad'] = True
        return o

    def append(self, name):
        self.nmsg += 1
        body = (b'Subject: m%d\r\n\r\nbody of message %d\r\n'
                % (self.nmsg, self.nmsg))
        cond, resps = self._cmd(b'APPEND ' + self.conc.wire_name(name)
                                + b' {%d+}\r\n%s' % (len(body), body))
        o = self._okno(cond)
        o['body'] = self._norm(body)
        o['uid'] = None
        if o['ok']:
            t = [r for r in resps if r.kind == 'tagged'][0]
            if t.code and t.code[0] == b'APPENDUID':
                m = re.fullmatch(rb'(\d+) (\d+)', t.code[1])
                if m:
                    o['uv'], o['uid'] = int(m.group(1)), int(m.group(2))
        return o

    def do(self, cmd) -> dict:
        op = cmd[0]
        if op in ('list', 'lsub'):
            return self.listing(op.upper().encode(), cmd[1], cmd[2])
        if op == 'status':
            return self.status(cmd[1])
        if op == 'select':
            return self.select(cmd[1])
        if op == 'append':
            return self.append(cmd[1])
        word = op.upper().encode()
        if op == 'rename':
            line = word + b' ' + self.conc.wire_name(cmd[1]) + b' ' \
                + self.conc.wire_name(cmd[2])
        else:
            line = word + b' ' + self.conc.wire_name(cmd[1])
        cond, _ = self._cmd(line)
        return self._okno(cond)


# --------------------------------------------------------------------------
# comparing an observation with what TLC computed


def _names(s):
    return sorted('|'.join(n) for n in s)


def cmp_listing(v: dict, ents: list) -> str | None:
    """v: a result record of Namespace.tla (exact/sel/nosel/one)."""
    got = {n for n, _ in ents}
    if got != set(v['exact']):
        return (f'names returned {_names(got)} expected {_names(v["exact"])}')
    if v['one'] and len(ents) != 1:
        return f'{len(ents)} entries for the root query'
    for n, ns in ents:
        if n in v['nosel'] and not ns:
            return f'{"|".join(n)} lacks \\Noselect'
        if n in v['sel'] and ns:
            return f'{"|".join(n)} carries \\Noselect'
    return None


def jname(n):
    return list(n)


def jents(ents):
    return [{'n': list(n), 'ns': bool(ns)} for n, ns in ents]


class Execution:
    """One behaviour of the model executed on one fresh server."""

    def __init__(self, kind: str, conc: Conc, init: dict, steps: list,
                 probes: bool = True, store: str = 'dict'):
        self.kind = kind
        self.conc = conc
        self.init = init          # {'mbx': {name: n}, 'sub': set}
        self.steps = steps        # [{'cmd','r','probe','mbx','sub'}]
        self.probes = probes
        self.store = store        # 'dict' | 'pp' | 'fs' (Store of Namespace.tla)
        self.events: list = []    # JSON events for the trace spec
        self.cmds: list = []
        self.drift = None
        self.broken: list = []    # identity violations [(what, detail)]
        self.devs: dict = {}      # deviation -> first step index
        self.done_steps = 0
        self.wire: list = []
        self.ncmd = 0
        self.nontrivial = False
        self.nsetup = 0
        self.byes = 0

    # -- identity bookkeeping ------------------------------------------------

    def _check_ident(self, d: Driver, name, idn: Ident | None, st: dict,
                     deep: bool, what: str):
        """Compare the mailbox now called `name` with the object the model
        says it is.  Returns the (possibly newly bound) Ident."""
        nm = '|'.join(name)
        if st.get('bad') or not st.get('ok'):
            return idn
        if idn is None:
            idn = Ident(st['uv'], st['uidnext'], [])
            if st['n'] != 0:
                self.broken.append((f'{what}: new mailbox {nm} holds {st["n"]} messages', {}))
            return idn
        if st['uv'] != idn.uv or st['uidnext'] != idn.uidnext \
                or st['n'] != len(idn.msgs):
            self.broken.append((
                f'{what}: mailbox {nm} is not the object the model says it is',
                {'expected': idn.show(),
                 'observed': {'uidvalidity': st['uv'], 'uidnext': st['uidnext'],
                              'messages': st['n']}}))
            return idn
        if deep:
            o = d.select(name)
            if o['bad'] or not o['ok'] or o.get('msgs') != idn.msgs \
                    or o.get('uv') != idn.uv:
                self.broken.append((
                    f'{what}: messages of {nm} differ (UIDs / bodies / UIDVALIDITY)',
                    {'expected': idn.show(),
                     'observed': {'uidvalidity': o.get('uv'),
                                  'uids': [u for u, _ in o.get('msgs', [])]}}))
        return idn

    # -- running ---------------------------------------------------------------

    def _event(self, cmd, o, hp, pl=None, ps=None, st=None):
        ev = {'be': self.store, 'op': cmd[0], 'a': jname(cmd[1]),
              'b': jname(cmd[2]) if len(cmd) > 2 else [],
              'ok': bool(o['ok']), 'bad': bool(o['bad']), 'bye': bool(o.get('bye')),
              'n': int(o.get('n', 0)),
              'ents': jents(o.get('ents', [])), 'hp': bool(hp),
              'pl': jents(pl or []), 'ps': jents(ps or []),
              'st': [{'n': jname(n), 'ok': bool(s['ok']), 'm': int(s.get('n', 0))}
                     for n, s in (st or {}).items()]}
        self.events.append(ev)
        self.cmds.append([cmd[0]] + [list(x) for x in cmd[1:]])

    def run(self):
        d = Driver(self.conc, self.store)
        # every second execution (by its program): the probes go through the other connection
        d.probe_via = 'o' if zlib.crc32(repr(self.steps[:3]).encode()) % 2 else 'a'
        try:
            self._run(d)
        finally:
            self.wire = d.wire
            self.ncmd = d.ncmd
            self.byes = d.byes
            d.close()
        return self

    def _setup(self, d: Driver):
        INB = ('I',)
        ident = {}
        for n in sorted(self.init['mbx']):
            if n != INB:
                o = d.do(('create', n))
                self._event(('create', n), o, False)
                if not o['ok']:
                    self.drift = {'step': -1, 'cmd': ['create', list(n)],
                                  'why': 'set-up CREATE refused'}
                    return None
        for n in sorted(self.init['sub']):
            o = d.do(('subscribe', n))
            self._event(('subscribe', n), o, False)
        self.nsetup = len(self.events)
        for n in sorted(self.init['mbx']):
            st = d.status(n)
            if len(self.init['mbx']) <= 8 or n == INB:
                ident[n] = self._check_ident(d, n, None, st, False, 'set-up')
        return ident

    def _run(self, d: Driver):
        ident = self._setup(d)
        if ident is None:
            return
        track = len(self.init['mbx']) <= 8
        prev_mbx = dict(self.init['mbx'])
        for k, stp in enumerate(self.steps):
            cmd, r = stp['cmd'], stp['r']
            o = d.do(cmd)
            why = None
            if r.get('bye') or o['bye']:
                if not r.get('bye'):
                    why = '"* BYE" and the connection closed instead of a tagged answer'
                elif not o['bye']:
                    why = ('a tagged answer, model (deviation %s): BYE'
                           % ','.join(sorted(r['dev'])))
            elif o['bad']:
                why = 'neither OK nor NO (BAD / unparsable / wrong delimiter)'
            elif o['ok'] != r['ok']:
                why = f'tagged {"OK" if o["ok"] else "NO"}, model: {"OK" if r["ok"] else "NO"}'
            elif cmd[0] in ('status', 'select') and r['ok'] and o['n'] != r['n']:
                why = f'{o["n"]} messages, model: {r["n"]}'
            elif cmd[0] in ('list', 'lsub'):
                why = cmp_listing(r, o['ents'])
            pl = ps = None
            st = {}
            if self.probes:
                pl = d.listing(b'LIST', (), ('*',), d.probe_via)
                ps = d.listing(b'LSUB', (), ('*',), d.probe_via)
                for n in sorted(set(prev_mbx) | set(stp['mbx']) | set(r.get('gone', ()))):
                    st[n] = d.status(n, d.probe_via)
                if why is None:
                    if pl['bad'] or not pl['ok']:
                        why = 'probe LIST "" * failed'
                    elif ps['bad'] or not ps['ok']:
                        why = 'probe LSUB "" * failed'
                    else:
                        x = cmp_listing(stp['probe']['list'], pl['ents'])
                        y = cmp_listing(stp['probe']['lsub'], ps['ents'])
                        if x:
                            why = 'probe LIST "" *: ' + x
                        elif y:
                            why = 'probe LSUB "" *: ' + y
                if why is None:
                    for n, s in st.items():
                        if s['bad']:
                            why = f'probe STATUS {"|".join(n)} answered BAD'
                        elif s['ok'] != (n in stp['mbx']):
                            why = (f'probe STATUS {"|".join(n)}: '
                                   f'{"OK" if s["ok"] else "NO"}, model: '
                                   f'{"exists" if n in stp["mbx"] else "missing"}')
                        elif s['ok'] and s['n'] != stp['mbx'][n]:
                            why = (f'probe STATUS {"|".join(n)}: {s["n"]} messages, '
                                   f'model: {stp["mbx"][n]}')
                        if why:
                            break
            self._event(cmd, o, self.probes, pl and pl['ents'], ps and ps['ents'], st)
            if why is not None:
                self.drift = {'step': k, 'cmd': self.cmds[-1], 'why': why,
                              'model': {'ok': r['ok'], 'tag': sorted(r['tag']),
                                        'dev': sorted(r['dev'])}}
                return
            self.done_steps = k + 1
            used = set(r['dev'])
            if self.probes:
                used |= set(stp['probe']['list']['dev']) | set(stp['probe']['lsub']['dev'])
            for dv in used:
                self.devs.setdefault(dv, k)
            if r['ok'] and cmd[0] in ('create', 'delete', 'rename', 'append'):
                self.nontrivial = True
            # identities, as the model says they move
            if track and self.probes:
                what = f'step {k + 1} {cmd[0].upper()} ' + ' '.join('|'.join(x) for x in cmd[1:])
                moved = {t: s for s, t in r['moved']}
                new = {}
                for n in stp['mbx']:
                    if n in r['fresh']:
                        new[n] = None
                    elif n in moved:
                        new[n] = ident.get(moved[n])
                    else:
                        new[n] = ident.get(n)
                for n in r['app']:
                    idn = new[n]
                    if idn is not None and o.get('ok'):
                        uid = o.get('uid')
                        s = st[n]
                        if uid is None or uid < idn.uidnext or o.get('uv') != idn.uv \
                                or not s.get('ok') or s['uidnext'] <= uid:
                            self.broken.append((
                                f'{what}: APPENDUID / UIDNEXT inconsistent',
                                {'expected': idn.show(), 'appenduid': [o.get('uv'), uid],
                                 'status': {x: s.get(x) for x in ('uv', 'uidnext', 'n')}}))
                        new[n] = Ident(idn.uv, s.get('uidnext'), idn.msgs + [(uid, o['body'])])
                touched = set(moved) | set(r['fresh']) | set(r['app'])
                for n in stp['mbx']:
                    new[n] = self._check_ident(d, n, new[n], st[n], n in touched
                                               and (n not in r['fresh']), what)
                if cmd[0] == 'select' and r['ok']:
                    n = cmd[1] if cmd[1] != ('i',) else ('I',)
                    idn = ident.get(n)
                    if idn is not None and (o.get('msgs') != idn.msgs or o.get('uv') != idn.uv):
                        self.broken.append((f'{what}: SELECT shows other messages',
                                            {'expected': idn.show(),
                                             'observed': [u for u, _ in o.get('msgs', [])]}))
                ident = new
                if self.broken:
                    return
            prev_mbx = stp['mbx']
        # end of the behaviour: every mailbox in depth
        if track and self.probes and self.steps:
            for n in sorted(prev_mbx):
                self._check_ident(d, n, ident.get(n), d.status(n), True, 'at the end')

    _RESULT = ('events', 'cmds', 'drift', 'broken', 'devs', 'done_steps', 'wire',
               'ncmd', 'nontrivial', 'nsetup', 'byes')

    def result(self, keep_events: bool) -> dict:
        out = {k: getattr(self, k) for k in self._RESULT}
        if not keep_events and self.drift is None:
            out['events'] = []
        out['wire'] = self.wire[-12:]
        return out

    def merge(self, res: dict) -> None:
        for k, v in res.items():
            setattr(self, k, v)

    def replay_dict(self, upto=None):
        return {'check': PROP, 'store': self.store,
                'backend': ' '.join(x for x in STORES[self.store] if x), 'kind': self.kind,
                'conc': self.conc.name,
                'init': {'mbx': sorted(list(n) for n in self.init['mbx']),
                         'sub': sorted(list(n) for n in self.init['sub'])},
                'cmds': self.cmds[:upto] if upto else self.cmds,
                'wire': [[repr(a), repr(b)] for a, b in self.wire[-12:]]}


# --------------------------------------------------------------------------
# behaviours out of TLC


def _state_step(st: dict) -> dict:
    return {'cmd': st['last']['cmd'], 'r': st['last']['r'], 'probe': st['probe'],
            'mbx': dict(st['mbx']), 'sub': set(st['sub'])}


def paths_of_graph(graph, max_len: int, rng=None):
    out = []
    for init, path in tlc.edge_cover(graph, max_len=max_len, rng=rng):
        st0 = graph.nodes[init]
        steps = [_state_step(graph.nodes[dst]) for _lab, dst in path
                 if graph.nodes[dst]['last']['cmd'] != ('none',)]
        if steps:
            out.append(({'mbx': dict(st0['mbx']), 'sub': set(st0['sub']),
                         'store': str(st0['store'])}, steps))
    return out


def simulate(cfg: str, num: int, depth: int, seed: int):
    """tlc.simulate() cannot read labels that contain '>'; the behaviours are
    taken from the states (`last.cmd`) instead."""
    d = tlc._scratch('sim')
    try:
        res = tlc.run_tlc(SPEC, cfg, workers=1, timeout=900, deadlock=False,
                          extra=['-simulate', f'file={d}/tr,num={num}',
                                 '-depth', str(depth), '-seed', str(seed)])
        behs = []
        for fn in sorted(os.listdir(d)):
            if not fn.startswith('tr_'):
                continue
            text = open(os.path.join(d, fn)).read()
            states = []
            for m in re.finditer(r'^STATE_\d+ == *\n((?:.*\n)*?)\n', text, re.M):
                states.append(tlc.parse_state(m.group(1)))
            if states:
                st0 = states[0]
                steps = [_state_step(s) for s in states[1:]
                         if s['last']['cmd'] != ('none',)]
                behs.append(({'mbx': dict(st0['mbx']), 'sub': set(st0['sub']),
                              'store': str(st0['store'])}, steps))
    finally:
        shutil.rmtree(d, ignore_errors=True)
    return behs, res


def has_newline(init, steps) -> bool:
    def nl(n):
        return 'n' in n
    if any(nl(n) for n in init['mbx']) or any(nl(n) for n in init['sub']):
        return True
    return any(any(nl(x) for x in s['cmd'][1:]) for s in steps)


# --------------------------------------------------------------------------
# the judge


def judge(execs: list) -> dict:
    """TLC validates the recorded executions against every allowed outcome and
    every deviation known for the store of the execution.
    -> {index: (reached, length, used | None)}"""
    if not execs:
        return {}
    if any(not e.events for e in execs):
        raise tlc.TLCError('an execution without events cannot be judged')
    verd = tlc.validate_traces('Trace_Namespace.tla', 'Trace_Namespace.cfg',
                               [e.events for e in execs])
    res = verd.pop('_res')
    if len(verd) != len(execs):
        raise tlc.TLCError('trace validation incomplete: '
                           + (res.error or res.output[-1200:]))
    used = {}
    for m in re.finditer(r'<<\s*"USED",\s*(\d+),\s*(\{[^}]*\})\s*>>', res.output):
        used[int(m.group(1))] = set(tlc.parse_value(m.group(2)))
    out = {}
    for i in range(1, len(execs) + 1):
        reached, length = verd[i]
        u = used.get(i)
        out[i - 1] = (reached, length, None if u is None or u == {'-none-'} else u)
    out['_res'] = res
    return out


# --------------------------------------------------------------------------
# running a plan on all cores (fork: the plan is inherited, results are small)

_JOBS: dict = {}


def _run_job(key):
    kind, args = _JOBS[key]
    return _tlc_job(kind, args)


_PLAN: list = []
_KEEP: set = set()
_SEED = 0


def _work(idx: int):
    e = _PLAN[idx]
    random.seed(_SEED * 1000003 + idx)     # UIDVALIDITY is drawn from `random`
    nt = e.nontrivial
    e.run()
    e.nontrivial = e.nontrivial or nt
    return idx, e.result(idx in _KEEP)


def run_plan(plan: list, keep: set, seed: int) -> None:
    global _PLAN, _KEEP, _SEED
    _PLAN, _KEEP, _SEED = plan, keep, seed
    jobs = int(os.environ.get('VERIF_JOBS') or min(12, os.cpu_count() or 1))
    if jobs <= 1 or len(plan) < 8:
        for i in range(len(plan)):
            _work(i)
        return
    import multiprocessing
    ctx = multiprocessing.get_context('fork')
    # longest first, so that the big matcher executions do not end the run alone
    order = sorted(range(len(plan)), key=lambda i: -len(plan[i].steps)
                   * (1 if not plan[i].probes else 6))
    with ctx.Pool(jobs) as pool:
        for idx, res in pool.imap_unordered(_work, order, chunksize=1):
            plan[idx].merge(res)


def _tlc_job(kind: str, args: tuple):
    """One TLC run and the reading of what it wrote, in a process of its own
    (reading a dumped graph is Python work: threads would take turns)."""
    if kind == 'tlc':
        cfg, workers = args
        res = tlc.run_tlc(SPEC, cfg, workers=workers)
        res.output = res.output[-3000:]
        return res
    if kind == 'sim':
        behs, res = simulate(*args)
        res.output = res.output[-3000:]
        return behs, res
    cfg, max_len, workers, timeout, keep = args
    graph, gres = tlc.dump_graph(SPEC, cfg, workers=workers, timeout=timeout)
    gres.output = gres.output[-3000:]
    stats = {'nodes': len(graph.nodes), 'edges': graph.n_edges}
    if not gres.ok:
        return {}, stats, gres
    paths = paths_of_graph(graph, max_len)
    stats['paths'] = len(paths)
    stats['commands'] = sum(len(st) for _, st in paths)
    # per store, numbered; `keep` (store, index, number of paths of the store, initial state)
    # says which are run at all
    by: dict = {}
    for init, steps in paths:
        by.setdefault(init['store'], []).append((init, steps))
    out = {}
    for st, lst in by.items():
        stats['paths@' + st] = len(lst)
        out[st] = [(k, init, steps) for k, (init, steps) in enumerate(lst)
                   if keep(st, k, len(lst), init)]
    return out, stats, gres


TOURS = {
    'quick': [('Namespace_hierq.cfg', 120), ('Namespace_inboxq.cfg', 120),
              ('Namespace_trail.cfg', 120), ('Namespace_lead.cfg', 60)],
    'thorough': [('Namespace_hier.cfg', 120), ('Namespace_inbox.cfg', 120),
                 ('Namespace_trail.cfg', 120), ('Namespace_lead.cfg', 60)],
}
MATCH = {'quick': 'Namespace_matchq.cfg', 'thorough': 'Namespace_match.cfg'}
SIM = {'quick': (40, 60), 'thorough': (600, 120)}     # behaviours, depth
JUDGE_MAX = 20000
# names a store may be unable to hold: run on the maildir stores
ODD = [('Namespace_odd.cfg', 60)]
# configurations whose graph is dumped by a run for dict and a run for maildir
SPLIT = {'Namespace_hierq.cfg', 'Namespace_hier.cfg', 'Namespace_inboxq.cfg',
         'Namespace_inbox.cfg', 'Namespace_matchq.cfg', 'Namespace_match.cfg'}
# quick tier, maildir: every MD_SLICE-th path of the big tours / small name set of the matcher
MD_SLICE = 3


_DEVSETS: dict = {}


def devs_for(store: str) -> set:
    """DevFor(store) of Namespace.tla, read from the module: the deviations
    that can apply to the store (a known finding excuses only there)."""
    if not _DEVSETS:
        text = open(os.path.join(tlc.SPEC_DIR, SPEC)).read()
        for name in ('AllDev', 'MaildirDev', 'FsOnlyDev', 'DictOnlyDev'):
            m = re.search(r'^%s == \{([^}]*)\}' % name, text, re.M)
            if not m:
                raise tlc.TLCError(f'{SPEC}: no definition of {name}')
            _DEVSETS[name] = set(re.findall(r'"([^"]+)"', m.group(1)))
    if store == 'dict':
        return set(_DEVSETS['AllDev'])
    return (_DEVSETS['AllDev'] - _DEVSETS['DictOnlyDev']) | \
        (_DEVSETS['MaildirDev'] - (set() if store == 'fs' else _DEVSETS['FsOnlyDev']))


def cfg_with_dev(cfg: str, devs, scratch: str, stores=None) -> str:
    """The AsIs configurations follow the tree as it is believed to be: AllOpen
    = the OPEN known findings (a fixed one must no longer be predicted; the
    model applies each to its stores only).  stores: replaces the Stores of
    the configuration."""
    text = open(os.path.join(tlc.SPEC_DIR, cfg)).read()
    line = 'AllOpen = {' + ', '.join('"%s"' % d for d in sorted(devs)) + '}'
    text, n = re.subn(r'^\s*AllOpen <- AllKnown\s*$', '  ' + line, text, flags=re.M)
    if n != 1:
        raise tlc.TLCError(f'{cfg}: no "AllOpen <- AllKnown" line')
    sub = ''
    if stores is not None:
        line = 'Stores = {' + ', '.join('"%s"' % d for d in stores) + '}'
        text, n = re.subn(r'^\s*Stores = \{[^}]*\}\s*$', '  ' + line, text, flags=re.M)
        if n != 1:
            raise tlc.TLCError(f'{cfg}: no "Stores = {{...}}" line')
        sub = '+'.join(stores)
    os.makedirs(os.path.join(scratch, sub), exist_ok=True)
    path = os.path.join(scratch, sub, cfg)
    with open(path, 'w') as f:
        f.write(text)
    return path


def cfg_stores(cfg: str) -> list:
    text = open(os.path.join(tlc.SPEC_DIR, cfg)).read()
    m = re.search(r'^\s*Stores = \{([^}]*)\}\s*$', text, re.M)
    if not m:
        raise tlc.TLCError(f'{cfg}: no "Stores = {{...}}" line')
    return re.findall(r'"([^"]+)"', m.group(1))


def _describe(e: Execution, k: int) -> str:
    c = e.cmds[k] if 0 <= k < len(e.cmds) else ['?']
    return c[0].upper() + ' ' + ' '.join('|'.join(x) or '""' for x in c[1:])


def main(tier: str) -> int:
    run = Run(PROP, tier)
    rng = random.Random(run.seed)
    # (VERIF_C11_STORES=pp,fs ...: a debugging aid, the evidence says which were run)
    stores = [s for s in (os.environ.get('VERIF_C11_STORES') or 'dict,pp,fs').split(',')
              if s in STORES]
    run.notes['stores'] = stores
    if not stores:
        run.machinery('VERIF_C11_STORES names no store')
        return run.finish()
    run.cov['rule'] = (
        'executions = behaviours of Namespace.tla (edge cover of the dumped '
        'state graphs, -simulate behaviours, the matcher enumeration; one set per '
        'store: dict, maildir ++, maildir fs) run on a fresh real server each, every '
        'step compared; non-trivial = the '
        'behaviour changes the set of mailboxes (a CREATE/DELETE/RENAME/APPEND '
        'answered OK) or, for the matcher, lists a hierarchical name set; '
        'distinct = distinct (store, concretisation, command sequence)')
    run.assumptions += [
        'hierarchy delimiter "/" (dict and maildir)',
        'maildir: every execution on a scratch directory of its own; a connection the '
        'server closes (BYE) is replaced by a new one of the same user; message bodies '
        'are compared modulo the line end (maildir stores LF: C03)',
        'maildir, quick tier: a slice of the behaviours (see maildir_slice); thorough: all',
        'one session, no concurrency (the check-then-act window of '
        'CREATE/DELETE/RENAME is examined with MailboxSync)',
        'names are built from the tokens of Namespace.tla; letters are '
        'concretised ' + ', '.join(c.name for c in CONCS),
        'no "&" directly after a non-ASCII character and no unterminated "&" '
        'are sent (C18 / C06)']

    # ---- 1. TLC -------------------------------------------------------------
    results: dict = {}
    quick_md = tier == 'quick'
    md_stores = [st for st in stores if st != 'dict']
    tours = TOURS[tier] + (ODD if md_stores else [])
    nmatch = 'match:' + MATCH[tier]
    offs = {st: run.seed + k for k, st in enumerate(stores)}

    def keep_tour(st, k, n, init):
        # maildir, quick tier: every MD_SLICE-th path of the big tours
        return st in stores and not (st != 'dict' and quick_md and n > 30
                                     and (k + offs[st]) % MD_SLICE)

    def keep_match(st, k, n, init):
        # maildir, quick tier: the big name sets, every MD_SLICE-th of the small ones
        return st in stores and not (st != 'dict' and quick_md and len(init['mbx']) <= 8
                                     and (k + offs[st]) % MD_SLICE)

    scratch = tlc._scratch('c11cfg')
    try:
        devs = set(run.known.open)
        run.notes['deviations_modelled'] = {st: sorted(devs & devs_for(st)) for st in stores}
        # one TLC run per configuration: the store is chosen in Init (Stores of the cfg)
        jobs = [('rfc', 'tlc', ('Namespace_rfc.cfg', 8))]
        if md_stores:
            jobs.append(('rfc-md', 'tlc', ('Namespace_oddrfc.cfg', 2)))
        # (the big ones: dict and maildir in a run each, they are read side by side)
        parts: dict = {}
        for cfg, max_len, keep_fn, workers, timeout in \
                [(c, n, keep_tour, 4, 1800) for c, n in tours] \
                + [(MATCH[tier], 10 ** 6, keep_match, 8, 3000)]:
            have = [st for st in cfg_stores(cfg) if st in stores]
            groups = [have]
            if cfg in SPLIT and 'dict' in have and len(have) > 1:
                groups = [['dict'], [st for st in have if st != 'dict']]
            parts[cfg] = []
            for g in groups:
                if g:
                    key = (cfg, '+'.join(g))
                    parts[cfg].append(key)
                    jobs.append((key, 'graph', (cfg_with_dev(cfg, devs, scratch, g), max_len,
                                                workers, timeout, keep_fn)))
        nsim, depth = SIM[tier]
        if 'dict' in stores:
            jobs.append(('sim', 'sim', (cfg_with_dev('Namespace_sim.cfg', devs, scratch,
                                                     ['dict']), nsim, depth, run.seed + 1)))
        if md_stores:
            # (the initial state, and with it the store, is drawn for every behaviour)
            jobs.append(('sim-md', 'sim', (cfg_with_dev('Namespace_sim.cfg', devs, scratch,
                                                        md_stores),
                                           nsim if quick_md else 2 * nsim, depth, run.seed + 2)))
        # longest first; each in a forked process (the closures above are inherited)
        global _JOBS
        _JOBS = {key: (kind, args) for key, kind, args in jobs}
        import multiprocessing
        ctx = multiprocessing.get_context('fork')
        with ctx.Pool(len(jobs)) as pool:
            pending = {key: pool.apply_async(_run_job, (key,)) for key, _, _ in jobs}
            for key, p in pending.items():
                try:
                    results[key] = p.get()
                except Exception as exc:      # machinery
                    results[key] = exc
    except tlc.TLCError as exc:
        run.machinery(str(exc))
        return run.finish()
    finally:
        shutil.rmtree(scratch, ignore_errors=True)
    for key, val in results.items():
        if isinstance(val, Exception):
            run.machinery(f'TLC on {key}: {val!r}')
            return run.finish()
    for cfg, keys in parts.items():
        # the runs of one configuration, put together
        if not keys:
            continue
        by, stats, gres = {}, {}, None
        for key in keys:
            b, st_, g = results.pop(key)
            run.add_model(g, cfg + ('' if len(keys) == 1 else '@' + key[1]))
            by.update(b)
            for k, v in st_.items():
                stats[k] = stats.get(k, 0) + v
            if gres is None or not g.ok:
                gres = g
        results[cfg] = (by, stats, gres)
    for key, cfg in (('rfc', 'Namespace_rfc.cfg'), ('rfc-md', 'Namespace_oddrfc.cfg')):
        if key not in results:
            continue
        res = results[key]
        run.add_model(res, cfg)
        if not res.ok:
            run.machinery(f'the reference model fails its own sanity properties ({cfg}): '
                          f'{res.violated or res.error}')
            return run.finish()
    run.notes['tlc_wall_s'] = round(time.time() - run.t0, 1)

    # ---- 2. behaviours -> executions ----------------------------------------
    plan: list = []
    ascii_concs = [c for c in CONCS if c.ascii_only]
    graphs = {}
    sliced = {}
    for cfg, max_len in tours:
        if cfg not in results:      # none of its stores is run
            continue
        by, stats, gres = results[cfg]
        if gres is None or not gres.ok:
            run.machinery(f'{cfg}: {gres and (gres.violated or gres.error)}')
            return run.finish()
        graphs[cfg] = stats
        order = list(range(len(CONCS)))
        rng.shuffle(order)
        odd = (cfg, max_len) in ODD
        for st in stores:
            npaths = stats.get('paths@' + st, 0)
            nplan = len(plan)
            for k, init, steps in by.get(st, []):
                pool_ = ascii_concs if odd or has_newline(init, steps) else CONCS
                reps = pool_ if (tier == 'thorough' and npaths < 400) else \
                    [pool_[order[k % len(order)] % len(pool_)]]
                for conc in reps:
                    plan.append(Execution('tour:' + cfg, conc, init, steps, store=st))
            if st != 'dict' and npaths:
                sliced[f'tour:{cfg}@{st}'] = f'{len(by.get(st, []))} of {npaths} paths'
    by, stats, gres = results.get(MATCH[tier]) or ({}, {}, None)
    if gres is None or not gres.ok:
        run.machinery(f'{MATCH[tier]}: {gres and (gres.violated or gres.error)}')
        return run.finish()
    graphs[MATCH[tier]] = stats
    for st in stores:
        md = st != 'dict'
        nplan = len(plan)
        for k, init, steps in by.get(st, []):
            big = len(init['mbx']) > 8
            reps = ascii_concs if tier == 'thorough' or big \
                else [ascii_concs[(k + run.seed) % len(ascii_concs)]]
            if tier == 'quick' and big:
                reps = [ascii_concs[run.seed % len(ascii_concs)],
                        ascii_concs[(run.seed + 1) % len(ascii_concs)]]
                if md:
                    reps = [ascii_concs[(k + offs[st]) % len(ascii_concs)]]
            for conc in reps:
                e = Execution(nmatch, conc, init, steps, probes=False, store=st)
                e.nontrivial = any('/' in n for n in init['mbx'])
                plan.append(e)
        if md:
            sliced[f'{nmatch}@{st}'] = (f'{len(plan) - nplan} executions of '
                                        f'{stats.get("paths@" + st, 0)} name sets')
    for key in ('sim', 'sim-md'):
        if key not in results:
            continue
        behs, sres = results[key]
        run.add_model(sres, f'Namespace_sim.cfg(simulate{key[3:]})')
        if not behs:
            run.machinery('simulation produced no behaviour: '
                          + (sres.error or sres.output[-600:]))
            return run.finish()
        for k, (init, steps) in enumerate(behs):
            if init['store'] in stores:
                plan.append(Execution('sim', ascii_concs[rng.randrange(len(ascii_concs))],
                                      init, steps, store=init['store']))
                n = run.notes.setdefault('simulated_behaviours', {})
                n[init['store']] = n.get(init['store'], 0) + 1
    run.notes['graphs'] = graphs
    if sliced:
        run.notes['maildir_slice'] = sliced

    # ---- 3. run them on the real server ----------------------------------------
    # (all TLC work of the prediction is done: the executions are forked from here)
    t_run = time.time()
    keep = set()
    for st in stores:
        cand = [i for i, e in enumerate(plan) if e.kind != nmatch and e.store == st]
        nk = (25 if tier == 'quick' else 200) if st == 'dict' else \
            (10 if tier == 'quick' else 100)
        keep |= set(rng.sample(cand, min(len(cand), nk)))
        keep |= set([i for i, e in enumerate(plan) if e.kind == nmatch and e.store == st
                     and len(e.init['mbx']) <= 8][:5 if st == 'dict' else 2])
    try:
        run_plan(plan, keep, run.seed)
    except Exception as exc:
        run.machinery(f'replay failed: {exc!r}')
        return run.finish()
    run.notes['replay_wall_s'] = round(time.time() - t_run, 1)
    run.notes['imap_commands'] = sum(e.ncmd for e in plan)
    run.notes['steps_compared'] = sum(e.done_steps for e in plan)
    run.notes['per_store'] = {
        st: {'executions': sum(1 for e in plan if e.store == st),
             'imap_commands': sum(e.ncmd for e in plan if e.store == st),
             'steps_compared': sum(e.done_steps for e in plan if e.store == st),
             'connections_closed_by_server': sum(e.byes for e in plan if e.store == st)}
        for st in stores}

    # ---- 4. verdicts -----------------------------------------------------------
    drifted = [e for e in plan if e.drift is not None]
    sample = [plan[i] for i in sorted(keep) if plan[i].drift is None]
    to_judge = drifted[:JUDGE_MAX] + sample
    try:
        verd = judge(to_judge)
    except tlc.TLCError as exc:
        run.machinery(str(exc))
        return run.finish()
    jres = verd.pop('_res', None)
    if jres is not None:
        run.notes['judge'] = {'traces': len(to_judge), 'drifted': len(drifted),
                              'drifted_by_store': {st: sum(1 for e in drifted if e.store == st)
                                                   for st in stores},
                              'wall_s': round(jres.wall_s, 1),
                              'states': jres.distinct}
    for i, e in enumerate(to_judge):
        reached, length, used = verd[i]
        if e.drift is None:
            # it followed NextAsIs, a selection from the allowed outcomes
            if reached < length or used is None:
                run.machinery(f'judge rejects an execution that matched the model at event '
                              f'{reached + 1}: {_describe(e, reached)} '
                              f'({e.kind}, {e.store}, {e.conc.name})')
            continue
        if reached >= length and used is not None:
            d = dict(e.drift)
            d.update(kind=e.kind, store=e.store, conc=e.conc.name, accepted_by_judge=True,
                     deviations=sorted(used))
            run.drift.append(d)
            for dv in used:
                e.devs.setdefault(dv, e.drift['step'])
        else:
            last = reached == len(e.events) - 1
            what = (f'{_describe(e, reached)} [{e.store}, {e.conc.name}, {e.kind}]: the answer '
                    f'is not one RFC 3501 allows in the state reached'
                    + (f' ({e.drift["why"]})' if last else ''))
            run.violation(what, e.replay_dict(reached + 1), None)
    summary: dict = {}
    for d in run.drift:
        k = '%s %s predicted:%s' % (d['store'], d['cmd'][0],
                                    ','.join(d['model']['dev']) or 'no-deviation')
        summary[k] = summary.get(k, 0) + 1
    run.notes['drift_summary'] = summary
    if len(drifted) > JUDGE_MAX:
        run.machinery(f'{len(drifted)} executions differ from the model; only {JUDGE_MAX} judged')
    by_dev: dict = {}
    for e in plan:
        for what, detail in e.broken:
            rd = e.replay_dict()
            rd['detail'] = detail
            run.violation(f'{what} [{e.store}, {e.conc.name}, {e.kind}]', rd, None)
        for dv, k in e.devs.items():
            by_dev.setdefault(dv, []).append((len(e.cmds), e.conc.name, k, e))
        run.count_exec((e.store, e.conc.name, e.kind, e.cmds), nontrivial=e.nontrivial,
                       validated=e.drift is None or e in to_judge)
    run.notes['deviations_seen'] = {
        st: {dv: sum(1 for x in lst if x[3].store == st) for dv, lst in sorted(by_dev.items())
             if any(x[3].store == st for x in lst)} for st in stores}
    for dv, lst in sorted(by_dev.items()):
        lst.sort(key=lambda x: x[:3])
        for n, (_l, _c, k, e) in enumerate(lst):
            # a deviation excuses only on the stores it is a finding of
            if dv in run.known.open and dv in devs_for(e.store):
                run.known.excuses(dv)
            elif n < 2:
                run.violation(f'deviation {dv} at {_describe(e, e.nsetup + k)} '
                              f'[{e.store}, {e.conc.name}, {e.kind}]',
                              e.replay_dict(e.nsetup + k + 1), dv)
    for e in (plan[:1] + [x for x in plan if x.kind == 'sim'][:1]
              + [x for x in plan if x.kind.startswith('match')][:1]):
        run.sample({'kind': e.kind, 'store': e.store, 'conc': e.conc.name, 'cmds': e.cmds[:12],
                    'wire': [repr(a) for a, _ in e.wire[:8]]})
    run.cov['exhaustive'] = True
    run.notes['exhaustive_scope'] = (
        'dict (and, in the thorough tier, both maildir layouts): every edge of the NextAsIs '
        'graphs of the tour configurations and every <name set, reference, pattern> of the '
        'matcher configuration, each with at least one concretisation; maildir in the quick '
        'tier: the slice recorded in maildir_slice; the sanity properties on every allowed '
        'outcome of Namespace_rfc.cfg')
    run.notes['concretisations'] = {c.name: sum(1 for e in plan if e.conc is c) for c in CONCS}
    run.notes['kinds'] = {}
    for e in plan:
        k = e.kind + ('' if e.store == 'dict' else '@' + e.store)
        run.notes['kinds'][k] = run.notes['kinds'].get(k, 0) + 1
    return run.finish()


def replay(path: str) -> int:
    data = json.load(open(path))
    rd = data['replay']
    conc = CONC_BY_NAME[rd['conc']]
    init = {'mbx': {tuple(n): 0 for n in rd['init']['mbx']},
            'sub': {tuple(n) for n in rd['init']['sub']}}
    nsetup = len(init['mbx']) - 1 + len(init['sub'])
    e = Execution('replay', conc, init, [], store=rd.get('store', 'dict'))
    d = Driver(conc, e.store)
    try:
        prev = set(init['mbx'])
        for c in rd['cmds']:
            cmd = tuple([c[0]] + [tuple(x) for x in c[1:]])
            o = d.do(cmd)
            names = set()
            if len(e.events) >= nsetup:
                pl = d.listing(b'LIST', (), ('*',))
                ps = d.listing(b'LSUB', (), ('*',))
                names = prev | {n for n, _ in pl['ents']} | {tuple(x) for x in cmd[1:] if x}
                names = {(('I',) if n == ('i',) else n) for n in names
                         if n and '*' not in n and '%' not in n
                         and not any(t.startswith('?') or t == '&' for t in n)}
                st = {n: d.status(n) for n in sorted(names)}
                e._event(cmd, o, True, pl['ents'], ps['ents'], st)
                prev = {n for n, s in st.items() if s['ok']}
            else:
                e._event(cmd, o, False)
        for a, b in d.wire:
            print('C:', a)
            for ln in b.split(b'\r\n'):
                if ln:
                    print('   S:', ln)
    finally:
        d.close()
    verd = judge([e])
    reached, length, used = verd[0]
    if reached < length or used is None:
        print(f'VIOLATION property={PROP} replay={path}')
        print(f'  event {reached + 1}/{length} {_describe(e, reached)} is not an outcome '
              'RFC 3501 allows')
        return 1
    print(f'accepted by Trace_Namespace ({length} events), deviations used: {sorted(used)}')
    known = Run(PROP, 'replay').known
    bad = [dv for dv in sorted(used)
           if not (dv in devs_for(e.store) and known.excuses(dv))]
    known.print_seen()
    if bad:
        print(f'VIOLATION property={PROP} replay={path}')
        print(f'  needs the deviation(s) {bad}, which are not open known findings')
        return 1
    return 0
