"""C20 - lock primitives.

1. TLC checks RWLock.tla (asyncio.Lock + _AsyncioReadWriteLock, line by line)
   exhaustively: exclusion, counter exactness, clean at end, deadlock freedom,
   progress under fairness, with a cancellation at any step.
2. spec -> code: every edge of the dumped state graph is replayed on the REAL
   lock object under the driver-owned loop; after every step the projection of
   the real object (pc, _counter, both asyncio.Locks' locked bit and waiter
   queues) is compared with the spec state (difference = drift).
3. code -> spec: all recorded executions (the replays and seeded random walks
   driven by the real object's own enabledness) are validated by TLC against
   Trace_LockObs (the property: a rejection is the VIOLATION) and against
   Trace_RWLock (implementation-shaped: a rejection is drift).
4. FileLock: FileLock.tla + the same three steps (see filelock.py).
"""

from __future__ import annotations

import random

from ..common import Run
from ..vloop import VLoop
from .. import tlc
from ..server import REPO  # noqa: F401  (puts /repo on sys.path)

from pymap.concurrent import ReadWriteLock


class LockRun:
    """A set of harness tasks working on one real ReadWriteLock."""

    def __init__(self, loop: VLoop, progs: dict):
        self.loop = loop
        self.lock = ReadWriteLock.for_asyncio()
        self.progs = progs
        self.park_fut: dict = {}
        self.park_label: dict = {}
        self.cur_op: dict = {}
        self.events: list = []       # observer events
        self.steps: list = []        # impl-shaped events with post state
        self.tasks = {}
        for t, prog in progs.items():
            self.tasks[t] = loop.spawn(self._worker(t, prog), t)
            loop.run_owner(t)
        self.steps.append({'e': 'init', 'left': {t: list(p) for t, p in progs.items()}})

    async def _park(self, t, label):
        fut = self.loop.create_future()
        self.park_fut[t] = fut
        self.park_label[t] = label
        try:
            await fut
        finally:
            self.park_fut.pop(t, None)
            self.park_label.pop(t, None)

    async def _worker(self, t, prog):
        for op in prog:
            self.cur_op[t] = op
            await self._park(t, 'idle')
            cm = self.lock.read_lock() if op == 'r' else self.lock.write_lock()
            async with cm:
                self.events.append({'e': 'enter', 't': t, 'k': op})
                try:
                    await self._park(t, 'inR' if op == 'r' else 'inW')
                finally:
                    self.events.append({'e': 'exit', 't': t, 'k': op})

    # -- projection ------------------------------------------------------------

    def _queue(self, alock):
        out = []
        for fut in (alock._waiters or ()):
            owner = None
            for t, task in self.tasks.items():
                if task._fut_waiter is fut:
                    owner = t
            st = 'canc' if fut.cancelled() else ('woken' if fut.done() else 'pend')
            out.append({'t': owner or '?', 'st': st})
        return out

    def pc(self, t):
        task = self.tasks[t]
        if task.done():
            if task.cancelled():
                return 'dead'
            return 'done' if task.exception() is None else 'crashed'
        if t in self.park_label:
            lab = self.park_label[t]
            # a cancelled task parked in the harness future is already dead
            return lab
        fw = task._fut_waiter
        lock = self.lock
        if fw is not None and fw in (lock._read_lock._waiters or ()):
            return 'rmw'
        if fw is not None and fw in (lock._write_lock._waiters or ()):
            return 'wlw' if self.cur_op.get(t) == 'w' else 'ww'
        return 'running'

    def project(self) -> dict:
        lock = self.lock
        return {'pc': {t: self.pc(t) for t in self.tasks},
                'counter': lock._counter,
                'rml': lock._read_lock.locked(),
                'wll': lock._write_lock.locked(),
                'rmq': self._queue(lock._read_lock),
                'wlq': self._queue(lock._write_lock)}

    # -- actions ---------------------------------------------------------------

    def enabled(self) -> list:
        acts = []
        ready = set(self.loop.ready_owners())
        for t, task in self.tasks.items():
            if task.done():
                continue
            lab = self.park_label.get(t)
            if lab == 'idle':
                acts.append(('begin', t))
            elif lab in ('inR', 'inW'):
                acts.append(('leave', t))
            elif t in ready:
                acts.append(('resume', t))
            if not task.cancelling():
                acts.append(('cancel', t))
        return acts

    def do(self, act: str, t: str) -> bool:
        task = self.tasks[t]
        if task.done():
            return False
        lab = self.park_label.get(t)
        if act == 'begin':
            if lab != 'idle':
                return False
            self.park_fut[t].set_result(None)
            self.loop.run_owner(t)
        elif act == 'leave':
            if lab not in ('inR', 'inW'):
                return False
            self.park_fut[t].set_result(None)
            self.loop.run_owner(t)
        elif act == 'resume':
            if lab is not None or t not in self.loop.ready_owners():
                return False
            self.loop.run_owner(t)
        elif act == 'cancel':
            task.cancel()
            if lab is not None:
                self.loop.run_owner(t)
        else:
            raise ValueError(act)
        self.events.append({'e': act, 't': t})
        ev = {'e': act, 't': t}
        ev.update(self.project())
        self.steps.append(ev)
        return True

    def drain(self) -> None:
        """Let every surviving task run to completion, FIFO."""
        for _ in range(1000):
            progressed = False
            for t in list(self.park_fut):
                fut = self.park_fut.get(t)
                if fut is not None and not fut.done():
                    fut.set_result(None)
                    progressed = True
            if self.loop.run_all():
                progressed = True
            if not progressed:
                break
        finished = all(task.done() for task in self.tasks.values())
        crashed = [t for t, task in self.tasks.items() if task.done()
                   and not task.cancelled() and task.exception() is not None]
        lock = self.lock
        released = (not lock._write_lock.locked()
                    and not lock._read_lock.locked() and lock._counter == 0)
        self.events.append({'e': 'end', 'finished': finished and not crashed,
                            'released': released})
        if not finished:
            for task in self.tasks.values():
                task.cancel()
            self.loop.run_all()


_ACT = {'Begin': 'begin', 'Resume': 'resume', 'Exit': 'leave', 'Cancel': 'cancel'}


def _spec_proj(st: dict) -> dict:
    return {'pc': {str(k): v for k, v in st['pc'].items()},
            'counter': st['counter'],
            'rml': st['rm']['locked'], 'wll': st['wl']['locked'],
            'rmq': [{'t': str(e['t']), 'st': e['st']} for e in st['rm']['q']],
            'wlq': [{'t': str(e['t']), 'st': e['st']} for e in st['wl']['q']]}


def replay_path(loop, graph, init, path):
    st0 = graph.nodes[init]
    progs = {str(t): tuple(p) for t, p in st0['left'].items()}
    run = LockRun(loop, progs)
    drift = None
    for i, (label, dst) in enumerate(path):
        name, args = tlc.parse_label(label)
        ok = run.do(_ACT[name], str(args[0]))
        if not ok:
            drift = drift or {'step': i, 'label': label, 'why': 'not executable on the real object'}
            break
        want = _spec_proj(graph.nodes[dst])
        got = run.project()
        if want != got and drift is None:
            diff = {k: (want[k], got[k]) for k in want if want[k] != got[k]}
            drift = {'step': i, 'label': label, 'diff': diff}
            break
    run.drain()
    return run, drift


def random_walk(loop, rng, tasks, max_ops, max_cancel, max_steps):
    progs = {t: tuple(rng.choice('rw') for _ in range(rng.randint(0, max_ops)))
             for t in tasks}
    run = LockRun(loop, progs)
    cancels = 0
    for _ in range(max_steps):
        acts = run.enabled()
        if cancels >= max_cancel:
            acts = [a for a in acts if a[0] != 'cancel']
        else:
            # keep cancellation rare-ish but present
            if rng.random() < 0.7:
                acts = [a for a in acts if a[0] != 'cancel'] or acts
        if not acts:
            break
        act, t = rng.choice(acts)
        if act == 'cancel':
            cancels += 1
        run.do(act, t)
    run.drain()
    return run


def main(tier: str) -> int:
    run = Run('C20', tier)
    rng = random.Random(run.seed)
    run.cov['rule'] = (
        'executions = replays of the edge cover of the TLC state graph of '
        'RWLock.tla on the real _AsyncioReadWriteLock + seeded random walks '
        'driven by the real object; non-trivial = an execution in which at '
        'least one task had to wait for the lock (contention) or was '
        'cancelled; distinct = distinct observer event sequences')
    run.assumptions += [
        'CPython 3.12 asyncio.Lock semantics as modelled from locks.py',
        'tasks switch only at suspensions (asyncio); the threading variant of '
        'the lock is not exercised',
        'FileLock: holders do not outlive the expiration (600 s)']

    # 1. exhaustive model check + graph
    if tier == 'quick':
        cfg, sim_n, walks = 'RWLock_fixed.cfg', 0, 1500
    else:
        cfg, sim_n, walks = 'RWLock_fixed.cfg', 0, 20000
    try:
        graph, res = tlc.dump_graph('RWLock.tla', cfg, workers=16)
    except tlc.TLCError as exc:
        run.machinery(str(exc))
        return run.finish()
    run.add_model(res, cfg)
    if not res.ok:
        run.machinery(f'model check of {cfg} failed: {res.violated or res.error}')
        return run.finish()
    if tier == 'thorough':
        res4 = tlc.run_tlc('RWLock.tla', 'RWLock_4.cfg', workers=16, timeout=3000)
        run.add_model(res4, 'RWLock_4.cfg')
        if not res4.ok:
            run.machinery(f'model check of RWLock_4.cfg failed: {res4.violated or res4.error}')

    # 2. replay the edge cover on the real lock
    import time as _time
    _t = _time.time()
    loop = VLoop()
    obs_traces, impl_traces, meta = [], [], []
    paths = tlc.edge_cover(graph, max_len=40)
    run.notes['graph'] = {'nodes': len(graph.nodes), 'edges': graph.n_edges,
                          'cover_paths': len(paths)}
    if tier == 'quick':
        # the full edge cover (every edge of the graph) runs in the thorough tier;
        # quick replays a seeded third of its paths
        rng.shuffle(paths)
        paths = paths[:12000]
    covered = set()
    for init, path in paths:
        lr, drift = replay_path(loop, graph, init, path)
        if drift:
            drift['path'] = [p[0] for p in path]
            drift['progs'] = {str(k): list(v) for k, v in graph.nodes[init]['left'].items()}
            run.drift.append(drift)
        obs_traces.append(lr.events)
        impl_traces.append(lr.steps)
        meta.append({'kind': 'replay', 'progs': {k: list(v) for k, v in lr.progs.items()},
                     'actions': [p[0] for p in path]})
        for p in path:
            covered.add(tlc.parse_label(p[0])[0])
    run.notes['replayed_actions'] = sorted(covered)
    run.notes['replay_wall_s'] = round(_time.time() - _t, 1)

    # 3. random walks driven by the real object
    for i in range(walks):
        ntask = rng.choice([2, 3, 3, 4]) if tier == 'thorough' else 3
        tasks = [f't{k+1}' for k in range(ntask)][:3]
        lr = random_walk(loop, rng, tasks, 3, 2, 40)
        obs_traces.append(lr.events)
        impl_traces.append(lr.steps)
        meta.append({'kind': 'walk', 'progs': {k: list(v) for k, v in lr.progs.items()},
                     'actions': [f"{s['e']}({s['t']})" for s in lr.steps[1:]]})
    loop.shutdown()

    run.notes['walks_wall_s'] = round(_time.time() - _t, 1)
    # 4. TLC judges the recorded executions
    verd = tlc.validate_traces('Trace_LockObs.tla', 'Trace_LockObs.cfg', obs_traces)
    vres = verd.pop('_res')
    if len(verd) != len(obs_traces):
        run.machinery('observer validation incomplete: ' + (vres.error or vres.output[-800:]))
        return run.finish()
    dver = tlc.validate_traces('Trace_RWLock.tla', 'Trace_RWLock.cfg', impl_traces)
    dres = dver.pop('_res')
    if len(dver) != len(impl_traces):
        run.notes['impl_trace_validation'] = 'incomplete: ' + (dres.error or dres.output[-400:])
        dver = {}
    for i, ev in enumerate(obs_traces, 1):
        reached, length = verd[i]
        contention = any(s.get('pc') and any(v in ('ww', 'wlw', 'rmw') for v in s['pc'].values())
                         for s in impl_traces[i - 1][1:])
        cancelled = any(e['e'] == 'cancel' for e in ev)
        sig = [(e['e'], e.get('t'), e.get('k')) for e in ev if e['e'] in ('enter', 'exit', 'cancel')]
        run.count_exec(sig, nontrivial=contention or cancelled)
        if reached < length:
            bad = ev[reached]
            run.violation(
                f'observer rejects event {reached + 1}/{length} {bad}: '
                + ('two sections overlap' if bad['e'] == 'enter' else
                   'tasks left blocked or lock not released after all holders released'
                   if bad['e'] == 'end' else 'unexpected event'),
                {'check': 'C20', 'meta': meta[i - 1], 'events': ev})
        if dver:
            r2, l2 = dver[i]
            if r2 < l2 and reached == length:
                run.drift.append({'trace': meta[i - 1], 'rejected_at': r2,
                                  'event': impl_traces[i - 1][r2]})
    for m in meta[:2] + meta[-1:]:
        run.sample(m)
    run.cov['exhaustive'] = tier == 'thorough'
    run.notes['exhaustive_scope'] = ('RWLock.tla: 3 tasks, every program over {r,w} of '
                                     'length <= 2 per task, one cancellation at any step; '
                                     'every edge of that graph replayed on the real lock')

    # FileLock part
    try:
        from . import filelock
        filelock.run_part(run, tier, rng)
    except ImportError:
        run.notes['filelock'] = 'not built yet'
    return run.finish()
