"""FileLock half of C20: FileLock.tla (tasks configuration) checked by TLC; its
graph's edges replayed on real FileLock objects (scratch lock file, virtual time
for the retry sleeps, cancellation and exceptions inside the section); seeded random
walks driven by the real objects; all recorded executions validated by TLC against
Trace_LockObs (kinds W/R: the VIOLATION oracle) and Trace_FileLock (drift)."""

from __future__ import annotations

import os
import shutil
import tempfile
import time

from .. import tlc
from ..vloop import VLoop, OWNER

from pymap.concurrent import FileLock

DELAYS = (0.01, 0.01)          # = MaxRetry 2 in the spec


class Injected(Exception):
    pass


class FRun:

    def __init__(self, loop: VLoop, progs: dict, stale: bool, directory: str):
        self.loop = loop
        self.path = os.path.join(directory, f'lock.{id(self)}')
        if stale:
            with open(self.path, 'x'):
                pass
            old = time.time() - 10000
            os.utime(self.path, (old, old))
        self.progs = progs
        self.park_fut, self.park_label = {}, {}
        self.events, self.steps = [], []
        self.state = {t: ('done' if not p else 'idle') for t, p in progs.items()}
        self.tasks = {}
        for t, prog in progs.items():
            self.tasks[t] = loop.spawn(self._worker(t, prog), t)
            loop.run_owner(t)
        self.steps.append({'e': 'init', 'left': {t: list(p) for t, p in progs.items()},
                           'file': self.file()})

    def file(self) -> str:
        try:
            st = os.stat(self.path)
        except FileNotFoundError:
            return 'none'
        return 'stale' if time.time() - st.st_mtime >= 600 else 'fresh'

    async def _park(self, t, label):
        fut = self.loop.create_future()
        self.park_fut[t], self.park_label[t] = fut, label
        try:
            await fut
        finally:
            self.park_fut.pop(t, None)
            self.park_label.pop(t, None)

    async def _worker(self, t, prog):
        try:
            for op in prog:
                self.state[t] = 'idle'
                await self._park(t, 'idle')
                lock = FileLock(self.path, read_retry_delay=DELAYS, write_retry_delay=DELAYS)
                cm = lock.read_lock() if op == 'r' else lock.write_lock()
                self.state[t] = 'sleep'
                try:
                    async with cm:
                        self.state[t] = 'inR' if op == 'r' else 'inW'
                        self.events.append({'e': 'enter', 't': t, 'k': 'R' if op == 'r' else 'W'})
                        try:
                            await self._park(t, 'in')
                        finally:
                            self.events.append({'e': 'exit', 't': t, 'k': 'R' if op == 'r' else 'W'})
                except TimeoutError:
                    self.state[t] = 'timeout'
                    return
            self.state[t] = 'done'
        except BaseException:
            self.state[t] = 'dead'
            raise

    def pcs(self):
        return dict(self.state)

    def timer_of(self, t):
        for h in self.loop._scheduled:
            if not h._cancelled and VLoop.owner_of(h) == t:
                return h
        return None

    def enabled(self):
        acts = []
        for t, task in self.tasks.items():
            if task.done():
                continue
            lab = self.park_label.get(t)
            if lab == 'idle':
                acts.append(('begin', t))
            elif lab == 'in':
                acts.append(('leave', t))
            elif self.state[t] == 'sleep' and self.timer_of(t) is not None:
                acts.append(('wake', t))
            acts.append(('fault', t))
        return acts

    def do(self, act, t, how='cancel') -> bool:
        task = self.tasks[t]
        if task.done():
            return False
        lab = self.park_label.get(t)
        if act == 'begin':
            if lab != 'idle':
                return False
            self.park_fut[t].set_result(None)
            self.loop.run_owner(t)
        elif act == 'leave':
            if lab != 'in':
                return False
            self.park_fut[t].set_result(None)
            self.loop.run_owner(t)
        elif act == 'wake':
            h = self.timer_of(t)
            if lab is not None or h is None:
                return False
            if h._when > self.loop._vtime:
                self.loop._vtime = h._when
            self.loop.run_owner(t)
        elif act == 'fault':
            if lab == 'in' and how == 'raise':
                self.park_fut[t].set_exception(Injected())
            else:
                task.cancel()
            self.loop.run_owner(t)
        self.events.append({'e': act, 't': t})
        self.steps.append({'e': act, 't': t, 'pc': self.pcs(), 'file': self.file()})
        return True

    def drain(self):
        for _ in range(2000):
            progressed = False
            for t in list(self.park_fut):
                fut = self.park_fut.get(t)
                if fut is not None and not fut.done():
                    fut.set_result(None)
                    progressed = True
            if self.loop.run_all():
                progressed = True
            if not progressed and not self.loop.advance_to_next_timer():
                break
        finished = all(task.done() for task in self.tasks.values())
        self.events.append({'e': 'end', 'finished': finished, 'released': self.file() != 'fresh'})
        for task in self.tasks.values():
            if not task.done():
                task.cancel()
        self.loop.run_all()
        for task in self.tasks.values():      # retrieve exceptions (injected ones are expected)
            if task.done() and not task.cancelled():
                task.exception()
        try:
            os.unlink(self.path)
        except FileNotFoundError:
            pass


def with_write_part(rng):
    """-> (observer traces, meta): Subscriptions / UidList .with_write on a readable, an
    unreadable and a garbled control file; 'end.released' = no lock file is left behind"""
    from pymap.backend.maildir.subscriptions import Subscriptions
    from pymap.backend.maildir.uidlist import UidList
    obs, meta = [], []
    cases = [('subscriptions', Subscriptions, 'subscriptions', None),
             ('subscriptions', Subscriptions, 'subscriptions', b'Box\n'),
             ('subscriptions', Subscriptions, 'subscriptions', b'\xff\xfe\n'),
             ('uidlist', UidList, 'dovecot-uidlist', None),
             ('uidlist', UidList, 'dovecot-uidlist', b''),
             ('uidlist', UidList, 'dovecot-uidlist', b'garbage without header\n\xff'),
             ('uidlist', UidList, 'dovecot-uidlist', b'3 V1 N5 G00000000000000000000000000000000\n1 :a\nnot a record\n')]
    for kind, cls, fname, content in cases:
        d = tempfile.mkdtemp(prefix='verif.withwrite.')
        loop = VLoop()
        ev = []
        kept: list = []
        try:
            if content is not None:
                with open(os.path.join(d, fname), 'wb') as f:
                    f.write(content)

            async def once(tag):
                ev.append({'e': 'begin', 't': tag})
                try:
                    async with cls.with_write(d):
                        ev.append({'e': 'enter', 't': tag, 'k': 'W'})
                        ev.append({'e': 'exit', 't': tag, 'k': 'W'})
                except BaseException as exc:   # noqa: BLE001 - the failing read is the point
                    # the error object stays referenced (as a logged or stored exception
                    # does): what finalisers would release once it is collected stays held
                    kept.append(exc)
                    ev.append({'e': 'fault', 't': tag})
            for tag in ('t1', 't2'):
                t = loop.spawn(once(tag), tag)
                loop.settle(200000, max_vtime=loop.time() + 30)
                if not t.done():
                    t.cancel()
                    loop.settle(200000, max_vtime=loop.time() + 30)
            left = [x for x in os.listdir(d) if x.endswith('.lock')]
            ev.append({'e': 'end', 'finished': True, 'released': not left})
        finally:
            loop.shutdown()
            shutil.rmtree(d, ignore_errors=True)
        obs.append(ev)
        meta.append({'kind': 'with-write', 'file': kind,
                     'content': None if content is None else content.decode('latin1')})
    return obs, meta


_ACT = {'BeginA': 'begin', 'Wake': 'wake', 'Exit': 'leave', 'Fault': 'fault'}


def run_part(run, tier, rng) -> None:
    res = tlc.run_tlc('FileLock.tla', 'FileLock_tasks.cfg', workers=16)
    run.add_model(res, 'FileLock tasks (3 tasks, <=2 ops, stale lock at start, 1 fault)')
    if not res.ok:
        run.machinery(f'FileLock_tasks.cfg fails: {res.violated or res.error}')
        return
    graph, gres = tlc.dump_graph('FileLock.tla', 'FileLock_replay.cfg', workers=8)
    run.add_model(gres, 'FileLock replay graph (2 tasks)')
    d = tempfile.mkdtemp(prefix='verif.filelock.')
    loop = VLoop()
    obs, impl, meta = [], [], []
    try:
        paths = tlc.edge_cover(graph, max_len=30)
        if tier == 'quick' and len(paths) > 1500:
            rng.shuffle(paths)
            paths = paths[:1500]
        for init, path in paths:
            st0 = graph.nodes[init]
            progs = {str(t): tuple(p) for t, p in st0['left'].items()}
            fr = FRun(loop, progs, st0['file'] == 'stale', d)
            drift = None
            for i, (label, dst) in enumerate(path):
                name, args = tlc.parse_label(label)
                if not fr.do(_ACT[name], str(args[0]), how=rng.choice(['cancel', 'raise'])):
                    drift = {'step': i, 'label': label, 'why': 'not executable on the real object'}
                    break
                want = graph.nodes[dst]
                wpc = {str(k): v for k, v in want['pc'].items()}
                if wpc != fr.pcs() or want['file'] != fr.file():
                    drift = {'step': i, 'label': label, 'model': [wpc, want['file']],
                             'code': [fr.pcs(), fr.file()], 'path': [p[0] for p in path]}
                    break
            fr.drain()
            if drift:
                run.drift.append(dict(drift, part='filelock'))
            obs.append(fr.events)
            impl.append(fr.steps)
            meta.append({'kind': 'filelock-replay', 'progs': {k: list(v) for k, v in progs.items()},
                         'actions': [p[0] for p in path]})
        for _ in range(600 if tier == 'quick' else 8000):
            progs = {t: tuple(rng.choice('rw') for _ in range(rng.randint(0, 3))) for t in ('t1', 't2', 't3')}
            fr = FRun(loop, progs, rng.random() < 0.3, d)
            faults = 0
            for _s in range(40):
                acts = fr.enabled()
                if faults >= 2 or rng.random() < 0.75:
                    acts = [a for a in acts if a[0] != 'fault'] or ([] if faults >= 2 else acts)
                if not acts:
                    break
                act, t = rng.choice(acts)
                faults += act == 'fault'
                fr.do(act, t, how=rng.choice(['cancel', 'raise']))
            fr.drain()
            obs.append(fr.events)
            impl.append(fr.steps)
            meta.append({'kind': 'filelock-walk', 'progs': {k: list(v) for k, v in progs.items()},
                         'actions': [f"{s['e']}({s['t']})" for s in fr.steps[1:]]})
    finally:
        loop.shutdown()
        shutil.rmtree(d, ignore_errors=True)
    # the write lock as the maildir backend takes it (with_write of a control file): a section
    # whose ENTRY fails after the lock was granted - the file cannot be read - is an exit too
    obs_ww, meta_ww = with_write_part(rng)
    obs += obs_ww
    impl += [[{'e': 'init', 'left': {}, 'file': 'none'}] for _ in obs_ww]
    meta += meta_ww
    verd = tlc.validate_traces('Trace_LockObs.tla', 'Trace_LockObs.cfg', obs)
    vres = verd.pop('_res')
    if len(verd) != len(obs):
        run.machinery('FileLock observer validation incomplete: ' + (vres.error or vres.output[-600:]))
        return
    dver = tlc.validate_traces('Trace_FileLock.tla', 'Trace_FileLock.cfg', impl)
    dver.pop('_res')
    for i, ev in enumerate(obs, 1):
        reached, length = verd[i]
        waited = any(s.get('pc') and 'sleep' in s['pc'].values() for s in impl[i - 1][1:])
        faulted = any(e['e'] == 'fault' for e in ev)
        run.count_exec(('filelock', [(e['e'], e.get('t'), e.get('k')) for e in ev
                                     if e['e'] in ('enter', 'exit', 'fault')]),
                       nontrivial=waited or faulted)
        if reached < length:
            bad = ev[reached]
            if meta[i - 1]['kind'] == 'with-write':
                run.violation(f"with_write({meta[i - 1]['file']}) on content {meta[i - 1]['content']!r}: "
                              f'observer rejects event {reached + 1}/{length} {bad}: lock file left behind',
                              {'check': 'C20', 'part': 'with-write', 'meta': meta[i - 1], 'events': ev})
                continue
            run.violation(f'FileLock: observer rejects event {reached + 1}/{length} {bad}: '
                          + ('two writers hold the lock file at once' if bad['e'] == 'enter'
                             else 'lock file left behind / task stuck' if bad['e'] == 'end' else '?'),
                          {'check': 'C20', 'part': 'filelock', 'meta': meta[i - 1], 'events': ev})
        elif dver and i in dver and dver[i][0] < dver[i][1]:
            run.drift.append({'part': 'filelock', 'trace': meta[i - 1], 'rejected_at': dver[i][0],
                              'event': impl[i - 1][dver[i][0]]})
    run.notes['filelock'] = {'replayed_paths': sum(1 for m in meta if m['kind'] == 'filelock-replay'),
                             'walks': sum(1 for m in meta if m['kind'] == 'filelock-walk'),
                             'graph_nodes': len(graph.nodes), 'graph_edges': graph.n_edges}
    run.sample(meta[0])
