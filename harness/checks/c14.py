"""C14 - no message lost or half-applied when a command fails midway (dict backend).

Design: MailboxSync.tla ... (the split MOVE/COPY/APPEND actions live in
MailboxFault.tla, checked by TLC with Cancel/Fail at every label).
Code: for every MOVE / COPY / multi-APPEND / EXPUNGE command instance of the menu and
EVERY parking point k of its real execution (lock checkpoints of the checkpoint
subsystem), the run is repeated with a fault injected at k: task cancellation,
client disconnect (EOF), or an exception raised by that storage
call; a second session runs a command at a seeded placement.  After every driver
step the content of all mailboxes is logged; TLC validates against
Trace_Conserve.tla."""

from __future__ import annotations

import random

from ..common import Run
from .. import tlc
from ..syncrun import SyncRun

FAULTS = ('none', 'cancel', 'drop', 'raise')


def menu(rng):
    """the command under fault injection"""
    um = rng.random() < 0.5
    base = 100 if um else 0
    sset = rng.choice([f'{base+1}', f'{base+1}:{base+2}', '1:*', f'{base+2}:{base+3}'])
    k = rng.choice(['move', 'move', 'moveself', 'copy', 'append2', 'append3', 'appendbox',
                    'expunge', 'uidexpunge', 'movemissing', 'copymissing', 'appendmissing',
                    'storero', 'appendcancel', 'appendcancel'])
    if k == 'appendcancel':
        return ('appendcancel', rng.choice(['INBOX', 'Box']), rng.choice([1, 2]))
    if k == 'move':
        return ('move', um, sset, 'Box')
    if k == 'moveself':
        return ('move', um, sset, 'INBOX')
    if k == 'copy':
        return ('copy', um, sset, 'Box')
    if k == 'append2':
        return ('append', 'INBOX', 2, ())
    if k == 'append3':
        return ('append', 'INBOX', 3, ('\\Seen',))
    if k == 'appendbox':
        return ('append', 'Box', 2, ())
    if k == 'expunge':
        return ('expunge',)
    if k == 'uidexpunge':
        return ('uidexpunge', '101:103')
    if k == 'movemissing':
        return ('move', um, sset, 'Nope')        # NO [TRYCREATE]
    if k == 'copymissing':
        return ('copy', um, sset, 'Nope')
    if k == 'appendmissing':
        return ('append', 'Nope', 2, ())
    return ('append', 'RO', 2, ())               # NO [READ-ONLY]


def other_cmd(rng, family='plain'):
    if family == 'movers':
        um = rng.random() < 0.5
        base = 100 if um else 0
        return ('move', um, rng.choice([f'{base+1}', f'{base+1}:{base+2}', '1:*']),
                rng.choice(['Box2', 'Box2', 'Box']))
    if family == 'vanish':
        return rng.choice([('delete', 'Box'), ('rename', 'Box', 'Box3')])
    k = rng.choice(['store', 'fetch', 'noop', 'append', 'none'])
    if k == 'store':
        return ('store', True, rng.choice(['101', '102', '1:*']), '+', False,
                (rng.choice(['\\Seen', '\\Flagged']),))
    if k == 'fetch':
        return ('fetch', False, '1:*', False)
    if k == 'noop':
        return ('noop',)
    if k == 'append':
        return ('append', 'INBOX', 1, ())
    return None


def advance(run, s, micro):
    """advance session s to its next parking point - or, micro, by ONE loop handle (every
    suspension of the command's task is then a place where the fault can land, not only the
    lock acquisitions)"""
    if not micro:
        run.step(s)
        return
    w = run.w
    c = w.conns[s]
    before = c.parked
    if s in w.ck.parked:
        w.ck.release(s)
    elif c.writer.drain_fut is not None:
        c.writer.release_drain()
    w.loop.run_owner(s, max_handles=1)
    run.note(e='step', s=s, frm=before or 'run', to=c.parked or 'rest', micro=True)
    run.collect(s)


def one(seed, cmd, k, fault, bcmd, bplace, family='plain', micro=False):
    """run `cmd` on session a, inject `fault` when a is at its k-th parking point
    (k = 0: before it starts running), b's command is issued when a is at parking
    point bplace and stepped alternately.  Returns (SyncRun, parking points of a)."""
    rng = random.Random(seed)
    init = [rng.choice([(), ('\\Deleted',), ('\\Seen',), ('\\Deleted',)]) for _ in range(rng.randint(2, 4))]
    run = SyncRun(init_flags=init, sessions=['a', 'b'], controlled=True, boxes=('Box', 'Box2', 'RO'))
    run.log_state = True
    appends = []
    try:
        run.w.mailbox_set()._set['RO']._readonly = True
        for s in ('a', 'b'):
            # family 'vanish': a has selected the mailbox that b is going to delete / rename
            box = 'Box' if (family == 'vanish' and s == 'a') else 'INBOX'
            for c in (('select', box), ('fetch', False, '1:*', False)):
                run.issue(s, c)
                run.finish(s)
        run.state_event()
        run.issue('a', cmd)
        # an APPEND the client aborts with a zero-length literal never "completes with OK"
        if (cmd[0] == 'append' and cmd[2] > 1) or cmd[0] == 'appendcancel':
            appends.append({'cids': list(run.inflight['a']['cids']), 'ok': False})
        points = 0
        injected = False
        b_issued = False
        for _ in range(200 if not micro else 2000):
            if points == bplace and bcmd is not None and not b_issued:
                run.issue('b', bcmd)
                b_issued = True
                run.step('b')
            if points == k and not injected and fault != 'none':
                injected = True
                c = run.w.conns['a']
                if fault == 'cancel':
                    run.cancel('a')
                elif fault == 'drop':
                    run.drop('a')       # EOF on the reader; what the server writes still counts
                elif fault == 'raise':
                    if 'a' in run.w.ck.parked:
                        run.note(e='raise', s='a', at=c.parked)
                        run.w.ck.fail('a', OSError('injected storage failure'))
                        run.w.run('a')
                        run.collect('a')
                if run.w.conns['a'].done:
                    run.events.append({'e': 'gone', 's': 'a'})
            if not run.busy('a') or run.w.conns['a'].done:
                break
            if not run.runnable('a'):
                break
            advance(run, 'a', micro)
            points += 1
            if b_issued and run.busy('b') and run.runnable('b'):
                run.step('b')
        for s in ('a', 'b'):
            if not run.w.conns[s].done:
                run.finish(s)
        run.quiesce()
        if run.w.conns['a'].done and run.busy('a'):
            run.events.append({'e': 'gone', 's': 'a'})
        for ev in run.events:
            if ev['e'] == 'tagged' and ev['s'] == 'a' and ev['cmd'][0] == 'append' \
                    and ev['cond'] == 'OK' and appends:
                appends[-1]['ok'] = True
        run.state_event()
        nocopy = cmd[0] in ('move', 'expunge', 'uidexpunge') and (bcmd is None or bcmd[0] in (
            'move', 'store', 'fetch', 'noop'))
        run.events.append({'e': 'end', 'appends': appends, 'nocopy': nocopy})
    finally:
        run.close()
    return run, points


def main(tier: str) -> int:
    run = Run('C14', tier, level='model_checking')
    rng = random.Random(run.seed * 15485863 + 14)
    run.cov['rule'] = (
        'executions = for each seeded command instance (MOVE / MOVE to self / COPY / APPEND x2,x3 / '
        'EXPUNGE / UID EXPUNGE / commands that end NO) one clean run plus one run per parking point '
        'k of its real execution and per fault kind (cancel, disconnect, exception from that '
        'storage call), with a second session\'s command at a seeded placement; the store is logged '
        'after every driver step. non-trivial = a fault was injected strictly inside the command '
        '(after its first and before its last parking point); distinct = distinct (command, k, '
        'fault, second-session command, placement)')
    run.assumptions += ['lock acquisitions are treated as possible suspension points',
                        'dict backend; process kill / os-level faults belong to the maildir part (C15)',
                        'the second session does not expunge or delete mailboxes']
    res = tlc.run_tlc('MailboxSync.tla', 'MailboxSync_ideal_small.cfg', workers=16, timeout=3000)
    run.add_model(res, 'ideal')
    if not res.ok:
        run.machinery(f'MailboxSync Ideal configuration fails: {res.violated or res.error}')
        return run.finish()
    # MOVE and multi-APPEND cut at their lock checkpoints, with faults (MailboxFault.tla): with
    # each command one critical section (Devs = {}) conservation holds in every state; with the
    # two sections per MOVE / one per message that the tree has (the two open known findings,
    # named deviations) TLC must find the limbo / half-applied states - if it did not, the
    # model would not be describing the findings the fault enumeration below exhibits
    r = tlc.run_tlc('MailboxFault.tla', 'MailboxFault_ideal.cfg', workers=16, timeout=1500)
    run.add_model(r, 'MailboxFault_ideal.cfg')
    if not r.ok:
        run.machinery(f'MailboxFault_ideal.cfg fails: {r.violated or r.error}')
        return run.finish()
    r = tlc.run_tlc('MailboxFault.tla', 'MailboxFault_asis.cfg', workers=16, timeout=1500)
    run.add_model(r, 'MailboxFault_asis.cfg')
    open_now = set(run.known.open)
    if {'DictMoveWindow', 'MultiAppendOneByOne'} & open_now and r.ok:
        run.machinery('MailboxFault_asis.cfg passes although the tree\'s split critical sections '
                      '(open findings) are modelled: the model does not show them')
        return run.finish()
    run.notes['fault_model'] = {'ideal': 'holds', 'asis_violates': r.violated}
    traces, meta = [], []
    ncmd = 45 if tier == 'quick' else 500
    for i in range(ncmd):
        seed = rng.randrange(1 << 30)
        cmd = menu(rng)
        family = 'plain'
        if cmd[0] == 'move' and cmd[3] != 'Nope' and rng.random() < 0.6:
            family = 'movers'          # a second session MOVEs (partly) the same messages
        elif cmd[0] == 'append' and cmd[1] == 'INBOX' and rng.random() < 0.5:
            family = 'vanish'          # the mailbox a has selected disappears meanwhile
        bcmd = other_cmd(rng, family)
        if family != 'plain':
            # every placement of the second session's command against the clean run
            for bp in range(0, 6):
                fr, _ = one(seed, cmd, -1, 'none', bcmd, bp, family)
                traces.append(fr.events)
                meta.append({'cmd': cmd, 'k': -1, 'fault': 'none', 'bcmd': bcmd, 'bplace': bp,
                             'points': 0, 'seed': seed, 'family': family})
        clean, points = one(seed, cmd, -1, 'none', bcmd, rng.randint(0, 3), family)
        traces.append(clean.events)
        meta.append({'cmd': cmd, 'k': -1, 'fault': 'none', 'bcmd': bcmd, 'points': points,
                     'seed': seed})
        for k in range(points + 1):
            for fault in ('cancel', 'drop', 'raise'):
                if fault == 'raise' and k == 0:
                    continue
                bplace = rng.randint(0, max(0, points))
                fr, _ = one(seed, cmd, k, fault, bcmd, bplace, family)
                traces.append(fr.events)
                meta.append({'cmd': cmd, 'k': k, 'fault': fault, 'bcmd': bcmd,
                             'bplace': bplace, 'points': points, 'seed': seed})
                for e in fr.errors:
                    run.notes.setdefault('harness_errors', []).append(e)
    # micro family: the fault after EVERY loop handle of the command (a suspension that is not
    # a lock acquisition - a yield, a drain - is a place to be cancelled too)
    nmicro = 0
    for cmd in (('append', 'INBOX', 3, ()), ('append', 'Box', 2, ('\\Seen',)),
                ('move', False, '1:*', 'Box'), ('move', True, '101:102', 'Box2'),
                ('copy', False, '1:*', 'Box'), ('expunge',)):
        seed = rng.randrange(1 << 30)
        clean, handles = one(seed, cmd, -1, 'none', None, 0, 'plain', micro=True)
        traces.append(clean.events)
        meta.append({'cmd': cmd, 'k': -1, 'fault': 'none', 'bcmd': None, 'points': handles,
                     'seed': seed, 'family': 'micro'})
        ks = list(range(1, handles + 1))
        if tier == 'quick' and len(ks) > 40:
            ks = sorted(rng.sample(ks, 40))
        for k in ks:
            for fault in ('cancel', 'drop'):
                fr, _ = one(seed, cmd, k, fault, None, 0, 'plain', micro=True)
                traces.append(fr.events)
                meta.append({'cmd': cmd, 'k': k, 'fault': fault, 'bcmd': None, 'bplace': 0,
                             'points': handles, 'seed': seed, 'family': 'micro'})
                nmicro += 1
    run.notes['micro_fault_runs'] = nmicro
    verdicts, vres = tlc.validate_total('Trace_Conserve.tla', 'Trace_Conserve.cfg', traces,
                                        known=sorted(run.known.open))
    if len(verdicts) != len(traces):
        run.machinery('trace validation incomplete: ' + (vres.error or vres.output[-800:]))
        return run.finish()
    for i, ev in enumerate(traces, 1):
        line, clause, used = verdicts[i]
        m = meta[i - 1]
        for name in used:
            run.known.excuses(name)      # tolerated inside the observer; everything else was checked
        run.count_exec((m['cmd'], m['k'], m['fault'], m['bcmd'], m.get('bplace')),
                       nontrivial=m['fault'] != 'none' and 0 < m['k'] < max(1, m['points']),
                       validated=not clause)
        if clause:
            sig = classify(clause, m, ev, line)
            run.violation(f'{clause} at event {line} ({m["cmd"]} fault={m["fault"]} at point {m["k"]}): '
                          f'{str(ev[line - 1])[:300]}',
                          {'check': 'C14', 'meta': m, 'clause': clause,
                           'events': ev[max(0, line - 14):line]}, sig)
    run.sample(meta[0])
    run.sample(meta[min(len(meta) - 1, 5)])
    return run.finish()


def classify(clause, m, events, line):
    """narrow signatures for the known findings"""
    cmd = m['cmd']
    if clause == 'C14_NeverVanish' and cmd[0] == 'move':
        # the state in which the message is in neither mailbox is the one logged right after
        # session a was released from the SOURCE lock and parked at the DESTINATION lock
        prev = [e for e in events[:line] if e['e'] == 'step' and e['s'] == 'a']
        if prev and prev[-1]['frm'].startswith('w:') and prev[-1]['to'].startswith('w:'):
            return 'DictMoveWindow'
    if clause == 'C14_AppendAllOrNothing' and cmd[0] == 'append' and cmd[2] > 1 \
            and m['fault'] in ('cancel', 'raise') and 0 < m['k']:
        # the finding: the fault lands while the command waits for the mailbox lock between two
        # of its messages (a suspension anywhere else between them would be something new)
        fault_at = next((i for i, e in enumerate(events) if e['e'] in ('cancel', 'drop', 'raise')
                         and e.get('s') == 'a'), None)
        prev = [e for e in events[:fault_at] if e['e'] == 'step' and e['s'] == 'a'] \
            if fault_at is not None else []
        if prev and str(prev[-1]['to']).startswith(('w:', 'r:')):
            return 'MultiAppendOneByOne'
    return None
