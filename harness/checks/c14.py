"""C14 - no message lost or half-applied when a command fails midway.

Dict backend (faults at lock checkpoints and loop handles):

Design: MailboxSync.tla ... (the split MOVE/COPY/APPEND actions live in
MailboxFault.tla, checked by TLC with Cancel/Fail at every label).
Code: for every MOVE / COPY / multi-APPEND / EXPUNGE command instance of the menu and
EVERY parking point k of its real execution (lock checkpoints of the checkpoint
subsystem), the run is repeated with a fault injected at k: task cancellation,
client disconnect (EOF), or an exception raised by that storage
call; a second session runs a command at a seeded placement.  After every driver
step the content of all mailboxes is logged; TLC validates against
Trace_Conserve.tla.

Maildir backend (fault = process kill at every filesystem-operation boundary):
Design: MaildirStore.tla (filesystem-operation granularity, Crash in every state) with the
invariants MoveFileSomewhere / MoveNeverInLimbo / MoveExactlyOne, plus a model mutant
(MOVE that removes the source file first) that TLC must reject.
Code: for every history (two folders, seeded messages, optionally a second session's
complete command, then ONE command under test: MOVE / UID MOVE, COPY, multi-APPEND,
EXPUNGE / UID EXPUNGE / CLOSE, refused commands) on both layouts, the command's
filesystem-operation trace is recorded in a forked child, then one child per operation k is
killed (os._exit) immediately before it, stale lock files are aged and a NEW backend on the
same directory dumps every mailbox through IMAP (maildir_crash.run_job14).  pre-command
dump + acknowledgement + kill point + post-restart dump = one trace; TLC validates all of
them against Trace_ConserveKill.tla (clauses C14_NeverInLimbo, C14_MoveExactlyOne,
C14_AllOrNothing, C14_RefusedInert)."""

from __future__ import annotations

import concurrent.futures as cf
import json
import multiprocessing
import os
import random
import shutil
import tempfile
import threading
import time

from ..common import Run, Known
from .. import tlc
from ..syncrun import SyncRun
from . import maildir_crash as mc

FAULTS = ('none', 'cancel', 'drop', 'raise')


def menu(rng):
    """the command under fault injection"""
    um = rng.random() < 0.5
    base = 100 if um else 0
    sset = rng.choice([f'{base+1}', f'{base+1}:{base+2}', '1:*', f'{base+2}:{base+3}'])
    k = rng.choice(['move', 'move', 'moveself', 'copy', 'append2', 'append3', 'appendbox',
                    'expunge', 'uidexpunge', 'movemissing', 'copymissing', 'appendmissing',
                    'storero', 'appendcancel', 'appendcancel'])
    if k == 'appendcancel':
        return ('appendcancel', rng.choice(['INBOX', 'Box']), rng.choice([1, 2]))
    if k == 'move':
        return ('move', um, sset, 'Box')
    if k == 'moveself':
        return ('move', um, sset, 'INBOX')
    if k == 'copy':
        return ('copy', um, sset, 'Box')
    if k == 'append2':
        return ('append', 'INBOX', 2, ())
    if k == 'append3':
        return ('append', 'INBOX', 3, ('\\Seen',))
    if k == 'appendbox':
        return ('append', 'Box', 2, ())
    if k == 'expunge':
        return ('expunge',)
    if k == 'uidexpunge':
        return ('uidexpunge', '101:103')
    if k == 'movemissing':
        return ('move', um, sset, 'Nope')        # NO [TRYCREATE]
    if k == 'copymissing':
        return ('copy', um, sset, 'Nope')
    if k == 'appendmissing':
        return ('append', 'Nope', 2, ())
    return ('append', 'RO', 2, ())               # NO [READ-ONLY]


def other_cmd(rng, family='plain'):
    if family == 'movers':
        um = rng.random() < 0.5
        base = 100 if um else 0
        return ('move', um, rng.choice([f'{base+1}', f'{base+1}:{base+2}', '1:*']),
                rng.choice(['Box2', 'Box2', 'Box']))
    if family == 'vanish':
        return rng.choice([('delete', 'Box'), ('rename', 'Box', 'Box3')])
    k = rng.choice(['store', 'fetch', 'noop', 'append', 'none'])
    if k == 'store':
        return ('store', True, rng.choice(['101', '102', '1:*']), '+', False,
                (rng.choice(['\\Seen', '\\Flagged']),))
    if k == 'fetch':
        return ('fetch', False, '1:*', False)
    if k == 'noop':
        return ('noop',)
    if k == 'append':
        return ('append', 'INBOX', 1, ())
    return None


def advance(run, s, micro):
    """advance session s to its next parking point - or, micro, by ONE loop handle (every
    suspension of the command's task is then a place where the fault can land, not only the
    lock acquisitions)"""
    if not micro:
        run.step(s)
        return
    w = run.w
    c = w.conns[s]
    before = c.parked
    if s in w.ck.parked:
        w.ck.release(s)
    elif c.writer.drain_fut is not None:
        c.writer.release_drain()
    w.loop.run_owner(s, max_handles=1)
    run.note(e='step', s=s, frm=before or 'run', to=c.parked or 'rest', micro=True)
    run.collect(s)


def one(seed, cmd, k, fault, bcmd, bplace, family='plain', micro=False):
    """run `cmd` on session a, inject `fault` when a is at its k-th parking point
    (k = 0: before it starts running), b's command is issued when a is at parking
    point bplace and stepped alternately.  Returns (SyncRun, parking points of a)."""
    rng = random.Random(seed)
    init = [rng.choice([(), ('\\Deleted',), ('\\Seen',), ('\\Deleted',)]) for _ in range(rng.randint(2, 4))]
    run = SyncRun(init_flags=init, sessions=['a', 'b'], controlled=True, boxes=('Box', 'Box2', 'RO'))
    run.log_state = True
    appends = []
    try:
        run.w.mailbox_set()._set['RO']._readonly = True
        for s in ('a', 'b'):
            # family 'vanish': a has selected the mailbox that b is going to delete / rename
            box = 'Box' if (family == 'vanish' and s == 'a') else 'INBOX'
            for c in (('select', box), ('fetch', False, '1:*', False)):
                run.issue(s, c)
                run.finish(s)
        run.state_event()
        run.issue('a', cmd)
        # an APPEND the client aborts with a zero-length literal never "completes with OK"
        if (cmd[0] == 'append' and cmd[2] > 1) or cmd[0] == 'appendcancel':
            appends.append({'cids': list(run.inflight['a']['cids']), 'ok': False})
        points = 0
        injected = False
        b_issued = False
        for _ in range(200 if not micro else 2000):
            if points == bplace and bcmd is not None and not b_issued:
                run.issue('b', bcmd)
                b_issued = True
                run.step('b')
            if points == k and not injected and fault != 'none':
                injected = True
                c = run.w.conns['a']
                if fault == 'cancel':
                    run.cancel('a')
                elif fault == 'drop':
                    run.drop('a')       # EOF on the reader; what the server writes still counts
                elif fault == 'raise':
                    if 'a' in run.w.ck.parked:
                        run.note(e='raise', s='a', at=c.parked)
                        run.w.ck.fail('a', OSError('injected storage failure'))
                        run.w.run('a')
                        run.collect('a')
                if run.w.conns['a'].done:
                    run.events.append({'e': 'gone', 's': 'a'})
            if not run.busy('a') or run.w.conns['a'].done:
                break
            if not run.runnable('a'):
                break
            advance(run, 'a', micro)
            points += 1
            if b_issued and run.busy('b') and run.runnable('b'):
                run.step('b')
        for s in ('a', 'b'):
            if not run.w.conns[s].done:
                run.finish(s)
        run.quiesce()
        if run.w.conns['a'].done and run.busy('a'):
            run.events.append({'e': 'gone', 's': 'a'})
        for ev in run.events:
            if ev['e'] == 'tagged' and ev['s'] == 'a' and ev['cmd'][0] == 'append' \
                    and ev['cond'] == 'OK' and appends:
                appends[-1]['ok'] = True
        run.state_event()
        nocopy = cmd[0] in ('move', 'expunge', 'uidexpunge') and (bcmd is None or bcmd[0] in (
            'move', 'store', 'fetch', 'noop'))
        run.events.append({'e': 'end', 'appends': appends, 'nocopy': nocopy})
    finally:
        run.close()
    return run, points


def main(tier: str) -> int:
    run = Run('C14', tier, level='model_checking')
    # the maildir half forks: start it before TLC threads exist, collect it at the end
    md = MaildirPart(run, tier)
    md.start()
    try:
        _dict_part(run, tier)
        if not run.machinery_errors:
            md.collect()
        return run.finish()
    finally:
        md.close()


def _dict_part(run: Run, tier: str) -> None:
    rng = random.Random(run.seed * 15485863 + 14)
    run.cov['rule'] = (
        'executions = for each seeded command instance (MOVE / MOVE to self / COPY / APPEND x2,x3 / '
        'EXPUNGE / UID EXPUNGE / commands that end NO) one clean run plus one run per parking point '
        'k of its real execution and per fault kind (cancel, disconnect, exception from that '
        'storage call), with a second session\'s command at a seeded placement; the store is logged '
        'after every driver step. non-trivial = a fault was injected strictly inside the command '
        '(after its first and before its last parking point); distinct = distinct (command, k, '
        'fault, second-session command, placement)')
    run.cov['rule'] += (
        '.  Maildir half: executions = crash runs: one (history, layout, crash point k) = the '
        'real maildir backend killed (os._exit) immediately before the k-th filesystem operation '
        'of the command under test (k = -1: not killed), restarted on the same directory and '
        'dumped; every k = 0..L-1 of every history is run; non-trivial = the kill fell after the '
        'command\'s first operation')
    run.assumptions += ['dict part: lock acquisitions are treated as possible suspension points',
                        'dict part: the second session does not expunge or delete mailboxes',
                        'maildir part: a fault is a process kill between two filesystem calls '
                        '(os._exit): what was written before the kill is on disk (no power-loss '
                        'reordering); os-level call FAILURES (EIO, ENOSPC) are not injected',
                        'maildir part: stale *.lock files left by the kill are aged past '
                        'FileLock\'s 600 s expiry before the restart (as in C15)',
                        'maildir part: the second session\'s command is complete before the '
                        'command under test starts (overlap is the dict part and C02); MOVE onto '
                        'the selected mailbox and MOVE back (open C10 findings) are not in the '
                        'histories',
                        'maildir part: message content is compared modulo CRLF/LF (C03 finding)']
    res = tlc.run_tlc('MailboxSync.tla', 'MailboxSync_ideal_small.cfg', workers=16, timeout=3000)
    run.add_model(res, 'ideal')
    if not res.ok:
        run.machinery(f'MailboxSync Ideal configuration fails: {res.violated or res.error}')
        return
    # MOVE and multi-APPEND cut at their lock checkpoints, with faults (MailboxFault.tla): with
    # each command one critical section (Devs = {}) conservation holds in every state; with the
    # two sections per MOVE / one per message that the tree has (the two open known findings,
    # named deviations) TLC must find the limbo / half-applied states - if it did not, the
    # model would not be describing the findings the fault enumeration below exhibits
    r = tlc.run_tlc('MailboxFault.tla', 'MailboxFault_ideal.cfg', workers=16, timeout=1500)
    run.add_model(r, 'MailboxFault_ideal.cfg')
    if not r.ok:
        run.machinery(f'MailboxFault_ideal.cfg fails: {r.violated or r.error}')
        return
    r = tlc.run_tlc('MailboxFault.tla', 'MailboxFault_asis.cfg', workers=16, timeout=1500)
    run.add_model(r, 'MailboxFault_asis.cfg')
    open_now = set(run.known.open)
    if {'DictMoveWindow', 'MultiAppendOneByOne'} & open_now and r.ok:
        run.machinery('MailboxFault_asis.cfg passes although the tree\'s split critical sections '
                      '(open findings) are modelled: the model does not show them')
        return
    run.notes['fault_model'] = {'ideal': 'holds', 'asis_violates': r.violated}
    traces, meta = [], []
    ncmd = 45 if tier == 'quick' else 500
    for i in range(ncmd):
        seed = rng.randrange(1 << 30)
        cmd = menu(rng)
        family = 'plain'
        if cmd[0] == 'move' and cmd[3] != 'Nope' and rng.random() < 0.6:
            family = 'movers'          # a second session MOVEs (partly) the same messages
        elif cmd[0] == 'append' and cmd[1] == 'INBOX' and rng.random() < 0.5:
            family = 'vanish'          # the mailbox a has selected disappears meanwhile
        bcmd = other_cmd(rng, family)
        if family != 'plain':
            # every placement of the second session's command against the clean run
            for bp in range(0, 6):
                fr, _ = one(seed, cmd, -1, 'none', bcmd, bp, family)
                traces.append(fr.events)
                meta.append({'cmd': cmd, 'k': -1, 'fault': 'none', 'bcmd': bcmd, 'bplace': bp,
                             'points': 0, 'seed': seed, 'family': family})
        clean, points = one(seed, cmd, -1, 'none', bcmd, rng.randint(0, 3), family)
        traces.append(clean.events)
        meta.append({'cmd': cmd, 'k': -1, 'fault': 'none', 'bcmd': bcmd, 'points': points,
                     'seed': seed})
        for k in range(points + 1):
            for fault in ('cancel', 'drop', 'raise'):
                if fault == 'raise' and k == 0:
                    continue
                bplace = rng.randint(0, max(0, points))
                fr, _ = one(seed, cmd, k, fault, bcmd, bplace, family)
                traces.append(fr.events)
                meta.append({'cmd': cmd, 'k': k, 'fault': fault, 'bcmd': bcmd,
                             'bplace': bplace, 'points': points, 'seed': seed})
                for e in fr.errors:
                    run.notes.setdefault('harness_errors', []).append(e)
    # micro family: the fault after EVERY loop handle of the command (a suspension that is not
    # a lock acquisition - a yield, a drain - is a place to be cancelled too)
    nmicro = 0
    for cmd in (('append', 'INBOX', 3, ()), ('append', 'Box', 2, ('\\Seen',)),
                ('move', False, '1:*', 'Box'), ('move', True, '101:102', 'Box2'),
                ('copy', False, '1:*', 'Box'), ('expunge',)):
        seed = rng.randrange(1 << 30)
        clean, handles = one(seed, cmd, -1, 'none', None, 0, 'plain', micro=True)
        traces.append(clean.events)
        meta.append({'cmd': cmd, 'k': -1, 'fault': 'none', 'bcmd': None, 'points': handles,
                     'seed': seed, 'family': 'micro'})
        ks = list(range(1, handles + 1))
        if tier == 'quick' and len(ks) > 40:
            ks = sorted(rng.sample(ks, 40))
        for k in ks:
            for fault in ('cancel', 'drop'):
                fr, _ = one(seed, cmd, k, fault, None, 0, 'plain', micro=True)
                traces.append(fr.events)
                meta.append({'cmd': cmd, 'k': k, 'fault': fault, 'bcmd': None, 'bplace': 0,
                             'points': handles, 'seed': seed, 'family': 'micro'})
                nmicro += 1
    run.notes['micro_fault_runs'] = nmicro
    verdicts, vres = tlc.validate_total('Trace_Conserve.tla', 'Trace_Conserve.cfg', traces,
                                        known=sorted(run.known.open))
    if len(verdicts) != len(traces):
        run.machinery('trace validation incomplete: ' + (vres.error or vres.output[-800:]))
        return
    for i, ev in enumerate(traces, 1):
        line, clause, used = verdicts[i]
        m = meta[i - 1]
        for name in used:
            run.known.excuses(name)      # tolerated inside the observer; everything else was checked
        run.count_exec((m['cmd'], m['k'], m['fault'], m['bcmd'], m.get('bplace')),
                       nontrivial=m['fault'] != 'none' and 0 < m['k'] < max(1, m['points']),
                       validated=not clause)
        if clause:
            sig = classify(clause, m, ev, line)
            run.violation(f'{clause} at event {line} ({m["cmd"]} fault={m["fault"]} at point {m["k"]}): '
                          f'{str(ev[line - 1])[:300]}',
                          {'check': 'C14', 'meta': m, 'clause': clause,
                           'events': ev[max(0, line - 14):line]}, sig)
    run.sample(meta[0])
    run.sample(meta[min(len(meta) - 1, 5)])
    return


def classify(clause, m, events, line):
    """narrow signatures for the known findings"""
    cmd = m['cmd']
    if clause == 'C14_NeverVanish' and cmd[0] == 'move':
        # the state in which the message is in neither mailbox is the one logged right after
        # session a was released from the SOURCE lock and parked at the DESTINATION lock
        prev = [e for e in events[:line] if e['e'] == 'step' and e['s'] == 'a']
        if prev and prev[-1]['frm'].startswith('w:') and prev[-1]['to'].startswith('w:'):
            return 'DictMoveWindow'
    if clause == 'C14_AppendAllOrNothing' and cmd[0] == 'append' and cmd[2] > 1 \
            and m['fault'] in ('cancel', 'raise') and 0 < m['k']:
        # the finding: the fault lands while the command waits for the mailbox lock between two
        # of its messages (a suspension anywhere else between them would be something new)
        fault_at = next((i for i, e in enumerate(events) if e['e'] in ('cancel', 'drop', 'raise')
                         and e.get('s') == 'a'), None)
        prev = [e for e in events[:fault_at] if e['e'] == 'step' and e['s'] == 'a'] \
            if fault_at is not None else []
        if prev and str(prev[-1]['to']).startswith(('w:', 'r:')):
            return 'MultiAppendOneByOne'
    return None


# =======================================================================================
# maildir half: process kill at every filesystem-operation boundary of the command under test

MD_CLAUSES = ('C14_NeverInLimbo', 'C14_MoveExactlyOne', 'C14_AllOrNothing', 'C14_RefusedInert')
MD_FLAGS = ([], ['\\Seen'], ['\\Flagged'], ['\\Deleted'], ['\\Answered', '\\Seen'])
MD_FAMILIES = ('move1', 'moveN', 'moverev', 'moveother', 'copy1', 'copyN', 'copyself',
               'copyother', 'append2', 'append3', 'appendother', 'expunge', 'uidexpunge',
               'close', 'expungeother', 'expungebox',
               'movemissing', 'copymissing', 'appendmissing', 'copynothing', 'movebad',
               'movero', 'expungero')
# model mutant: cfg -> invariant TLC must report
MD_MODEL_MUTANT = ('MaildirStore_c14_mut_removefirst.cfg', 'MoveNeverInLimbo')


def md_history(family: str, rng) -> dict:
    """one history of the family, seeded.  Content ids: seed messages 1..n in the order they
    are appended, the second session's delivery 8, the literals of the APPEND under test 11.."""
    sel = 'Box' if family in ('moverev', 'expungebox') else 'INBOX'
    oth = 'INBOX' if sel == 'Box' else 'Box'
    nsel = rng.randint(2, 3)
    noth = rng.randint(0, 1)
    flags = [list(rng.choice(MD_FLAGS)) for _ in range(nsel + noth)]
    seed = [[sel, flags[i]] for i in range(nsel)] + [[oth, flags[nsel + i]] for i in range(noth)]
    mine = list(range(1, nsel + 1))            # cids in the selected folder, in UID order
    um = rng.random() < 0.5
    h = {'family': family, 'seed': seed, 'select': sel, 'other': None}

    def some(k=None):
        """(form, cids): k messages addressed as a list, a contiguous range or 1:*"""
        form = rng.choice(['list', 'range', 'star']) if k is None else 'list'
        if form == 'star':
            return form, list(mine)
        n = k or rng.randint(2, nsel)
        if form == 'range':
            a = rng.randint(0, nsel - n)
            return form, mine[a:a + n]
        return form, sorted(rng.sample(mine, n))

    def other(cids):
        if rng.random() < 0.5:
            return ['Store', rng.choice(cids), rng.choice(['\\Deleted', '\\Flagged', '\\Seen'])]
        return ['Append', rng.choice([sel, oth]), list(rng.choice(MD_FLAGS))]

    def deleted_mix():
        # at least one \Deleted and one kept message in the selected folder
        dels = sorted(rng.sample(mine, rng.randint(1, nsel - 1)))
        for c in mine:
            fl = [x for x in seed[c - 1][1] if x != '\\Deleted']
            seed[c - 1][1] = fl + (['\\Deleted'] if c in dels else [])
        return dels
    if family == 'move1':
        h['cut'] = ['Move', um, 'list', [rng.choice(mine)], oth]
    elif family in ('moveN', 'moverev'):
        form, cids = some() if family == 'moveN' else some(rng.choice([None, 1]))
        h['cut'] = ['Move', um, form, cids, oth]
    elif family == 'moveother':
        form, cids = some()
        h['other'] = other(mine)
        h['cut'] = ['Move', um, form, cids, oth]
    elif family == 'copy1':
        h['cut'] = ['Copy', um, 'list', [rng.choice(mine)], oth]
    elif family == 'copyN':
        form, cids = some()
        h['cut'] = ['Copy', um, form, cids, oth]
    elif family == 'copyself':
        form, cids = some(rng.choice([None, 1]))
        h['cut'] = ['Copy', um, form, cids, sel]
    elif family == 'copyother':
        form, cids = some()
        h['other'] = other(mine)
        h['cut'] = ['Copy', um, form, cids, oth]
    elif family == 'append2':
        h['cut'] = ['Append', oth, 2, list(rng.choice(MD_FLAGS))]
    elif family == 'append3':
        h['cut'] = ['Append', sel, 3, list(rng.choice(MD_FLAGS))]
    elif family == 'appendother':
        h['other'] = other(mine)
        h['cut'] = ['Append', rng.choice([sel, oth]), rng.randint(2, 3), []]
    elif family in ('expunge', 'expungebox', 'close'):
        deleted_mix()
        h['cut'] = ['Expunge'] if family != 'close' else ['Close']
    elif family == 'uidexpunge':
        dels = deleted_mix()
        form = rng.choice(['list', 'range', 'star'])
        cids = list(mine) if form == 'star' else sorted(set([rng.choice(dels), rng.choice(mine)]))
        h['cut'] = ['UidExpunge', form, cids]
    elif family == 'expungeother':
        dels = deleted_mix()
        kept = [c for c in mine if c not in dels]
        h['other'] = ['Store', rng.choice(kept), '\\Deleted'] if rng.random() < 0.6 \
            else ['Append', sel, ['\\Deleted']]
        h['cut'] = rng.choice([['Expunge'], ['Close'], ['UidExpunge', 'star', list(mine)]])
    elif family == 'movemissing':
        form, cids = some(rng.choice([None, 1]))
        h['cut'] = ['Move', um, form, cids, 'Nope']          # NO [TRYCREATE]
    elif family == 'copymissing':
        form, cids = some(rng.choice([None, 1]))
        h['cut'] = ['Copy', um, form, cids, 'Nope']
    elif family == 'appendmissing':
        h['cut'] = ['Append', 'Nope', 2, []]
    elif family == 'copynothing':
        h['cut'] = [rng.choice(['Copy', 'Move']), um, 'none', [], oth]   # OK, nothing addressed
    elif family == 'movebad':
        h['cut'] = ['Raw', rng.choice(['MOVE 0 Box', 'UID MOVE 1:2', 'UID EXPUNGE',
                                       'MOVE 1,,2 Box', 'COPY 1:2'])]       # BAD
    elif family in ('movero', 'expungero'):
        h['readonly'] = True
        deleted_mix()
        h['cut'] = ['Move', um, 'list', [rng.choice(mine)], oth] if family == 'movero' \
            else ['Expunge']                                      # NO [READ-ONLY]
    else:
        raise ValueError(family)
    return h


def _md_warm(_i):
    mc.warm()
    time.sleep(0.05)
    return os.getpid()


class MaildirPart:
    """started before anything makes this process multi-threaded (every crash run is a fork
    of a pool worker); collected after the dict part"""

    def __init__(self, run: Run, tier: str):
        self.run = run
        self.tier = tier
        self.t0 = time.time()
        self.rng = random.Random(run.seed * 2654435761 + 1414)
        self.pool = None
        self.store_root = None
        self.futs: dict = {}
        self.jobs: list = []
        self.models: dict = {}
        self.model_thread = None
        self.failed = None
        self.model_programs: dict = {}
        self.model_exc = None
        self.last_done = self.t0
        sfx = '' if tier == 'quick' else '_4ops'
        self.model_cfgs = (f'MaildirStore_c14{sfx}.cfg', f'MaildirStore_c14_ideal{sfx}.cfg')

    def start(self) -> None:
        run, tier, rng = self.run, self.tier, self.rng
        try:
            ctx = multiprocessing.get_context('fork')
            self.pool = cf.ProcessPoolExecutor(max_workers=12, mp_context=ctx)
            self.store_root = tempfile.mkdtemp(
                prefix='verif.c14.', dir='/dev/shm' if os.path.isdir('/dev/shm') else None)
            tmp = os.path.join(self.store_root, 'tmp')
            os.makedirs(tmp)
            workers = set(self.pool.map(_md_warm, range(36)))
            templates = {}
            for layout in ('++', 'fs'):
                tpl = os.path.join(self.store_root, f'tpl.{layout}')
                mc.make_template(mc.Cfg(layout, 'same', self.store_root, tmp), tpl, tmp, False)
                templates[layout] = tpl
            rounds = 2 if tier == 'quick' else 12
            nonce = 'n%d' % run.seed
            hid = 0
            for rnd in range(rounds):
                for fam in MD_FAMILIES:
                    h = md_history(fam, rng)
                    for layout in ('++', 'fs'):
                        self.jobs.append({'cfg': (layout, self.store_root, tmp), 'hist': h,
                                          'hid': hid, 'nonce': nonce, 'template': templates[layout],
                                          'points': None, 'pseed': run.seed,
                                          # failing system calls (operation k raises ENOSPC /
                                          # EXDEV / EIO instead of being performed)
                                          'fail': ('std' if layout == '++' and rnd == 0 else None)
                                          if tier == 'quick' else 'all'})
                    hid += 1
            # MOVE is acknowledged after its last filesystem operation, so only the runs that
            # are NOT killed exercise "after a completed MOVE in exactly one": more of those
            # (no crash points: the command runs to its OK, then the server is restarted)
            for rnd in range(4 if tier == 'quick' else 40):
                for fam in ('move1', 'moveN', 'moverev', 'moveother'):
                    h = md_history(fam, rng)
                    layout = ('++', 'fs')[(rnd + hid) % 2]
                    self.jobs.append({'cfg': (layout, self.store_root, tmp), 'hist': h,
                                      'hid': hid, 'nonce': nonce, 'template': templates[layout],
                                      'points': 0, 'pseed': run.seed})
                    hid += 1
            self.nhist = hid
            self.nworkers = len(workers)
            # longest first (APPEND x3 and COPY of several messages have the most operations)
            def weight(j):
                c = j['hist']['cut']
                if j['points'] == 0:
                    return 0
                return -(len(c[3]) if c[0] in ('Move', 'Copy') else c[2] if c[0] == 'Append' else 0)
            for i in sorted(range(len(self.jobs)), key=lambda i: weight(self.jobs[i])):
                fu = self.pool.submit(mc.run_job14, self.jobs[i])
                fu.add_done_callback(self._done)
                self.futs[fu] = i
        except Exception:
            import traceback
            self.failed = 'maildir part: pool / templates: ' + traceback.format_exc()[-1200:]
            return

        # the design side, meanwhile: MOVE at filesystem-operation granularity with Crash in
        # every state (as the tree is; ideal), and the model mutant the invariants must reject
        def check_models():
            try:
                for c in self.model_cfgs + (MD_MODEL_MUTANT[0],):
                    self.models[c] = tlc.run_tlc('MaildirStore.tla', c, workers=4, timeout=900)
                # multi-message APPEND as the tree delivers it (one message after the other)
                for c in ('MaildirMulti_torn.cfg', 'MaildirMulti_asis.cfg'):
                    self.models[c] = tlc.run_tlc('MaildirMulti.tla', c, workers=2, timeout=600)
                # failing lock removal + lock time-out: the process lives on (MaildirFail.tla)
                for c in ('MaildirFail_conserve.cfg', 'MaildirFail_asis.cfg'):
                    self.models[c] = tlc.run_tlc('MaildirFail.tla', c, workers=4, timeout=900)
                # the model's programs (sequence of filesystem calls per command), out of seeded
                # crash-free simulation, to be compared with the measured operation traces
                from .c15 import behaviour_to_history
                behs, sres = tlc.simulate('MaildirStore.tla', 'MaildirStore_sim_box.cfg',
                                          num=100 if tier == 'quick' else 400, depth=220,
                                          seed=run.seed * 7919 + 14)
                for b in behs:
                    h = behaviour_to_history(b)
                    for step, kinds, _uid in (h['model'] if h else []):
                        self.model_programs.setdefault(step[0], set()).add(tuple(kinds))
                self.models['simulate'] = sres
            except Exception:
                import traceback
                self.model_exc = traceback.format_exc()[-1200:]
        self.model_thread = threading.Thread(target=check_models)
        self.model_thread.start()

    def _done(self, _fu) -> None:
        self.last_done = time.time()

    def close(self) -> None:
        if self.pool is not None:
            self.pool.shutdown(wait=False, cancel_futures=True)
        if self.store_root:
            shutil.rmtree(self.store_root, ignore_errors=True)

    def collect(self) -> None:
        """results -> traces -> TLC -> counts / violations (into self.run)"""
        run = self.run
        if self.failed:
            run.machinery(self.failed)
            return
        res_by = {}
        try:
            for fu in cf.as_completed(self.futs, timeout=1500):
                res_by[self.futs[fu]] = fu.result()
        except Exception:
            import traceback
            run.machinery('maildir part: crash enumeration failed: ' + traceback.format_exc()[-1200:])
            return
        enum_wall = round(self.last_done - self.t0, 1)
        results = [res_by[i] for i in range(len(self.jobs))]
        for r in results:
            for m in r['machinery']:
                run.machinery('maildir part: ' + m)
        if run.machinery_errors:
            return
        traces, meta = [], []
        for job, r in zip(self.jobs, results):
            for tr in r['traces']:
                traces.append(tr['events'])
                meta.append({'hid': job['hid'], 'hist': job['hist'], 'layout': r['cfg'],
                             'k': tr['k'], 'L': r['L'], 'line': r.get('line', ''),
                             'failed': tr['failed'], 'fault': tr.get('fault', 'kill')})
        selftests = _md_selftests(traces, meta)
        n_real = len(traces)
        t0 = time.time()
        verdicts, vres = tlc.validate_total('Trace_ConserveKill.tla', 'Trace_ConserveKill.cfg',
                                            traces + [t for t, _w in selftests],
                                            known=sorted(run.known.open))
        val_wall = round(time.time() - t0, 1)
        if len(verdicts) != n_real + len(selftests):
            run.machinery('maildir part: trace validation incomplete: '
                          + (vres.error or vres.output[-800:]))
            return
        st_ok = 0
        for j, (_t, want) in enumerate(selftests):
            got = verdicts[n_real + j + 1][1]
            if got == want:
                st_ok += 1
            else:
                run.machinery(f'maildir part: self-test: corrupted trace expected {want}, '
                              f'observer said {got!r}')
        per_clause = {c: {'applicable': 0, 'failed': 0} for c in MD_CLAUSES}
        per_family: dict = {}
        per_layout: dict = {}
        acked_kills = 0
        windows = {'partial': 0, 'complete_unacked': 0}
        points = 0
        fails: dict = {}
        fail_conds: dict = {}
        for i in range(n_real):
            line, clause, used = verdicts[i + 1]
            m, ev = meta[i], traces[i]
            cmd, ack, kill = ev[1], ev[2], ev[3]
            for name in used:
                run.known.excuses(name)      # tolerated inside the observer on its signature
                if name == 'MultiAppendOneByOne':
                    windows['partial' if kill['delivered'] < cmd['n'] else 'complete_unacked'] += 1
            fam = m['hist']['family']
            pf = per_family.setdefault(fam, {'histories': set(), 'runs': 0, 'crash_points': 0,
                                             'ops': set(), 'cond': set()})
            pf['histories'].add(m['hid'])
            pf['runs'] += 1
            pl = per_layout.setdefault(m['layout'], {'runs': 0, 'crash_points': 0, 'accepted': 0})
            pl['runs'] += 1
            if m['fault'] != 'kill':
                fails[m['fault']] = fails.get(m['fault'], 0) + 1
                key = ack['cond'] + (' [%s]' % ack['code'] if ack['code'] else '')
                fail_conds[key] = fail_conds.get(key, 0) + 1
            elif m['k'] >= 0:
                points += 1
                pf['crash_points'] += 1
                pl['crash_points'] += 1
                if ack['cond'] != 'NONE':
                    acked_kills += 1
            else:
                pf['ops'].add(m['L'])
                pf['cond'].add(ack['cond'] + (' [%s]' % ack['code'] if ack['code'] else ''))
            if not clause:
                pl['accepted'] += 1
            per_clause['C14_NeverInLimbo']['applicable'] += 1
            if cmd['op'] == 'move' and ack['cond'] == 'OK':
                per_clause['C14_MoveExactlyOne']['applicable'] += 1
            if cmd['op'] == 'append' and cmd['n'] > 1:
                per_clause['C14_AllOrNothing']['applicable'] += 1
            if ack['cond'] in ('NO', 'BAD'):
                per_clause['C14_RefusedInert']['applicable'] += 1
            run.count_exec(('maildir', m['hist'], m['layout'], m['k']),
                           nontrivial=m['k'] > 0, validated=not clause)
            if clause:
                per_clause.setdefault(clause, {'applicable': 0, 'failed': 0})['failed'] += 1
                h = m['hist']
                how = 'a process kill between' if m['fault'] == 'kill' else \
                    f'a failing system call ({kill["errno"]} from {kill["before"]}) after'
                what = (f'maildir ({m["layout"]}): {clause} after {how} '
                        f'{kill["after"]} and {kill["before"]} (operation {m["k"]} of {m["L"]}) of '
                        f'{m["line"]!r} [{h["family"]}; seed {json.dumps(h["seed"])}; selected '
                        f'{h["select"]}; other session: {h["other"]}]; acknowledged: {ack["cond"]} '
                        f'{ack["pairs"] or ""}; before: {_md_show(ev[0])}; after restart: '
                        f'{_md_show(ev[4])}') if m['k'] >= 0 else (
                        f'maildir ({m["layout"]}): {clause} after {m["line"]!r} ran to the end '
                        f'[{h["family"]}; seed {json.dumps(h["seed"])}; selected {h["select"]}; '
                        f'other session: {h["other"]}]; answered {ack["cond"]} {ack["pairs"] or ""}; '
                        f'before: {_md_show(ev[0])}; after restart: {_md_show(ev[4])}')
                if m['failed']:
                    what += f'; dump commands the restarted server refused: {m["failed"][:2]}'
                run.violation(what, {'check': 'C14', 'maildir': True, 'hist': h,
                                     'layout': m['layout'], 'k': m['k'], 'seed': run.seed,
                                     'fault': m['fault'],
                                     'clause': clause, 'events': ev}, None)
        for pf in per_family.values():
            pf['histories'] = len(pf['histories'])
            pf['ops'] = sorted(pf['ops'])
            pf['cond'] = sorted(pf['cond'])
        op_table = {}
        for job, r in zip(self.jobs, results):
            if r['cfg'] == '++' and r['clean_ops']:
                op_table.setdefault(f'{job["hist"]["family"]}: {r.get("line", "")[:40]}',
                                    r['clean_ops'])
        notes = {
            'histories': self.nhist, 'jobs': len(self.jobs), 'layouts': ['++', 'fs'],
            'runs': n_real, 'crash_points': points, 'traces_validated': n_real,
            'crash_points_sampled': any(r['sampled'] for job, r in zip(self.jobs, results)
                                        if job['points'] != 0),
            'histories_run_to_completion_only': sum(1 for j in self.jobs if j['points'] == 0),
            'per_clause': per_clause, 'per_family': per_family, 'per_layout': per_layout,
            'kills_after_the_tagged_response': acked_kills,
            'failing_system_calls': {'runs': sum(fails.values()), 'by_errno': dict(sorted(fails.items())),
                                     'answers': dict(sorted(fail_conds.items()))},
            'multiappend_one_by_one_windows': windows,
            'runs_with_aged_lock_files': sum(r['aged_runs'] for r in results),
            'prefix_mismatch_runs': sum(r['prefix_mismatch'] for r in results),
            'selftest_corrupted_traces': {'tried': len(selftests), 'rejected_as_expected': st_ok},
            'measured_op_traces': dict(sorted(op_table.items())),
            'pool_workers': self.nworkers,
            'enumeration_wall_s': enum_wall, 'trace_validation_wall_s': val_wall,
            'child_wall_s': round(sum(r['wall'] for r in results), 1),
        }
        # the model side
        self.model_thread.join()
        if self.model_exc:
            run.machinery('maildir part: model thread: ' + self.model_exc)
            return
        notes['model_vs_measured'] = self._compare_programs(results)
        for c, must_hold in (('MaildirMulti_torn.cfg', True), ('MaildirMulti_asis.cfg', False)):
            res = self.models.get(c)
            if res is None:
                run.machinery(f'maildir part: {c}: no result')
            elif must_hold:
                run.add_model(res, c)
                if not res.ok:
                    run.machinery(f'maildir part: model check of {c} failed: '
                                  f'{res.violated or res.error}')
            else:
                # the clause of the property on the one-by-one delivery the tree has: TLC must
                # find the half-applied state as long as the finding is open (else the model
                # would not be describing what the crash enumeration exhibits)
                notes['multiappend_model'] = {'cfg': c, 'violated': res.violated,
                                              'states': res.distinct,
                                              'expected': 'AppendAllOrNothing is violated'}
                if 'MultiAppendOneByOne' in run.known.open and \
                        res.violated[:1] != ['AppendAllOrNothing']:
                    run.machinery(f'maildir part: {c}: expected AppendAllOrNothing to be violated '
                                  f'(open finding MultiAppendOneByOne), TLC reported '
                                  f'{res.violated or res.error or "no error"}')
        for c, must_hold in (('MaildirFail_conserve.cfg', True), ('MaildirFail_asis.cfg', False)):
            res = self.models.get(c)
            if res is None:
                run.machinery(f'maildir part: {c}: no result')
            elif must_hold:
                run.add_model(res, c)
                if not res.ok:
                    run.machinery(f'maildir part: model check of {c} failed: '
                                  f'{res.violated or res.error}')
            else:
                # as with the multi-APPEND: while the finding is open TLC must find the refused
                # command that left its effect behind, else the model is not describing what the
                # failing-call family exhibits on the real code
                notes['timeout_after_effect_model'] = {'cfg': c, 'violated': res.violated,
                                                       'states': res.distinct,
                                                       'expected': 'RefusedInert is violated'}
                if 'MaildirTimeoutAfterEffect' in run.known.open and \
                        res.violated[:1] != ['RefusedInert']:
                    run.machinery(f'maildir part: {c}: expected RefusedInert to be violated '
                                  f'(open finding MaildirTimeoutAfterEffect), TLC reported '
                                  f'{res.violated or res.error or "no error"}')
        mm = {}
        for c in self.model_cfgs:
            res = self.models.get(c)
            if res is None:
                run.machinery(f'maildir part: {c}: no result')
                continue
            run.add_model(res, c)
            if not res.ok:
                run.machinery(f'maildir part: model check of {c} failed: {res.violated or res.error}')
        res = self.models.get(MD_MODEL_MUTANT[0])
        if res is not None:
            got = (res.violated or [None])[0]
            mm[MD_MODEL_MUTANT[0]] = {'expected': MD_MODEL_MUTANT[1], 'got': got,
                                      'states': res.distinct}
            if got != MD_MODEL_MUTANT[1]:
                run.machinery(f'maildir part: {MD_MODEL_MUTANT[0]}: expected {MD_MODEL_MUTANT[1]}, '
                              f'TLC reported {got} {res.error or ""}')
        notes['model_mutant'] = mm
        notes['wall_s'] = round(time.time() - self.t0, 1)
        run.notes['maildir'] = notes
        if traces:
            run.sample({'maildir': True, 'history': meta[0]['hist'], 'layout': meta[0]['layout'],
                        'k': meta[0]['k'], 'L': meta[0]['L']}, limit=4)


def _md_fits(measured: tuple, prog: tuple, n: int) -> bool:
    """measured == head + body * n + tail for some split prog == head + body + tail"""
    if measured == prog:
        return True
    for r in range(len(prog)):
        for t in range(len(prog) - r):
            body = prog[r:len(prog) - t]
            if body and prog[:r] + body * n + prog[len(prog) - t:] == measured:
                return True
    return False


def _md_compare_programs(self, results: list) -> dict:
    """the filesystem calls the real code made for the command under test (not killed) vs the
    program MaildirStore.tla runs for that command: single-message commands must be one of the
    model's programs, n-message commands that program with its per-message part n times.
    A difference is drift (the model is to be brought in line), never a violation."""
    from .c15 import kind_of
    run = self.run
    compared = mismatched = 0
    skipped: dict = {}
    for job, r in zip(self.jobs, results):
        h = job['hist']
        cut = h['cut']
        tr0 = r['traces'][0]['events'] if r['traces'] else None
        if tr0 is None or tr0[2]['cond'] != 'OK':
            continue
        op = {'UidExpunge': 'Expunge', 'Close': 'Expunge'}.get(cut[0], cut[0])
        measured = tuple(kind_of(x) for x in r['clean_ops'])
        if op in ('Move', 'Copy'):
            n = len(cut[3])
            if cut[4] == h['select']:
                skipped['onto the selected mailbox (not in the model)'] = \
                    skipped.get('onto the selected mailbox (not in the model)', 0) + 1
                continue
        elif op == 'Append':
            n = cut[2]
        else:
            n = sum(1 for k in measured if k == 'rmmsg')
        progs = self.model_programs.get(op)
        if n == 0 or not progs:
            why = 'addresses nothing' if n == 0 else f'no {op} in the simulated behaviours'
            skipped[why] = skipped.get(why, 0) + 1
            continue
        compared += 1
        if not any(_md_fits(measured, p, n) for p in progs):
            mismatched += 1
            run.drift.append({'part': 'maildir', 'family': h['family'], 'layout': r['cfg'],
                              'command': r.get('line', '')[:60], 'messages': n,
                              'measured_ops': list(measured),
                              'model_programs': [list(p) for p in sorted(progs)][:4]})
    return {'commands_compared': compared, 'mismatched': mismatched, 'not_compared': skipped,
            'model_programs': {k: len(v) for k, v in sorted(self.model_programs.items())}}


MaildirPart._compare_programs = _md_compare_programs


def _md_show(ev: dict) -> str:
    return '; '.join(f"{b['f']}{'' if b['ok'] else ' (not served)'}: "
                     + (', '.join(f"uid {m['uid']}=m{m['c']}{'/'.join(x[1:] for x in m['fl']) and ' ' + '/'.join(x[1:] for x in m['fl'])}"
                                  for m in b['msgs']) or 'empty')
                     for b in ev['boxes'])


def _md_selftests(traces: list, meta: list) -> list:
    """corrupt one value on the trace side; the observer must name the clause"""
    out = []

    def pick(pred, fault='kill'):
        for t, m in zip(traces, meta):
            if (m.get('fault', 'kill') == 'kill') == (fault == 'kill') and pred(t, m):
                return json.loads(json.dumps(t))
        return None
    # 1. a message present before is served nowhere after the restart
    t = pick(lambda t, m: t[1]['op'] == 'move' and m['k'] > 0 and t[2]['cond'] == 'NONE'
             and any(b['msgs'] for b in t[4]['boxes']))
    if t:
        for b in t[4]['boxes']:
            b['msgs'] = [x for x in b['msgs'] if x['c'] != t[1]['cids'][0]]
        out.append((t, 'C14_NeverInLimbo'))
    # 2. MOVE answered OK but the message is still in the source as well
    t = pick(lambda t, m: t[1]['op'] == 'move' and t[2]['cond'] == 'OK' and t[2]['pairs']
             and t[1]['src'] != t[1]['dst'])
    if t:
        src = next(b for b in t[0]['boxes'] if b['f'] == t[1]['src'])
        back = next(x for x in src['msgs'] if x['uid'] == t[2]['pairs'][0][0])
        next(b for b in t[4]['boxes'] if b['f'] == t[1]['src'])['msgs'].append(back)
        out.append((t, 'C14_MoveExactlyOne'))
    # 3. ... or it arrived under another UID than COPYUID says
    t = pick(lambda t, m: t[1]['op'] == 'move' and t[2]['cond'] == 'OK' and t[2]['pairs']
             and t[1]['src'] != t[1]['dst'])
    if t:
        t[2]['pairs'][0][1] += 5
        out.append((t, 'C14_MoveExactlyOne'))
    # 4. a multi-APPEND killed before anything was delivered left its SECOND message
    t = pick(lambda t, m: t[1]['op'] == 'append' and t[1]['n'] > 1 and m['k'] >= 0
             and t[3]['delivered'] == 0 and t[2]['cond'] == 'NONE')
    if t:
        next(b for b in t[4]['boxes'] if b['f'] == t[1]['dst'])['msgs'].append(
            {'uid': 90, 'c': t[1]['cids'][1], 'fl': []})
        out.append((t, 'C14_AllOrNothing'))
    # 5. ... and one that delivered its first message shows the second one instead (outside the
    #    signature of the known finding)
    t = pick(lambda t, m: t[1]['op'] == 'append' and t[1]['n'] > 1 and m['k'] >= 0
             and t[3]['delivered'] == 1 and t[2]['cond'] == 'NONE')
    if t:
        for b in t[4]['boxes']:
            for x in b['msgs']:
                if x['c'] == t[1]['cids'][0]:
                    x['c'] = t[1]['cids'][1]
        out.append((t, 'C14_AllOrNothing'))
    # 6. a refused command changed a flag
    t = pick(lambda t, m: t[2]['cond'] in ('NO', 'BAD') and any(b['msgs'] for b in t[4]['boxes']))
    if t:
        b = next(b for b in t[4]['boxes'] if b['msgs'])
        b['msgs'][0]['fl'] = sorted(set(b['msgs'][0]['fl']) ^ {'\\Answered'})
        out.append((t, 'C14_RefusedInert'))
    # 7. failing system call: NO [TIMEOUT] after the lock file stayed behind and the command had
    #    already moved / copied something - tolerated (open finding) only while nothing is lost ...
    sig = lambda t, m: (t[3]['before'] == 'unlink(uidlist.lock)' and t[2]['cond'] == 'NO'   # noqa: E731
                        and t[1]['op'] in ('move', 'copy') and t[1]['cids']
                        and _md_show(t[0]) != _md_show(t[4]))
    t = pick(sig, 'fail')
    if t:
        for b in t[4]['boxes']:
            b['msgs'] = [x for x in b['msgs'] if x['c'] != t[1]['cids'][0]]
        out.append((t, 'C14_NeverInLimbo'))
    # 8. ... and only on its signature: the same outcome after another call failed is reported
    t = pick(sig, 'fail')
    if t:
        t[3]['before'] = 'rename(TEMP->uidlist)'
        out.append((t, 'C14_RefusedInert'))
    return out


def replay(path: str) -> int:
    """re-run one maildir (history, layout, k) and print what the observer says"""
    with open(path) as f:
        rec = json.load(f)
    rp_ = rec['replay']
    if not rp_.get('maildir'):
        print('only the maildir runs of C14 are replayable from a file')
        return 2
    store_root = tempfile.mkdtemp(prefix='verif.c14.', dir='/dev/shm' if os.path.isdir('/dev/shm')
                                  else None)
    tmp = os.path.join(store_root, 'tmp')
    os.makedirs(tmp)
    try:
        tpl = os.path.join(store_root, 'tpl')
        mc.make_template(mc.Cfg(rp_['layout'], 'same', store_root, tmp), tpl, tmp, False)
        res = mc.run_job14({'cfg': (rp_['layout'], store_root, tmp), 'hist': rp_['hist'], 'hid': 0,
                            'nonce': 'n%d' % rp_.get('seed', 0), 'template': tpl, 'points': None,
                            'fail': 'all' if rp_.get('fault', 'kill') != 'kill' else None})
    finally:
        shutil.rmtree(store_root, ignore_errors=True)
    if res['machinery'] or not res['traces']:
        print('MACHINERY-ERROR', res['machinery'])
        return 2
    tr = next((t for t in res['traces'] if t['k'] == rp_['k']
               and t.get('fault', 'kill') == rp_.get('fault', 'kill')), res['traces'][0])
    verd, _vres = tlc.validate_total('Trace_ConserveKill.tla', 'Trace_ConserveKill.cfg',
                                     [tr['events']], known=sorted(Known('C14').open))
    for e in tr['events']:
        print(json.dumps(e))
    print('observer:', verd.get(1))
    if verd.get(1) and verd[1][1]:
        print(f'VIOLATION property=C14 replay={path}')
        print('  ' + verd[1][1])
        return 1
    return 0
