"""Shared campaign for the selected-mailbox synchronisation properties.

  1. TLC checks the design (MailboxSync.tla, Ideal configuration).
  2. spec -> code: behaviours taken out of TLC (-simulate, seeded; state-graph
     edge cover in the thorough tier) are replayed on the real server; the
     real response and state are compared with the spec after every step
     (differences are drift).
  3. code -> spec: harness-driven schedules (random programs of 2-3 sessions,
     interleaved at every lock checkpoint of the real code, with IDLE) are
     executed on the real server.
  4. Every recorded execution of 2 and 3 is judged by TLC against the observer
     Trace_Sync.tla, whose guards are the clauses of C01 / C02 / C16.
"""

from __future__ import annotations

import os
import random

from ..common import Run
from .. import tlc
from ..syncrun import SyncRun, run_schedule
from ..syncmodel import replay_behaviour

FLAGS = ('\\Deleted', '\\Seen', '\\Flagged')
CLAUSE_PROP = {'C01': 'C01_', 'C02': 'C02_', 'C16': 'C16_', 'C17': 'C17_', 'C04': 'C04_'}
OBSERVER = {'C17': 'Trace_Recent', 'C04': 'Trace_Uids'}

# deviations of the tree as it is now (kept in step with known/*.json: a fixed
# defect is removed here, so the model then predicts the repaired behaviour)
ASIS_DEVS = []


UID_BASE = [100]        # first UID - 1 of the backend in use (dict: 100, maildir: 0)


def rand_set(rng, uidmode: bool, nmax: int = 5) -> str:
    base = UID_BASE[0] if uidmode else 0
    r = rng.random()
    if r < 0.45:
        return str(base + rng.randint(1, nmax))
    if r < 0.65:
        return '1:*'
    if r < 0.75:
        return '*'
    if r < 0.9:
        a, b = rng.randint(1, nmax), rng.randint(1, nmax)
        return f'{base + a}:{base + b}'
    return f'{base + rng.randint(1, nmax)},{base + rng.randint(1, nmax)}'


def rand_cmd(rng, weights=None, recent_flags: bool = False, two_boxes: bool = False) -> tuple:
    w = weights or {}
    store_flags = FLAGS + (('\\Recent', '\\Recent') if recent_flags else ())
    app_flags = [(), (), ('\\Seen',), ('\\Deleted',)] + (
        [('\\Recent',), ('\\Recent', '\\Seen')] if recent_flags else [])
    kinds = [('store', 30), ('fetch', 14), ('expunge', 10), ('uidexpunge', 4),
             ('noop', 8), ('append', 8), ('copy', 5), ('move', 6), ('search', 5),
             ('check', 2), ('select', 3), ('examine', 2), ('close', 2),
             ('status', 0), ('rename', 0), ('create', 0), ('delete', 0)]
    kinds = [(k, w.get(k, v)) for k, v in kinds]
    total = sum(v for _, v in kinds)
    x = rng.uniform(0, total)
    for k, v in kinds:
        x -= v
        if x <= 0:
            break
    um = rng.random() < 0.5
    if k == 'store':
        sset, op, silent = rand_set(rng, um), rng.choice('++-='), rng.random() < 0.4
        flags = (rng.choice(store_flags),)
        if op == '=' and rng.random() < 0.35:
            flags = ()          # FLAGS (): every flag is taken away, none is named
        return ('store', um, sset, op, silent, flags)
    if k == 'fetch':
        return ('fetch', um, rand_set(rng, um), rng.random() < 0.3)
    if k == 'uidexpunge':
        return ('uidexpunge', rand_set(rng, True))
    if k == 'append':
        return ('append', rng.choice(['INBOX', 'INBOX', 'Box']), rng.choice([1, 1, 2]),
                rng.choice(app_flags))
    if k in ('copy', 'move'):
        if two_boxes:
            return (k, um, rand_set(rng, um), rng.choice(['Box', 'INBOX']))
        return (k, um, rand_set(rng, um), rng.choice(['Box', 'Box', 'INBOX', 'Box2']))
    if k == 'search':
        return ('search', um, rng.choice(['ALL', 'DELETED', 'UNSEEN', '1:*']))
    if k in ('select', 'examine'):
        if two_boxes:
            # both mailboxes alike, and now and then one that does not exist (SELECT fails)
            return (k, rng.choice(['INBOX', 'INBOX', 'INBOX', 'Box', 'Box', 'Box', 'Nope']))
        return (k, rng.choice(['INBOX', 'INBOX', 'INBOX', 'Box']))
    if k == 'status':
        return ('status', rng.choice(['INBOX', 'Box', 'Box2']))
    if k == 'rename':
        return ('rename',) + rng.choice([('Box', 'Box2'), ('Box2', 'Box'), ('INBOX', 'Box2'),
                                         ('INBOX', 'Old'), ('Old', 'Box')])
    if k == 'create':
        return ('create', rng.choice(['Box', 'Box2']))
    if k == 'delete':
        return ('delete', rng.choice(['Box', 'Box2', 'Old']))
    return (k,)


def random_schedule(rng, nsess: int, ncmds: int, idle: bool = False,
                    weights=None, ro_prob: float = 0.15, idle_prob: float = 0.25,
                    gate_idlers: bool = False, recent_flags: bool = False, micro: float = 0.0,
                    fetch_after_select: bool = False, initial_select: float = 1.0,
                    two_boxes: bool = False, uid_base: int = 100) -> tuple[list, list]:
    """A schedule in driver actions, decided step by step against the REAL run
    (the enabled actions depend on where the sessions are parked), so this
    returns a generator-like closure result: (sessions, driver)"""
    sessions = ['a', 'b', 'c'][:nsess]

    def drive(run: SyncRun):
        log = []
        UID_BASE[0] = uid_base
        need_fetch = set()
        for s in sessions:
            if rng.random() >= initial_select:
                continue
            how = 'examine' if rng.random() < ro_prob else 'select'
            for cmd in ((how, 'INBOX'), ('fetch', False, '1:*', False)):
                run.issue(s, cmd)
                run.finish(s)
                log.append(('cmd', s, cmd))
        issued = 0
        idlers = set()
        guard = 0
        while guard < 400:
            guard += 1
            acts = []
            for s in sessions:
                if run.w.conns[s].done:
                    continue
                if s in idlers:
                    if run.runnable(s):
                        acts.append(('step', s))
                    if rng.random() < 0.12:
                        acts.append(('done', s))
                    elif rng.random() < 0.03:
                        acts.append(('notdone', s))
                elif run.busy(s):
                    if run.runnable(s):
                        acts.append(('step', s))
                elif issued < ncmds:
                    acts.append(('issue', s))
            if not acts:
                break
            act, s = rng.choice(acts)
            if act == 'step' and micro and rng.random() < micro:
                run.micro(s)
                log.append(('micro', s))
                continue
            if act == 'issue':
                if idle and s != 'a' and run.server_view(s) is not None and rng.random() < idle_prob:
                    cmd = ('idle',)
                    idlers.add(s)
                    if gate_idlers:
                        # a slow client: every write of this session becomes a parking point
                        run.gate(s, True)
                elif s in need_fetch:
                    need_fetch.discard(s)
                    cmd = ('fetch', False, '1:*', False)
                else:
                    cmd = rand_cmd(rng, weights, recent_flags, two_boxes)
                    if run.server_view(s) is None and cmd[0] not in (
                            'select', 'examine', 'append', 'noop'):
                        cmd = rng.choice([('select', 'INBOX'), ('examine', 'INBOX'),
                                          ('select', 'Box'), ('append', 'INBOX', 1, ())])
                if fetch_after_select and cmd[0] in ('select', 'examine'):
                    need_fetch.add(s)
                run.issue(s, cmd)
                issued += 1
                log.append(('issue', s, cmd))
                if rng.random() < 0.35 and cmd[0] != 'idle':
                    run.finish(s)
                    log.append(('finish', s))
            elif act == 'step':
                run.step(s)
                log.append(('step', s))
            elif act in ('done', 'notdone'):
                run.issue(s, (act,))
                idlers.discard(s)
                log.append(('issue', s, (act,)))
        # wind down: every non-idling session finishes
        for s in sessions:
            if s not in idlers:
                run.finish(s)
                log.append(('finish', s))
                if s in need_fetch and run.can_issue(s):
                    run.issue(s, ('fetch', False, '1:*', False))
                    run.finish(s)
                    log.append(('cmd', s, ('fetch', False, '1:*', False)))
        run.quiesce()
        if idlers:
            run.idlecheck()
            log.append(('idlecheck',))
            for s in list(idlers):
                run.issue(s, ('done',))
                log.append(('issue', s, ('done',)))
            run.quiesce()
        run.unanswered_idle()
        run.probe()
        log.append(('probe',))
        return log
    return sessions, drive


def nontrivial(events) -> bool:
    """an EXPUNGE / EXISTS / flag change delivered to a session other than the
    one whose command caused it (i.e. delivered inside a command that is not a
    mutation of its own, or while idling)"""
    cur = {}
    for ev in events:
        e = ev['e']
        if e == 'start':
            cur[ev['s']] = ev['cmd'][0]
        elif e in ('expunge', 'exists') and cur.get(ev['s']) in (
                'noop', 'check', 'fetch', 'store', 'search', 'idle', 'copy'):
            return True
    return False


def signature(events):
    return [(ev['e'], ev.get('s'), ev.get('n'), ev.get('uid')) for ev in events
            if ev['e'] in ('expunge', 'exists', 'fetch', 'start', 'probe', 'idlecheck')]


def main(prop: str, tier: str) -> int:
    run = Run(prop, tier)
    rng = random.Random(run.seed * 7919 + int(prop[1:]))
    prefix = CLAUSE_PROP[prop]
    run.cov['rule'] = (
        'executions = (i) TLC behaviours of MailboxSync.tla (-simulate, seeded; graph edge cover '
        'in thorough) replayed command by command on the real dict server with state/response '
        'comparison, (ii) seeded random 2-3 session programs interleaved at every lock checkpoint '
        'of the real code (with IDLE); each is judged by TLC against Trace_Sync.tla. non-trivial = '
        'an EXPUNGE or EXISTS was delivered to a session inside a command that did not cause it; '
        'distinct = distinct sequences of (event, session, number, uid)')
    run.assumptions += [
        'lock acquisitions are treated as possible suspension points (checkpoint subsystem)',
        'dict backend (maildir: the random schedules only, C01 C02 C16 C17); UIDVALIDITY constant during a run',
        'glass-box reads of SelectedMailbox.messages._sorted / MailboxData._messages']

    quick = tier == 'quick'
    # 1. design
    res = tlc.run_tlc('MailboxSync.tla', 'MailboxSync_ideal_small.cfg' if quick
                      else 'MailboxSync_ideal.cfg', workers=16, timeout=3000)
    run.add_model(res, 'ideal')
    if not res.ok:
        run.machinery(f'MailboxSync Ideal configuration fails: {res.violated or res.error}')
        return run.finish()

    if prop == 'C16':
        # the IDLE loop itself (arm / wait / wake / diff / write) on top of MailboxSync: the safety
        # encoding and - on a smaller instance, weak fairness on the idler - the liveness property
        # as stated; the pinned tree's loop (deviation IdleArmAfterDiff) must FAIL the invariant,
        # which shows the invariant is not vacuous
        for cfg, want in (('MailboxIdle_ideal.cfg', None), ('MailboxIdle_live.cfg', None),
                          ('MailboxIdle_asis.cfg', 'WaitingMeansCurrent')):
            r = tlc.run_tlc('MailboxIdle.tla', cfg, workers=16, timeout=1500)
            run.add_model(r, cfg)
            if want is None and not r.ok:
                run.machinery(f'{cfg} fails: {r.violated or r.error}')
                return run.finish()
            if want is not None and want not in (r.violated or []):
                run.machinery(f'{cfg}: the lost wake-up of the pinned IDLE loop is not detected by '
                              f'{want} (got {r.violated or r.error or "no violation"})')
                return run.finish()
        run.notes['idle_model'] = ('MailboxIdle.tla: WaitingMeansCurrent + ConvergedUids hold (Devs = {}), '
                                   'EventuallyTold holds under weak fairness; with the pinned tree\'s '
                                   'IdleArmAfterDiff the invariant fails as it must')

    from .. import syncrun as _syncrun
    _syncrun.FETCH_SUBJECT[0] = prop == 'C04'
    traces, meta = [], []
    # 2. spec -> code
    nsim = 250 if quick else 2500
    behs, sres = tlc.simulate('MailboxSync.tla', 'MailboxSync_sim.cfg', num=nsim,
                              depth=11 if quick else 14, seed=run.seed + 1)
    run.add_model(sres, 'simulate')
    if not behs:
        run.machinery('no behaviours from -simulate: ' + (sres.error or sres.output[-500:]))
        return run.finish()
    replay_steps = 0
    nd = 0
    for b in behs:
        sr, drift, done = replay_behaviour(b)
        replay_steps += done
        if drift:
            if drift.get('nondet'):
                nd += 1
            else:
                run.drift.append(drift)
        for e in sr.errors:
            run.notes.setdefault('harness_errors', []).append(e)
        traces.append(sr.events)
        meta.append({'recipe': sr.recipe, 'kind': 'tlc-behaviour', 'labels': [x[0] for x in b[1:]]})
    run.notes['replayed_behaviours'] = len(behs)
    run.notes['replayed_steps'] = replay_steps
    run.notes['nondeterministic_stops'] = nd

    # 3. code -> spec
    nrand = 500 if quick else 6000
    if prop == 'C17':
        nrand = 700 if quick else 9000
    for i in range(nrand):
        nsess = 2 if rng.random() < 0.7 else 3
        idle = prop == 'C16' or rng.random() < (0.5 if prop == 'C01' else 0.25)
        if prop == 'C16':
            sessions, drive = random_schedule(
                rng, nsess, rng.randint(3, 8), idle=True, idle_prob=0.7,
                gate_idlers=rng.random() < 0.6, ro_prob=0.1, micro=rng.choice([0.0, 0.5, 0.9]),
                weights={'append': 25, 'expunge': 15, 'select': 0, 'examine': 0, 'close': 0})
        elif prop == 'C04':
            sessions, drive = random_schedule(
                rng, nsess, rng.randint(4, 10), idle=False, ro_prob=0.1, initial_select=0.7,
                weights={'append': 24, 'copy': 14, 'move': 14, 'expunge': 10, 'store': 8,
                         'status': 10, 'select': 8, 'rename': 7, 'create': 3, 'delete': 3,
                         'fetch': 3, 'search': 0, 'check': 0, 'uidexpunge': 3})
        elif prop == 'C17':
            sessions, drive = random_schedule(
                rng, 3 if rng.random() < 0.6 else 2, rng.randint(4, 11), idle=False,
                ro_prob=0.35, recent_flags=True, fetch_after_select=True,
                initial_select=0.5, two_boxes=True,
                weights={'select': 14, 'examine': 10, 'close': 8, 'append': 22, 'copy': 12,
                         'fetch': 6, 'store': 10, 'expunge': 3, 'move': 5, 'search': 0,
                         'uidexpunge': 0, 'check': 0})
        else:
            sessions, drive = random_schedule(rng, nsess, rng.randint(3, 7), idle=idle,
                                              gate_idlers=rng.random() < (0.6 if prop == 'C01' else 0.3),
                                              micro=rng.choice([0.0, 0.5, 0.9]) if idle else
                                              rng.choice([0.0, 0.0, 0.5]))
        sr = SyncRun(init_flags=[rng.choice([(), (), ('\\Seen',), ('\\Deleted',)])
                                 for _ in range(rng.randint(2, 4))],
                     sessions=sessions, controlled=True, claim_recent=rng.random() < 0.5)
        try:
            log = drive(sr)
        finally:
            sr.close()
        for e in sr.errors:
            run.notes.setdefault('harness_errors', []).append(e)
        traces.append(sr.events)
        meta.append({'recipe': sr.recipe, 'kind': 'random-schedule', 'schedule': log})

    # 3m. the same kind of schedules on the maildir backend (anchored in
    # pymap/backend/maildir/mailbox.py: every session has its own MailboxSet and learns of
    # the others through the directory; IDLE polls once a (virtual) second)
    if prop in ('C01', 'C02', 'C16', 'C17'):
        nm = (150 if quick else 2000) if prop != 'C17' else (200 if quick else 3000)
        for i in range(nm):
            nsess = 2 if rng.random() < 0.7 else 3
            if prop == 'C16':
                sessions, drive = random_schedule(
                    rng, nsess, rng.randint(3, 8), idle=True, idle_prob=0.7, uid_base=0,
                    gate_idlers=rng.random() < 0.6, ro_prob=0.1, micro=rng.choice([0.0, 0.5, 0.9]),
                    weights={'append': 25, 'expunge': 15, 'select': 0, 'examine': 0, 'close': 0})
            elif prop == 'C17':
                sessions, drive = random_schedule(
                    rng, 3 if rng.random() < 0.6 else 2, rng.randint(4, 11), idle=False,
                    ro_prob=0.35, recent_flags=True, fetch_after_select=True, uid_base=0,
                    initial_select=0.5, two_boxes=True,
                    weights={'select': 14, 'examine': 10, 'close': 8, 'append': 22, 'copy': 12,
                             'fetch': 6, 'store': 10, 'expunge': 3, 'move': 5, 'search': 0,
                             'uidexpunge': 0, 'check': 0})
            else:
                idle = rng.random() < 0.3
                sessions, drive = random_schedule(rng, nsess, rng.randint(3, 7), idle=idle,
                                                  uid_base=0, gate_idlers=rng.random() < 0.3,
                                                  micro=rng.choice([0.0, 0.0, 0.5]))
            sr = SyncRun(backend='maildir',
                         init_flags=[rng.choice([(), (), ('\\Seen',), ('\\Deleted',)])
                                     for _ in range(rng.randint(2, 4))],
                         sessions=sessions, controlled=True, claim_recent=rng.random() < 0.5)
            try:
                log = drive(sr)
            finally:
                sr.close()
            for e in sr.errors:
                run.notes.setdefault('harness_errors', []).append(e)
            traces.append(sr.events)
            meta.append({'recipe': sr.recipe, 'kind': 'random-schedule', 'backend': 'maildir', 'schedule': log})
        run.notes['maildir_schedules'] = nm
        if prop == 'C17':
            n0 = len(traces)
            maildir_recent_histories(traces, meta)
            maildir_external_first(traces, meta)
            run.notes['maildir_recent_directed'] = len(traces) - n0
        if prop == 'C02':
            # directed: a \\Seen-setting FETCH of session a with session b's flag change placed
            # after each of its checkpoints
            for bcmd in (('store', True, '1:*', '-', False, ('\\Seen',)),
                         ('store', True, '2', '+', False, ('\\Flagged',)),
                         ('store', False, '1:*', '=', True, ('\\Deleted',))):
                for k in range(0, 9):
                    sr = SyncRun(backend='maildir', init_flags=[('\\Seen',), (), ()],
                                 sessions=['a', 'b'], controlled=True, claim_recent=True)
                    try:
                        for x in ('a', 'b'):
                            sr.issue(x, ('select', 'INBOX'))
                            sr.finish(x)
                            sr.issue(x, ('fetch', True, '1:*', False))
                            sr.finish(x)
                        sr.issue('a', ('fetch', True, '1:*', True))
                        for _ in range(k):
                            if sr.busy('a'):
                                sr.step('a')
                        sr.issue('b', bcmd)
                        sr.finish('b')
                        sr.finish('a')
                        sr.quiesce()
                        sr.probe()
                    finally:
                        sr.close()
                    traces.append(sr.events)
                    meta.append({'recipe': sr.recipe, 'kind': 'directed-fetch-vs-store', 'backend': 'maildir',
                                 'placement': k, 'other': list(map(str, bcmd))})

    # 3i. C02 / C16: a slow idler - its notifications go out one line at a time (drain gated)
    # while the other session keeps changing the flags of the messages still to be reported
    if prop in ('C02', 'C16'):
        slow_idler_histories(traces, meta)

    # 3a. C01/C02: every pair (and a seeded sample of triples) of mutations by two sessions
    # where the second session has not been told about the first one's change
    if prop in ('C01', 'C02', 'C04'):
        pair_histories(run, rng, quick, traces, meta)

    # 3v. C04: a name that is given to a NEW mailbox (RENAME INBOX leaves a fresh INBOX behind;
    # DELETE + CREATE) starts its UIDs again, so it must come with a UIDVALIDITY that name never
    # had before - also when the incarnations follow each other within one second
    if prop == 'C04':
        validity_rounds(run, 700 if quick else 6000)
        # the name a session has selected is given to another mailbox meanwhile
        for box, others in (('INBOX', [('rename', 'INBOX', 'Old'), ('append', 'INBOX', 2, ())]),
                            ('Box', [('delete', 'Box'), ('create', 'Box'), ('append', 'Box', 2, ())]),
                            ('Box', [('rename', 'Box', 'Old'), ('create', 'Box'), ('append', 'Box', 1, ())]),
                            ('Box', [('rename', 'Box', 'Old'), ('rename', 'INBOX', 'Box')])):
            for acmd in (('fetch', True, '1:*', False), ('fetch', False, '1:*', False),
                         ('fetch', True, '101:102', True)):
                sr = SyncRun(init_flags=((), (), ()), sessions=['a', 'b'], controlled=False,
                             claim_recent=True, box_msgs={'Box': 2})
                log = []
                try:
                    for c in (('select', box), ('fetch', False, '1:*', False)):
                        sr.issue('a', c)
                        sr.finish('a')
                    for c in others:
                        sr.issue('b', c)
                        sr.finish('b')
                        log.append(('b', c))
                    if sr.can_issue('a'):
                        sr.issue('a', acmd)
                        sr.finish('a')
                        log.append(('a', acmd))
                    if sr.can_issue('a'):
                        sr.issue('a', ('noop',))
                        sr.finish('a')
                finally:
                    sr.close()
                traces.append(sr.events)
                meta.append({'recipe': sr.recipe, 'kind': 'name-rebound', 'box': box, 'commands': log})

    # 3b. C17: life-cycle histories from the reference model RecentModel.tla (every edge)
    if prop == 'C17':
        lifecycle_part(run, rng, quick, traces, meta)

    # 4. TLC judges
    obs = OBSERVER.get(prop, 'Trace_Sync')
    verdicts, vres = tlc.validate_total(obs + '.tla', obs + '.cfg', traces)
    if len(verdicts) != len(traces):
        run.machinery('trace validation incomplete: ' + (vres.error or vres.output[-800:]))
        return run.finish()
    run.notes['trace_validation_wall_s'] = round(vres.wall_s, 1)
    other = {}
    for i, ev in enumerate(traces, 1):
        line, clause = verdicts[i]
        mine = clause.startswith(prefix)
        clause, _, detail = clause.partition(':')
        if prop == 'C01' and clause == 'C16_PushedBeforeEnd':
            mine = True      # the client's view has diverged from the server's at the end of IDLE
        if prop == 'C16' and clause.startswith('C01_') and line:
            # "updates pushed during IDLE obey the same sequence-number rules": a C01 clause
            # that fails on data received while idling (or with the tagged end of IDLE) is C16's
            sess = ev[line - 1].get('s')
            last = [e for e in ev[:line] if e['e'] == 'start' and e.get('s') == sess]
            mine = bool(last and last[-1]['k'] == 'idle')
        run.count_exec(signature(ev), nontrivial=nontrivial(ev), validated=not mine)
        if clause and not mine:
            other[clause] = other.get(clause, 0) + 1
        if mine:
            sig = classify(prop, clause, ev, line, detail, meta[i - 1].get('backend', 'dict'))
            run.violation(f'{clause} at event {line}: {ev[line - 1]}',
                          {'check': prop, 'meta': meta[i - 1], 'clause': clause,
                           'line': line, 'events': ev[max(0, line - int(os.environ.get('VERIF_TRACE_TAIL', '25'))):line]}, sig)
    run.notes['clauses_of_other_properties_seen'] = other
    for m in (meta[0], meta[len(behs)] if len(meta) > len(behs) else meta[-1]):
        run.sample(m)
    return run.finish()


def maildir_recent_histories(traces, meta) -> None:
    """C17 on maildir, directed: every connection has its own SelectedSet there, so a message
    another connection delivers into a mailbox somebody has selected waits in new/ until the next
    read-write SELECT claims it.  While it waits the selecting session copies it (onto its own
    mailbox or elsewhere), moves it, changes its flags (the file is renamed inside new/), closes -
    and a third connection then SELECTs: the message and its copy must be \\Recent for at most one
    session, and for the first read-write session that is told about them.  Also: files a
    delivery agent dropped into new/ without an info suffix."""
    F = ('\\Flagged',)
    for mid in ('copy', 'move', 'store', 'storeclose', 'external', 'externalstore'):
        for dest in ('INBOX', 'Box'):
            for csel in ('INBOX', 'Box'):
                if mid == 'move' and dest == 'INBOX':
                    continue            # MOVE onto the selected maildir mailbox: open C10 finding
                if mid not in ('copy', 'move') and dest != csel:
                    continue
                sr = SyncRun(backend='maildir', init_flags=[()], sessions=['a', 'b', 'c'],
                             controlled=True, claim_recent=True, boxes=('Box',))
                log = []

                def do(s, c):
                    sr.issue(s, c)
                    sr.finish(s)
                    log.append(('cmd', s, c))
                try:
                    home = 'INBOX' if mid in ('copy', 'move') else dest
                    do('a', ('select', home))
                    do('a', ('fetch', False, '1:*', False))
                    if mid.startswith('external'):
                        sr.deliver_external(home)
                        log.append(('external', home))
                    else:
                        do('b', ('append', home, 1, ()))
                    do('a', ('noop',))
                    do('a', ('fetch', False, '1:*', False))
                    last = '2' if home == 'INBOX' else '1'
                    if mid in ('copy', 'move'):
                        do('a', (mid, False, last, dest))
                    elif mid in ('store', 'storeclose', 'externalstore'):
                        do('a', ('store', False, last, '+', False, F))
                    if mid == 'storeclose':
                        do('a', ('close',))
                    else:
                        do('a', ('fetch', False, '1:*', False))
                    do('c', ('select', csel))
                    do('c', ('fetch', False, '1:*', False))
                    do('a', ('noop',))
                    sr.quiesce()
                    sr.probe()
                finally:
                    sr.close()
                traces.append(sr.events)
                meta.append({'recipe': sr.recipe, 'kind': 'maildir-recent-directed',
                             'backend': 'maildir', 'mid': mid, 'dest': dest, 'third': csel,
                             'schedule': log})


def maildir_external_first(traces, meta) -> None:
    """C17 on maildir: a delivery agent's file (no info suffix) arrives while NOBODY has the mailbox
    selected; a STATUS and a read-only session look first (reset() gives the file its UID record, the
    file stays in new/ - read-only selections never consume \\Recent), then the first read-write SELECT
    must be shown the message \\Recent."""
    for dest in ('INBOX', 'Box'):
        for n in (1, 2):
            sr = SyncRun(backend='maildir', init_flags=[()], sessions=['a', 'b', 'c'],
                         controlled=True, claim_recent={'INBOX', 'Box'}, boxes=('Box',))
            log = []

            def do(s, c):
                sr.issue(s, c)
                sr.finish(s)
                log.append(('cmd', s, c))
            try:
                for _ in range(n):
                    sr.deliver_external(dest)
                    log.append(('external', dest))
                # STATUS makes the backend look at the folder (reset() gives the file its UID
                # record) without any selection of it being in flight
                do('b', ('status', dest))
                do('b', ('examine', dest))
                do('b', ('fetch', False, '1:*', False))
                do('c', ('select', dest))
                do('c', ('fetch', False, '1:*', False))
                do('a', ('select', dest))
                do('a', ('fetch', False, '1:*', False))
                sr.quiesce()
                sr.probe()
            finally:
                sr.close()
            traces.append(sr.events)
            meta.append({'recipe': sr.recipe, 'kind': 'maildir-external-first',
                         'backend': 'maildir', 'dest': dest, 'n': n, 'schedule': log})


def slow_idler_histories(traces, meta) -> None:
    F = ('\\Flagged',)
    seqs = [
        [('store', False, '1:2', '+', False, F), 1, ('store', False, '2', '-', False, F), 1,
         ('store', False, '2', '+', False, F)],
        [('store', False, '1:2', '+', False, F), 1, ('store', False, '2', '=', False, ()), 1,
         ('store', False, '1', '=', True, ())],
        [('store', False, '1:3', '+', False, F), 1, ('store', False, '3', '-', False, F),
         ('store', False, '2', '-', False, F), 2, ('store', False, '2:3', '+', False, F)],
        [('store', False, '1:3', '+', False, ('\\Deleted',)), 2, ('expunge',), 1,
         ('append', 'INBOX', 2, ())],
        [('append', 'INBOX', 2, ()), 1, ('store', False, '4:5', '+', False, F), 1,
         ('store', False, '5', '-', False, F), 1, ('store', False, '5', '+', False, F)],
    ]
    for k, seq in enumerate(seqs):
        for extra in (0, 1, 2):
            sr = SyncRun(init_flags=((), (), ()), sessions=['a', 'b'], controlled=True,
                         claim_recent=True)
            log = []
            try:
                for x in ('a', 'b'):
                    for c in (('select', 'INBOX'), ('fetch', False, '1:*', False)):
                        sr.issue(x, c)
                        sr.finish(x)
                sr.issue('a', ('idle',))
                sr.finish('a')
                sr.gate('a', True)
                for item in seq:
                    if isinstance(item, int):
                        for _ in range(item + extra):
                            if sr.runnable('a'):
                                sr.step('a')       # one more line of the idler goes out
                                log.append(('step', 'a'))
                    else:
                        sr.issue('b', item)
                        sr.finish('b')
                        log.append(('cmd', 'b', item))
                sr.gate('a', False)
                sr.quiesce()
                sr.idlecheck()
                sr.issue('a', ('done',))
                sr.quiesce()
                sr.unanswered_idle()
                sr.probe()
            finally:
                sr.close()
            traces.append(sr.events)
            meta.append({'recipe': sr.recipe, 'kind': 'slow-idler', 'history': k, 'extra_steps': extra, 'schedule': log})


def validity_rounds(run, rounds: int) -> None:
    import re as _re
    from ..server import World
    import time as _time
    w = World('dict', demo=False, users={'user1': 'pass1'})
    real_time = _time.time
    frozen = real_time()
    _time.time = lambda: frozen          # every incarnation is made within the same second
    try:
        c = w.connect('a')
        c.take()
        w.login('a')
        w.cmd('a', b'CREATE Box')
        seen = {'INBOX': {}, 'Box': {}}

        def validity(name):
            out = w.cmd('a', b'STATUS %s (UIDVALIDITY UIDNEXT)' % name.encode())
            m = _re.search(rb'UIDVALIDITY (\d+)', out)
            return int(m.group(1)) if m else None
        for k in range(rounds):
            for name, cmds in (('INBOX', [b'APPEND INBOX {7+}\r\nA: b\r\n\r\n',
                                          b'RENAME INBOX Old%d' % k]),
                               ('Box', [b'APPEND Box {7+}\r\nA: b\r\n\r\n', b'DELETE Box',
                                        b'CREATE Box'])):
                v0 = validity(name)
                for line in cmds:
                    w.cmd('a', line)
                v1 = validity(name)
                if v0 is None or v1 is None:
                    run.machinery(f'validity rounds: STATUS {name} unreadable in round {k}')
                    return
                seen[name].setdefault(v0, k)
                if v1 in seen[name]:
                    run.violation(
                        f'C04_ValidityFresh: round {k}: the new mailbox now called {name} has '
                        f'UIDVALIDITY {v1}, which the mailbox of that name had in round '
                        f'{seen[name][v1]} (its UIDs start again at the beginning)',
                        {'check': 'C04', 'part': 'validity-rounds', 'name': name, 'round': k,
                         'validity': v1}, None)
                    return
        run.count_exec(('validity-rounds', rounds), nontrivial=True)
        run.notes['validity_rounds'] = rounds
    finally:
        _time.time = real_time
        w.close()


MUTS = [('expunge',), ('uidexpunge', '101'), ('uidexpunge', '101:102'), ('uidexpunge', '102:103'),
        ('store', False, '1:*', '+', False, ('\\Flagged',)), ('store', True, '103', '+', False, ('\\Deleted',)),
        ('store', True, '101:102', '-', False, ('\\Deleted',)), ('store', False, '2', '=', True, ('\\Seen',)),
        ('move', False, '1', 'Box'), ('move', True, '101:103', 'Box'), ('append', 'INBOX', 2, ()),
        ('copy', False, '1:*', 'INBOX'), ('fetch', False, '1:*', True), ('fetch', True, '102', True),
        ('close+select',), ('copy', True, '101:104', 'Box'), ('copy', False, '4,1', 'Box'),
        ('move', False, '3:4,3', 'Box')]


def pair_histories(run, rng, quick, traces, meta) -> None:
    """a mutates, b (not told) mutates, [a again], then everybody NOOPs at quiescence.
    INBOX starts with 101, 102 \\Deleted, 103, 104 plain, all still unclaimed recent; c is a
    passive third session that only EXAMINEs."""
    hist = [(x, y) for x in MUTS for y in MUTS]
    triples = [(x, y, z) for x in MUTS for y in MUTS for z in MUTS]
    rng.shuffle(triples)
    hist = [(h, 'aba') for h in hist + triples[:120 if quick else 2500]]
    # a removes messages; b (not told) runs a sequence-number command that holds the EXPUNGEs
    # back and THEN, as its very next command, one that takes sequence numbers again
    removers = [('expunge',), ('uidexpunge', '101'), ('uidexpunge', '101:102'),
                ('move', True, '101:103', 'Box'), ('move', False, '1', 'Box')]
    holders = [('fetch', False, '1:*', False), ('fetch', False, '2:3', True),
               ('store', False, '3', '+', False, ('\\Flagged',)),
               ('store', False, '1:*', '+', True, ('\\Seen',)), ('search', False, 'ALL')]
    users = [('copy', False, '3', 'Box'), ('move', False, '3', 'Box'), ('copy', False, '2:4', 'Box'),
             ('move', False, '4,1', 'Box'), ('store', False, '3', '+', False, ('\\Answered',)),
             ('fetch', False, '3:4', False), ('search', False, '3:4')]
    hist += [((x, y, z), 'abb') for x in removers for y in holders for z in users]
    # ... and b's sequence-number command is REFUSED (NO / BAD after the server has begun to
    # hold EXPUNGEs back): the very next command, the NOOP of the probe, must tell everything
    refused = [('search', False, 'NOT OR SEEN ' * 400 + 'SEEN'), ('search', False, '1:* CHARSET'),
               ('fetch', False, '1:*', False, '(UID BODY[1.2.3.4.5.6.7.8.9.10.11.12.13.14.15.MIME])'),
               ('store', False, '1:*', '+', False, ('\\Recent',)),
               ('search', True, 'NOT OR SEEN ' * 400 + 'SEEN')]
    hist += [((x, y), 'ab') for x in removers for y in refused]
    hist += [((x, y, z), 'abb') for x in removers for y in refused[:2] for z in users[:3]]
    for h, who in hist:
        sr = SyncRun(init_flags=(('\\Deleted',), ('\\Deleted',), (), ()), sessions=['a', 'b', 'c'],
                     controlled=False, claim_recent=False)
        log = []

        def cmd(s, c):
            if c == ('close+select',):
                cmd(s, ('close',))
                cmd(s, ('select', 'INBOX'))
                return
            if sr.can_issue(s):
                sr.issue(s, c)
                sr.finish(s)
                log.append((s, c))
        try:
            cmd('c', ('examine', 'INBOX'))
            cmd('c', ('fetch', False, '1:*', False))
            for s in ('a', 'b'):
                cmd(s, ('select', 'INBOX'))
                cmd(s, ('fetch', False, '1:*', False))
            for i, c in enumerate(h):
                cmd(who[i], c)
            sr.probe()
            sr.probe()
        finally:
            sr.close()
        traces.append(sr.events)
        meta.append({'recipe': sr.recipe, 'kind': 'pair-history', 'commands': log})


def lifecycle_part(run, rng, quick, traces, meta) -> None:
    # whether a dead connection's selection is forgotten must not depend on WHEN the cyclic
    # garbage collector runs: it does not run at all while these histories are played
    import gc
    gc.disable()
    try:
        _lifecycle_part(run, rng, quick, traces, meta)
    finally:
        gc.enable()
        gc.collect()


def _lifecycle_part(run, rng, quick, traces, meta) -> None:
    graph, res = tlc.dump_graph('RecentModel.tla', 'RecentModel_2.cfg' if quick else 'RecentModel_3.cfg',
                                workers=8)
    run.add_model(res, 'RecentModel')
    if not res.ok:
        run.machinery(f'RecentModel fails: {res.violated or res.error}')
        return
    paths = tlc.edge_cover(graph, max_len=8)
    cap = 1100 if quick else 15000
    if len(paths) > cap:
        rng.shuffle(paths)
        paths = paths[:cap]
    run.notes['lifecycle'] = {'graph_nodes': len(graph.nodes), 'graph_edges': graph.n_edges,
                              'paths_replayed': len(paths)}
    for init, path in paths:
        st0 = graph.nodes[init]
        sessions = sorted(str(x) for x in st0['sel'])
        claimed = {m for m in ('INBOX', 'Box') if not st0['unclaimed'][m]}
        sr = SyncRun(init_flags=((), ()), sessions=sessions + ['d'], controlled=False,
                     claim_recent=claimed, box_msgs={'Box': 1})
        log = []

        def cmd(s, c):
            if sr.can_issue(s):
                sr.issue(s, c)
                sr.finish(s)
                log.append((s, c))
        try:
            for label, _dst in path:
                name, a = tlc.parse_label(label)
                s = str(a[0])
                if name == 'Select':
                    cmd(s, (('select' if a[2] else 'examine'), str(a[1])))
                    cmd(s, ('fetch', False, '1:*', False))
                elif name == 'SelectFail':
                    cmd(s, ('select', 'Nope'))
                elif name == 'Close':
                    cmd(s, ('close',))
                elif name == 'Gone':
                    sr.reconnect(s, rng.choice(['bad+logout', 'eof', 'idle+eof', 'bad+idle+eof']))
                    log.append((s, ('gone',)))
                elif name == 'Append':
                    cmd(s, ('append', str(a[1]), 1, ()))
                elif name == 'Copy':
                    cmd(s, ('copy', False, '*', str(a[1])))
                elif name == 'Move':
                    cmd(s, ('move', False, '*', str(a[1])))
                elif name == 'Noop':
                    cmd(s, ('noop',))
                elif name == 'StoreRecent':
                    cmd(s, ('store', False, '1:*', rng.choice('+-'), False, ('\\Recent',)))
                elif name == 'Status':
                    cmd(s, ('status', str(a[1])))
            # everybody looks at what it has; then a fresh session selects each mailbox read-write
            for s in sessions:
                if sr.server_view(s) is not None:
                    cmd(s, ('fetch', False, '1:*', False))
            # one more delivery into each mailbox (whoever still holds a selection it should no
            # longer have - a failed SELECT, a connection that is gone - would take it)
            if rng.random() < 0.7:
                for m in ('INBOX', 'Box'):
                    cmd('d', ('append', m, 1, ()))
                for s in sessions:
                    if sr.server_view(s) is not None:
                        cmd(s, ('fetch', False, '1:*', False))
            for m in ('INBOX', 'Box'):
                cmd('d', ('select', m))
                cmd('d', ('fetch', False, '1:*', False))
        finally:
            sr.close()
        traces.append(sr.events)
        meta.append({'recipe': sr.recipe, 'kind': 'lifecycle', 'actions': [p[0] for p in path], 'commands': log})
        if len(traces) % 25 == 0:
            import gc
            gc.collect()        # between histories only: what a finished history left in cycles


def classify(prop, clause, events, line, detail='', backend='dict'):
    """signature of a failing execution for known-finding matching (narrow:
    derived from the failing history itself)"""
    if clause == 'C17_FirstRWGetsIt' and detail.isdigit():
        return 'StaleRecentPick' if stale_pick(events[:line], int(detail)) else None
    if clause == 'C02_ConvergedFlags' and backend == 'maildir' and seen_race(events, line):
        return 'MaildirFetchSeenRace'
    if clause in ('C04_UidDenotesOneMessage', 'C04_CopyUid'):
        ev = events[line - 1]
        # the name the session selected now denotes ANOTHER mailbox object (renamed away,
        # deleted and created again) and the server followed the name
        if ev.get('bound') and ev.get('nowobj') and ev['bound'] != ev['nowobj']:
            return 'SelectionBoundToName'
    return None


def seen_race(events, line: int) -> bool:
    """True iff the probe that fails is of a session whose own flag-changing command (STORE, or
    a \\Seen-setting FETCH) overlapped another session's STORE, and the disagreement is on
    messages that command reported: the maildir store returns the message as it was when THIS
    command updated it, while the session's snapshot is the later rescan."""
    probe = events[line - 1]
    if probe.get('e') != 'probe':
        return False
    s = probe['s']
    truth = dict(zip(probe['uids'], probe['flags']))
    # what the session was told last, per uid
    told, view = {}, []
    spans, open_ = [], {}
    for i, ev in enumerate(events[:line - 1]):
        if ev['e'] == 'start':
            open_[ev['s']] = (i, ev['cmd'])
        elif ev['e'] == 'tagged' and ev['s'] in open_:
            a, cmd = open_.pop(ev['s'])
            spans.append((ev['s'], a, i, cmd))
        if ev.get('s') == s and ev['e'] in ('start', 'tagged') and 'view' in ev:
            view = list(ev['view'])
        elif ev.get('s') == s and ev['e'] == 'expunge' and 0 < ev.get('n', 0) <= len(view):
            view.pop(ev['n'] - 1)
        if ev.get('s') == s and ev['e'] == 'fetch' and ev.get('hasflags'):
            # a FETCH without UID (the response of a STORE by sequence number): the number is
            # read against the session's view
            uid = ev.get('uid') or (view[ev['n'] - 1] if 0 < ev.get('n', 0) <= len(view) else 0)
            if uid:
                told[uid] = (i, set(ev['flags']) - {'\\Recent'})
    bad_uids = [u for u, fl in truth.items()
                if u in told and told[u][1] != set(fl)]
    if not bad_uids:
        return False
    for u in bad_uids:
        i, fl = told[u]
        # told by this session's OWN flag-changing command (STORE, or a \\Seen-setting FETCH) ...
        # (... or by its own plain FETCH: what matters is that the reply is built from message
        # objects read BEFORE the rescan that becomes the session's snapshot)
        mine = [sp for sp in spans if sp[0] == s and sp[1] <= i <= sp[2]
                and sp[3][0] in ('store', 'fetch')]
        if not mine:
            return False
        a, b = mine[-1][1], mine[-1][2]
        if not any(sp[0] != s and sp[1] <= b and sp[2] >= a and (
                sp[3][0] == 'store' or (sp[3][0] == 'fetch' and len(sp[3]) > 3 and sp[3][3]))
                for sp in spans):
            return False
    return True


def stale_pick(events, uid: int) -> bool:
    """True iff message `uid` was delivered by a command that was already in
    flight (its `start` precedes) when the last read-write selection of the
    destination mailbox ended: the session layer picked that selection as the
    recipient of \\Recent before waiting for the mailbox lock."""
    arr = None
    # the mailbox whose read-write selection was not shown the message (the failing event)
    mbx = events[-1].get('mbx') if events else None
    for i, ev in enumerate(events):
        if ev['e'] == 'arrive' and uid in ev['uids'] and (not mbx or ev['dest'] == mbx):
            arr = i
    if arr is None:
        return False
    dest, by = events[arr]['dest'], events[arr].get('by')
    start = None
    for i in range(arr, -1, -1):
        if events[i]['e'] == 'start' and events[i]['s'] == by:
            start = i
            break
    if start is None:
        return False
    # The pick is made before the delivering command waits for a lock: APPEND picks per
    # message (before each wait for the destination's write lock), COPY / MOVE once per
    # command (before the loop over the messages).  Candidates: the command's start and each
    # of its steps to a checkpoint before the step that landed the message (the step logged
    # just before the arrival).
    landing = next((i for i in range(arr, start, -1)
                    if events[i]['e'] == 'step' and events[i].get('s') == by), arr)
    candidates = [start] + [i for i in range(start + 1, landing)
                            if events[i]['e'] == 'step' and events[i].get('s') == by]

    def given_up_after(point: int) -> bool:
        # which sessions had `dest` selected read-write at that point
        sel = {}
        for ev in events[:point]:
            if ev['e'] == 'tagged':
                if ev['selected'] and not ev['ro']:
                    sel[ev['s']] = ev['mbx']
                else:
                    sel.pop(ev['s'], None)
            elif ev['e'] in ('bye', 'cancel', 'drop'):
                sel.pop(ev['s'], None)
        holders = {s for s, m in sel.items() if m == dest and s != by}
        if not holders:
            return False
        # ... and each of them gave the selection up before the message landed
        for ev in events[point:arr]:
            if ev.get('s') in holders and (
                    (ev['e'] == 'start' and ev['k'] == 'select')
                    or (ev['e'] == 'tagged' and not (ev['selected'] and ev['mbx'] == dest
                                                     and not ev['ro']))
                    or ev['e'] in ('bye', 'cancel', 'drop')):
                holders.discard(ev['s'])
        return not holders

    return any(given_up_after(p) for p in candidates)


def replay(prop: str, path: str) -> int:
    """Set the recorded execution up again, repeat every driver action on the real server and
    have TLC judge the new recording.  Exit 1 if a clause of the property fails again."""
    import json
    from ..syncrun import run_recipe
    rec = json.load(open(path))
    rep = rec['replay']
    recipe = (rep.get('meta') or {}).get('recipe')
    if not recipe:
        print('this replay file carries no recipe (written before replays of this check existed)')
        return 2
    if rep['meta'].get('kind') == 'lifecycle':
        import gc
        gc.disable()
    try:
        sr = run_recipe(recipe)
    finally:
        import gc
        gc.enable()
    for e in sr.errors:
        print('note:', e)
    obs = OBSERVER.get(prop, 'Trace_Sync')
    verdicts, vres = tlc.validate_total(obs + '.tla', obs + '.cfg', [sr.events])
    if len(verdicts) != 1:
        print('trace validation incomplete: ' + (vres.error or vres.output[-800:]))
        return 2
    line, clause = verdicts[1]
    clause, _, detail = clause.partition(':')
    for e in sr.events[max(0, (line or len(sr.events)) - 25):(line or len(sr.events))]:
        print('  ', e)
    was = rep.get('clause')
    if clause and (clause.startswith(CLAUSE_PROP[prop]) or clause == was):
        sig = classify(prop, clause, sr.events, line, detail, recipe['init'].get('backend', 'dict'))
        print(f'REPRODUCED: {clause} at event {line}: {sr.events[line - 1]}'
              + (f' (known finding {sig})' if sig else ''))
        return 1
    print(f'NOT REPRODUCED (recorded: {was}; now: {clause or "every clause holds"})')
    return 0
