"""C06 - every input is answered.

TLC enumerates token lines (CmdTokens.tla: command word + <= 2 argument tokens,
exhaustively; 3 by simulation) for IMAP and ManageSieve, and stored messages as
sequences of line tokens; the harness concretises each, sends it to the real
server in the not-authenticated / authenticated / selected state under a
watchdog (and, for messages, fetches them with every FETCH attribute and
searches them with every SEARCH key); TLC judges every connection transcript
against Trace_Total.tla."""

from __future__ import annotations

import random

from ..common import Run
from .. import tlc
from ..server import World
from .. import totality as T

RULE = (
        'executions = one connection per (token line, connection state) for every command line '
        'TLC enumerates from CmdTokens.tla (command word + <= 2 argument tokens exhaustively in '
        'thorough, seeded sample in quick; 3 tokens by -simulate), IMAP in 3 states and ManageSieve '
        'in 2, plus one connection per enumerated stored message that fetches it with every FETCH '
        'attribute and searches it with every SEARCH key, plus repeated-error connections; each run '
        'under a watchdog and followed by a NOOP on a second connection. non-trivial = the line '
        'contains at least one malformed / hostile token or the message a malformed line token; '
        'distinct = distinct (state, token line)')

FETCH_ATTS = [b'ALL', b'FULL', b'FAST', b'ENVELOPE', b'BODY', b'BODYSTRUCTURE', b'BODY.PEEK[]',
              b'BODY[HEADER]', b'BODY.PEEK[TEXT]', b'BODY.PEEK[1]', b'BODY.PEEK[1.MIME]',
              b'BODY.PEEK[1.1]', b'BODY.PEEK[2.HEADER]', b'BODY.PEEK[HEADER.FIELDS (SUBJECT X-TEST)]',
              b'BODY.PEEK[HEADER.FIELDS.NOT (SUBJECT)]', b'BODY.PEEK[]<0.5>', b'BODY.PEEK[]<100000.5>',
              b'RFC822', b'RFC822.HEADER', b'RFC822.TEXT', b'RFC822.SIZE', b'BINARY.PEEK[1]',
              b'BINARY.PEEK[]', b'BINARY.SIZE[1]', b'INTERNALDATE', b'EMAILID', b'THREADID', b'UID']
SEARCH_KEYS = [b'ALL', b'BODY hello', b'TEXT value', b'SUBJECT a', b'FROM x', b'TO c', b'CC c',
               b'BCC c', b'HEADER X-Test value', b'HEADER Subject ""', b'SENTBEFORE 1-Jan-2030',
               b'SENTON 1-Jan-2024', b'SENTSINCE 1-Jan-2000', b'BEFORE 1-Jan-2030',
               b'LARGER 10', b'SMALLER 100000', b'NOT BODY zzz', b'OR SUBJECT a TEXT b']


def known_sig(clause, meta, tr):
    """narrow signatures of the open known findings"""
    import re as _re
    if clause == 'C06_NoServerBug' and meta.get('kind') == 'message' \
            and meta.get('backend') == 'maildir' and meta.get('last_cmd', '').startswith('APPEND'):
        return 'MaildirAppendReserialises'
    if clause == 'C07_WellFormed' and meta.get('malformed', '') and \
            meta['malformed'].startswith('atom expected') and \
            _re.search(r'BODY(STRUCTURE)? \( "[^"]*" ', meta.get('malformed_ctx') or ''):
        return 'EmptyMultipartBodystructure' 
    if meta['kind'] == 'message' and 'BINARY' in meta.get('last_cmd', '') \
            and meta.get('exc_type') in ('binascii.Error', 'builtins.NotImplementedError') \
            and clause in ('C06_NoException', 'C06_Answered', 'C06_ByeBeforeClose'):
        return 'BinaryFetchUndecodableCTE'
    return None


def main(tier: str) -> int:
    run = Run('C06', tier)
    run.cov['rule'] = RULE
    campaign(run, tier, 'C06_')
    return run.finish()


def campaign(run, tier: str, prefix: str) -> None:
    rng = random.Random(run.seed * 2654435761 % (1 << 31) + 6)
    quick = tier == 'quick'
    run.assumptions += [
        'the input quantifier is covered at TOKEN level only: arbitrary and mutated raw byte strings '
        'are not enumerable by a TLA+ model (DESIGN.md section 8)',
        'lines longer than the 64 KiB stream limit are outside the property',
        'dict backend for IMAP token lines; stored-message half on dict (maildir in thorough)']
    states2, res = tlc.dump_states('CmdTokens.tla', 'CmdTokens_cmd2.cfg')
    run.add_model(res, 'cmd tokens <= 2')
    sstates, sres = tlc.dump_states('CmdTokens.tla', 'CmdTokens_sieve2.cfg')
    run.add_model(sres, 'sieve tokens <= 2')
    mstates, mres = tlc.dump_states('CmdTokens.tla', 'CmdTokens_msg3.cfg')
    run.add_model(mres, 'message line tokens <= 3')
    if not (res.ok and sres.ok and mres.ok):
        run.machinery('CmdTokens enumeration failed')
        return
    lines = [tuple(s['line']) for s in states2 if s['line']]
    slines = [tuple(s['line']) for s in sstates if s['line']]
    msgs = [tuple(s['line']) for s in mstates if s['line']]
    run.notes['enumerated'] = {'imap_lines': len(lines), 'sieve_lines': len(slines), 'messages': len(msgs)}
    if quick:
        rng.shuffle(lines)
        rng.shuffle(slines)
        rng.shuffle(msgs)
        lines, slines, msgs = lines[:2200], slines[:500], msgs[:60]
    else:
        run.cov['exhaustive'] = True
    bad_tokens = {'QUOTED_OPEN', 'LIT_HUGE', 'LIT_BAD', 'LIST_OPEN', 'LIST_DEEP', 'NUM_HUGE',
                  'SEQSET_BAD', 'FLAG_BAD', 'MBX_UTF7_OPEN', 'MBX_AMP', 'EIGHTBIT', 'NULBYTE',
                  'BAD_UTF8', 'DATE_BAD', 'SECTION_OPEN', 'HEADERKEY_8BIT', 'NOSPACE', 'TRAILSP',
                  'BARELF', 'LONG', 'SCRIPT_BAD', 'BOGUS'}
    traces, meta = [], []
    w = None
    used = 0

    def world():
        nonlocal w, used
        if w is None or used > 150:
            if w is not None:
                w.close()
            w = World('dict', demo=True, tls=False)
            used = 0
        used += 1
        return w

    def record(tr, hang, m):
        nonlocal w
        traces.append(tr.events)
        m['malformed'] = tr.malformed[1] if tr.malformed else None
        m['malformed_ctx'] = tr.malformed[2].decode('latin1') if tr.malformed else None
        meta.append(m)
        if hang:
            try:
                w.close()
            except Exception:
                pass
            w = None

    n = 0
    for ln in lines:
        for st in T.STATES:
            chunks = T.concretise_line(ln, rng)
            n += 1
            tr, hang = T.run_line(world(), st, chunks, name=f'c{n}')
            record(tr, hang, {'kind': 'imap', 'state': st, 'tokens': ln,
                              'bytes': [c[:200].decode('latin1') for c in chunks]})
    for ln in slines:
        for st in ('nonauth', 'auth'):
            chunks = T.concretise_line(ln, rng)
            n += 1
            tr, hang = T.run_line(world(), st, chunks, service='sieve', name=f'c{n}')
            record(tr, hang, {'kind': 'sieve', 'state': st, 'tokens': ln,
                              'bytes': [c[:200].decode('latin1') for c in chunks]})
    # repeated errors on one connection (the consecutive-BAD limit)
    for ln in [('BOGUS',), ('FETCH', 'SEQSET_BAD'), ('SELECT', 'QUOTED_OPEN'), ('LOGIN', 'ATOM')]:
        for st in T.STATES:
            chunks = T.concretise_line(ln, rng)
            n += 1
            tr, hang = T.run_line(world(), st, chunks, name=f'c{n}', repeat=7)
            record(tr, hang, {'kind': 'imap-repeat', 'state': st, 'tokens': ln,
                              'bytes': [c[:200].decode('latin1') for c in chunks]})
    # stored messages
    for backend in (['dict'] if quick else ['dict', 'maildir']):
        for mt in (msgs if backend == 'dict' else msgs[::8]):
            body = T.concretise_msg(mt, rng)
            mw = World(backend, demo=False) if backend == 'maildir' else world()
            n += 1
            cmds = [b'APPEND INBOX {%d+}\r\n' % len(body) + body + b'\r\n', b'SELECT INBOX\r\n']
            cmds += [b'FETCH * (' + a + b')\r\n' for a in FETCH_ATTS]
            cmds += [b'SEARCH ' + k + b'\r\n' for k in SEARCH_KEYS]
            cmds += [b'UID SEARCH CHARSET UTF-8 TEXT {2+}\r\n\xc3\xa9\r\n', b'COPY * Sent\r\n' if backend == 'dict' else b'NOOP\r\n']
            tr = T.Transcript()
            c = T.prepare(mw, f'c{n}', 'auth')
            tr.off = len(c.writer.out)
            hang = False
            last_cmd = b''
            try:
                with T.Watchdog(8.0):
                    for i, cmd in enumerate(cmds):
                        if c.done:
                            break
                        last_cmd = cmd
                        for _ in range(max(1, T.logical_lines(b'm%d ' % i + cmd))):
                            tr.events.append({'e': 'in'})
                        mw.send(f'c{n}', b'm%d ' % i + cmd)
                        tr.absorb(c)
            except T.Hang:
                hang = True
            oc = c.outcome()
            tr.events.append({'e': 'end', 'closed': bool(c.done or c.writer.closed),
                              'exc': isinstance(oc, tuple), 'hang': hang, 'eof': False, 'peer': True})
            if not c.done and not hang:
                c.eof()
                mw.run(f'c{n}')
            if backend == 'maildir':
                mw.close()
            else:
                record_w = None
            exc_type = ''
            if c.done and not c.task.cancelled() and c.task.exception() is not None:
                e = c.task.exception()
                exc_type = f'{type(e).__module__}.{type(e).__name__}'
            traces.append(tr.events)
            meta.append({'kind': 'message', 'backend': backend, 'tokens': mt,
                         'last_cmd': last_cmd[:80].decode('latin1'), 'exc_type': exc_type,
                         'bytes': [body[:300].decode('latin1')],
                         'malformed': tr.malformed[1] if tr.malformed else None,
                         'malformed_ctx': tr.malformed[2].decode('latin1') if tr.malformed else None})
            if hang and backend == 'dict':
                w = None
    if w is not None:
        w.close()

    verdicts, vres = tlc.validate_total('Trace_Total.tla', 'Trace_Total.cfg', traces)
    if len(verdicts) != len(traces):
        run.machinery('trace validation incomplete: ' + (vres.error or vres.output[-800:]))
        return
    other = {}
    for i, ev in enumerate(traces, 1):
        line, clause = verdicts[i]
        m = meta[i - 1]
        mine = clause.startswith(prefix)
        run.count_exec((m['kind'], m.get('state'), m['tokens']),
                       nontrivial=any(t in bad_tokens or t.startswith(('HDR_', 'TEXT_', 'BARE', 'NOEOL', 'WSONLY'))
                                      for t in m['tokens']),
                       validated=not mine)
        if clause and not mine:
            other[clause] = other.get(clause, 0) + 1
        if mine:
            sig = known_sig(clause, m, ev)
            run.violation(f'{clause}: {m["kind"]} state={m.get("state")} tokens={m["tokens"]} '
                          f'bytes={m["bytes"]!r:.300}',
                          {'check': prefix[:3], 'meta': m, 'clause': clause, 'events': ev[-12:]}, sig)
    run.notes['clauses_of_other_properties_seen'] = other
    run.sample(meta[0])
    run.sample(meta[-1])
    return
