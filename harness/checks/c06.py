"""C06 - every input is answered.

TLC enumerates token lines (CmdTokens.tla: command word + <= 2 argument tokens,
grammar-shaped lines with at most one mutation, stored messages as line-token
sequences and as <header name, value class, frame> triples;
exhaustively; 3 by simulation) for IMAP and ManageSieve, and stored messages as
sequences of line tokens; the harness concretises each, sends it to the real
server in the not-authenticated / authenticated / selected state under a
watchdog (and, for messages, fetches them with every FETCH attribute and
searches them with every SEARCH key); TLC judges every connection transcript
against Trace_Total.tla."""

from __future__ import annotations

import random

from ..common import Run
from .. import tlc
from ..server import World
from .. import totality as T

RULE = (
        'executions = one connection per (token line, connection state) for every command line '
        'TLC enumerates from CmdTokens.tla (command word + <= 2 argument tokens exhaustively in '
        'thorough, seeded sample in quick; 3 tokens by -simulate), IMAP in 3 states and ManageSieve '
        'in 2, plus one connection per enumerated stored message that fetches it with every FETCH '
        'attribute and searches it with every SEARCH key, plus repeated-error connections; each run '
        'under a watchdog and followed by a NOOP on a second connection. non-trivial = the line '
        'contains at least one malformed / hostile token or the message a malformed line token; '
        'distinct = distinct (state, token line)')

FETCH_ATTS = [b'ALL', b'FULL', b'FAST', b'ENVELOPE', b'BODY', b'BODYSTRUCTURE', b'BODY.PEEK[]',
              b'BODY[HEADER]', b'BODY.PEEK[TEXT]', b'BODY.PEEK[1]', b'BODY.PEEK[1.MIME]',
              b'BODY.PEEK[1.1]', b'BODY.PEEK[2.HEADER]', b'BODY.PEEK[HEADER.FIELDS (SUBJECT X-TEST)]',
              b'BODY.PEEK[HEADER.FIELDS.NOT (SUBJECT)]', b'BODY.PEEK[]<0.5>', b'BODY.PEEK[]<100000.5>',
              b'RFC822', b'RFC822.HEADER', b'RFC822.TEXT', b'RFC822.SIZE', b'BINARY.PEEK[1]',
              b'BINARY.PEEK[]', b'BINARY.SIZE[1]', b'INTERNALDATE', b'EMAILID', b'THREADID', b'UID']
SEARCH_KEYS = [b'ALL', b'BODY hello', b'TEXT value', b'SUBJECT a', b'FROM x', b'TO c', b'CC c',
               b'BCC c', b'HEADER X-Test value', b'HEADER Subject ""', b'SENTBEFORE 1-Jan-2030',
               b'SENTON 1-Jan-2024', b'SENTSINCE 1-Jan-2000', b'BEFORE 1-Jan-2030',
               b'LARGER 10', b'SMALLER 100000', b'NOT BODY zzz', b'OR SUBJECT a TEXT b']


def duo_scenarios() -> list:
    """two connections on one mailbox: what one does while the other idles, to messages the
    other has not been told are gone, to the mailbox the other has selected.
    -> [(label, script)]"""
    gone = [(b'B', b'STORE 2 +FLAGS.SILENT (\\Deleted)'), (b'B', b'EXPUNGE')]
    out = []
    atts = FETCH_ATTS + [b'BODY[TEXT]<0.10>', b'BODY[1]', b'BODY[2]', b'BODY[2.HEADER]', b'BODY[2.TEXT]',
                         b'BINARY[1]', b'BINARY.SIZE[2]', b'RFC822.TEXT', b'(UID FLAGS INTERNALDATE)']
    for a in atts:
        a = a if a.startswith(b'(') or a in (b'ALL', b'FULL', b'FAST') else b'(' + a + b')'
        out.append(('expunged-fetch', gone + [(b'A', b'FETCH 2 ' + a), (b'A', b'UID FETCH 1:* ' + a),
                                              (b'A', b'FETCH 1:* ' + a), (b'A', b'NOOP'), (b'B', b'NOOP')]))
    for c in (b'STORE 2 +FLAGS (\\Seen)', b'STORE 1:* -FLAGS.SILENT (\\Deleted)', b'COPY 2 Sent',
              b'MOVE 2 Sent', b'COPY 1:* %BOX%', b'SEARCH 2', b'SEARCH TEXT hello', b'SEARCH SUBJECT two',
              b'UID SEARCH 1:* BODY in', b'UID EXPUNGE 1:*', b'EXPUNGE', b'UID STORE 1:* FLAGS (\\Deleted)',
              b'UID MOVE 1:* Sent', b'CHECK', b'CLOSE', b'EXAMINE %BOX%', b'STATUS %BOX% (MESSAGES RECENT UNSEEN)'):
        out.append(('expunged-cmd', gone + [(b'A', c), (b'A', b'NOOP'), (b'B', b'NOOP')]))
    others = [[(b'B', b'CLOSE'), (b'B', b'DELETE %BOX%')], [(b'B', b'CLOSE'), (b'B', b'RENAME %BOX% %BOX%r')],
              [(b'B', b'DELETE %BOX%')], [(b'B', b'RENAME %BOX% %BOX%r')],
              [(b'B', b'APPEND %BOX% {12+}\r\nSubject: n\r\n\r\n')], gone,
              [(b'B', b'STORE 1:* +FLAGS (\\Answered)')], [(b'B', b'CLOSE')], [(b'B', b'LOGOUT')],
              [(b'B', b'MOVE 1:* Sent')], [(b'B', b'CLOSE'), (b'B', b'DELETE %BOX%')],
              [(b'B', b'DELETE %BOX%'), (b'B', b'NOOP'), (b'B', b'STATUS INBOX (MESSAGES)')],
              [(b'B', b'RENAME %BOX% %BOX%r'), (b'B', b'CREATE %BOX%')]]
    for o in others:
        out.append(('idle-interference', [(b'A', b'IDLE')] + o + [(b'B', b'NOOP'), (b'A', b'DONE'),
                                                                   (b'A', b'NOOP'), (b'B', b'NOOP')]))
        out.append(('idle-interference', [(b'A', b'IDLE'), (b'B', b'IDLE')] + [(b'A', b'DONE')]
                    + [(b'A', x[1]) for x in o] + [(b'B', b'DONE'), (b'B', b'NOOP'), (b'A', b'NOOP')]))
    cmds = [b'FETCH 1 (UID)', b'FETCH 1:* (BODY[])', b'UID FETCH 1:* (FLAGS ENVELOPE)', b'STORE 1 +FLAGS (\\Seen)',
            b'SEARCH ALL', b'SEARCH TEXT hello', b'EXPUNGE', b'UID EXPUNGE 1:*', b'CHECK', b'NOOP',
            b'COPY 1 Sent', b'MOVE 1 Sent', b'CLOSE', b'IDLE', b'STATUS %BOX% (MESSAGES)', b'SELECT %BOX%',
            b'EXAMINE %BOX%', b'APPEND %BOX% {12+}\r\nSubject: n\r\n\r\n', b'DELETE %BOX%', b'LOGOUT',
            b'RENAME %BOX% %BOX%q', b'LIST "" *', b'SELECT INBOX']
    for pre, label in (([(b'B', b'CLOSE'), (b'B', b'DELETE %BOX%')], 'mailbox-deleted'),
                       ([(b'B', b'CLOSE'), (b'B', b'RENAME %BOX% %BOX%r')], 'mailbox-renamed')):
        for c in cmds:
            tail = [(b'A', b'DONE')] if c == b'IDLE' else []
            out.append((label, pre + [(b'A', c)] + tail + [(b'A', b'NOOP'), (b'B', b'NOOP')]))
    return [(lab, [(w.decode(), d) for w, d in sc]) for lab, sc in out]


def known_sig(clause, meta, tr):
    """narrow signatures of the open known findings"""
    import re as _re
    if clause == 'C06_NoServerBug' and meta.get('kind') == 'message' \
            and meta.get('backend') == 'maildir' and meta.get('last_cmd', '').startswith('APPEND'):
        return 'MaildirAppendReserialises'
    if clause == 'C07_WellFormed' and meta.get('malformed', '') and \
            meta['malformed'].startswith('atom expected') and \
            _re.search(r'\( "[A-Za-z0-9.+-]*"[ )]', meta.get('malformed_ctx') or ''):
        return 'EmptyMultipartBodystructure' 
    if meta['kind'] == 'message' and 'BINARY' in meta.get('last_cmd', '') \
            and meta.get('exc_type') in ('binascii.Error', 'builtins.NotImplementedError') \
            and clause in ('C06_NoException', 'C06_Answered', 'C06_ByeBeforeClose', 'C06_NoServerBug'):
        return 'BinaryFetchUndecodableCTE'
    return None


def _jitem(x):
    """a work item as JSON (bytes as latin-1 text, marked)"""
    if isinstance(x, (bytes, bytearray)):
        return {'b': bytes(x).decode('latin1')}
    if isinstance(x, (list, tuple)):
        return [_jitem(y) for y in x]
    return x


def _unjitem(x):
    if isinstance(x, dict) and set(x) == {'b'}:
        return x['b'].encode('latin1')
    if isinstance(x, list):
        return tuple(_unjitem(y) for y in x)
    return x


def replay(path: str, prefix: str = 'C06_') -> int:
    """Run the recorded work item (one connection, or a two-connection scenario) again on a
    fresh server and have TLC judge the new transcript(s)."""
    import json
    rec = json.load(open(path))
    item = rec['replay'].get('item')
    if item is None:
        print('this replay file carries no work item (written before replays of this check existed)')
        return 2
    item = _unjitem(item)
    if item[0] == 'duo':
        item = (item[0], item[1], [tuple(x) for x in item[2]])
    elif item[0] == 'line':
        item = item[:5] + (list(item[5]),) + item[6:]
    out = _execute([(0, item)])
    traces = [r[1] for r in sorted(out, key=lambda r: r[0])]
    verdicts, vres = tlc.validate_total('Trace_Total.tla', 'Trace_Total.cfg', traces)
    if len(verdicts) != len(traces):
        print('trace validation incomplete: ' + (vres.error or vres.output[-800:]))
        return 2
    status = 0
    for k, ev in enumerate(traces, 1):
        line, clause = verdicts[k]
        for e in ev[-14:]:
            print('  ', e)
        m = sorted(out, key=lambda r: r[0])[k - 1][2]
        if clause.startswith(prefix):
            sig = known_sig(clause, m, ev)
            print(f'REPRODUCED: {clause} at event {line}' + (f' (known finding {sig})' if sig else ''))
            status = 1
        else:
            print(f'connection {k}: NOT REPRODUCED (recorded: {rec["replay"].get("clause")}; '
                  f'now: {clause or "every clause holds"})')
    return status


def main(tier: str) -> int:
    run = Run('C06', tier)
    run.cov['rule'] = RULE
    campaign(run, tier, 'C06_')
    return run.finish()


def _execute(items):
    """run work items (one connection each) in this process -> [(idx, events, meta)]"""
    out = []
    w = None
    used = 0
    nworld = [0]

    def world():
        nonlocal w, used
        if w is None or used > 150:
            if w is not None:
                w.close()
            w = World('dict', demo=True, tls=False)
            # a long mailbox name for the wildcard patterns to chew on
            c0 = w.connect('setup')
            c0.take()
            w.login('setup')
            w.cmd('setup', b'CREATE ' + b'a' * 48 + b'/' + b'a' * 30)
            c0.eof()
            w.run('setup')
            nworld[0] += 1
            if nworld[0] % 2 == 0:
                # every second world: what is sent arrives in several segments
                w.segment_rng = random.Random(1000003 * nworld[0] + (items[0][0] if items else 0))
            used = 0
        used += 1
        return w

    def fin(idx, tr, hang, m):
        nonlocal w
        m['malformed'] = tr.malformed[1] if tr.malformed else None
        m['malformed_ctx'] = tr.malformed[2].decode('latin1') if tr.malformed else None
        out.append((idx, tr.events, m))
        if hang and w is not None:
            try:
                w.close()
            except BaseException:
                # the watchdog's exception, raised inside a server task, comes out of the
                # loop once more when the tasks waiting for that task are run
                pass
            w = None

    for idx, it in items:
        if it[0] == 'line':
            _k, label, service, st, tokens, chunks, repeat = it
            tr, hang = T.run_line(world(), st, chunks, service=service, name=f'c{idx}', repeat=repeat)
            ins = sum(1 for e in tr.events if e['e'] == 'in')
            outs = sum(1 for e in tr.events if e['e'] in ('tagged', 'cont'))
            if ins > outs and not tr.events[-1].get('closed'):
                hang = True     # a command still owes its answer (it may hold a lock): fresh world next
            fin(idx, tr, hang, {'kind': label, 'state': st, 'tokens': tokens,
                                'bytes': [c[:200].decode('latin1') for c in chunks]})
            continue
        if it[0] == 'duo':
            _k, label, script = it
            res = T.run_duo(world(), idx, script)
            for j, (tr, hang) in enumerate(res):
                fin(idx + j / 2, tr, hang and j == 1,
                    {'kind': 'duo-' + label, 'state': 'selected', 'tokens': ('AB'[j],) + tuple(
                        f'{w}: {d[:60].decode("latin1")}' for w, d in script),
                     'bytes': [f'{w}: {d[:80].decode("latin1")}' for w, d in script]})
            continue
        _k, backend, tokens, body = it
        mw = World(backend, demo=False) if backend == 'maildir' else world()
        # a mailbox of its own: SEARCH must meet this message only (blame)
        box = b'INBOX' if backend == 'maildir' else b'M%d' % idx
        cmds = [b'CREATE ' + box + b'\r\n'] if box != b'INBOX' else []
        cmds += [b'APPEND ' + box + b' {%d+}\r\n' % len(body) + body + b'\r\n',
                 b'SELECT ' + box + b'\r\n']
        cmds += [b'FETCH * (' + a + b')\r\n' for a in FETCH_ATTS]
        cmds += [b'SEARCH ' + k + b'\r\n' for k in SEARCH_KEYS]
        cmds += [b'UID SEARCH CHARSET UTF-8 TEXT {2+}\r\n\xc3\xa9\r\n',
                 b'COPY * Sent\r\n' if backend == 'dict' else b'NOOP\r\n']
        tr = T.Transcript()
        name = f'c{idx}'
        c = T.prepare(mw, name, 'auth')
        tr.off = len(c.writer.out)
        hang = False
        last_cmd = b''
        try:
            with T.Watchdog(8.0):
                for i, cmd in enumerate(cmds):
                    if c.done:
                        break
                    last_cmd = cmd
                    for _ in range(max(1, T.logical_lines(b'm%d ' % i + cmd))):
                        tr.events.append({'e': 'in'})
                    mw.send(name, b'm%d ' % i + cmd)
                    tr.absorb(c)
        except T.Hang:
            hang = True
        oc = c.outcome()
        tr.events.append({'e': 'end', 'closed': bool(c.done or c.writer.closed),
                          'exc': isinstance(oc, tuple), 'hang': hang, 'eof': False, 'peer': True})
        if not c.done and not hang:
            c.eof()
            mw.run(name)
        exc_type = ''
        if c.done and not c.task.cancelled() and c.task.exception() is not None:
            e = c.task.exception()
            exc_type = f'{type(e).__module__}.{type(e).__name__}'
        if backend == 'maildir':
            mw.close()
        fin(idx, tr, hang and backend == 'dict',
            {'kind': 'message', 'backend': backend, 'tokens': tokens,
             'last_cmd': last_cmd[:80].decode('latin1'), 'exc_type': exc_type,
             'bytes': [body[:300].decode('latin1')]})
    if w is not None:
        w.close()
    return out


def campaign(run, tier: str, prefix: str) -> None:
    import multiprocessing
    import os
    rng = random.Random(run.seed * 2654435761 % (1 << 31) + 6)
    quick = tier == 'quick'
    run.assumptions += [
        'the input quantifier is covered at TOKEN level only: arbitrary and mutated raw byte strings '
        'are not enumerable by a TLA+ model (DESIGN.md section 8)',
        'dict backend for IMAP token lines; stored-message half on dict and, for a slice, on maildir']
    dumps = {}
    for key, cfg, what in (('cmd', 'CmdTokens_cmd2.cfg', 'cmd tokens <= 2'),
                           ('tmpl', 'CmdTokens_tmpl.cfg', 'grammar-shaped lines, <= 1 mutation'),
                           ('sieve', 'CmdTokens_sieve2.cfg', 'sieve tokens <= 2'),
                           ('msg', 'CmdTokens_msg3.cfg', 'message line tokens <= 3'),
                           ('hdr', 'CmdTokens_hdr.cfg', 'messages as <header name, value class, frame>')):
        sts, res = tlc.dump_states('CmdTokens.tla', cfg)
        run.add_model(res, what)
        if not res.ok:
            run.machinery(f'CmdTokens enumeration failed ({cfg})')
            return
        dumps[key] = sts
    lines = sorted(tuple(s['line']) for s in dumps['cmd'] if s['line'])
    slines = sorted(tuple(s['line']) for s in dumps['sieve'] if s['line'])
    msgs = sorted(tuple(s['line']) for s in dumps['msg'] if s['line'])
    tl_legal = sorted(tuple(s['line']) for s in dumps['tmpl'] if s['mut'] == 'none')
    tl_mut = sorted({tuple(s['line']) for s in dumps['tmpl'] if s['mut'] != 'none'} - set(tl_legal))
    hdrs = sorted(tuple(s['line']) for s in dumps['hdr'])
    run.notes['enumerated'] = {'imap_lines': len(lines), 'template_lines': len(tl_legal),
                               'mutated_template_lines': len(tl_mut), 'sieve_lines': len(slines),
                               'messages': len(msgs), 'header_messages': len(hdrs)}
    if quick:
        for lst in (lines, slines, msgs):
            rng.shuffle(lst)
        # every grammar-shaped line and every one-mutation neighbour runs in the quick tier too
        lines, slines, msgs = lines[:1500], slines[:500], msgs[:60]
        top = [h for h in hdrs if h[2] == 'top']
        rest = [h for h in hdrs if h[2] in ('part', 'nested')]
        deep = [h for h in hdrs if h[2].startswith('deep')]
        rng.shuffle(rest)
        rng.shuffle(deep)
        obs = [h for h in hdrs if h[2] == 'obscolon' and (
            h[1] == 'plain' or T.hdr_variants((h[0], h[1], 'top')) > 1)]
        hdrs = top + obs + rest[:250] + deep[:40]
    else:
        run.cov['exhaustive'] = True
    items = []
    for label, lst in (('imap', lines), ('imap-template', tl_legal), ('imap-mutated-template', tl_mut)):
        for ln in lst:
            # grammar-shaped lines: every representative of every token is used
            for var in ([None] if label == 'imap' else range(T.variants(ln))):
                for st in T.STATES:
                    items.append(('line', label, 'imap', st, ln, T.concretise_line(ln, rng, var), 1))
    for ln in slines:
        for st in ('nonauth', 'auth'):
            items.append(('line', 'sieve', 'sieve', st, ln, T.concretise_line(ln, rng), 1))
    # repeated errors on one connection (the consecutive-BAD limit)
    for ln in [('BOGUS',), ('FETCH', 'SEQSET_BAD'), ('SELECT', 'QUOTED_OPEN'), ('LOGIN', 'ATOM')]:
        for st in T.STATES:
            items.append(('line', 'imap-repeat', 'imap', st, ln, T.concretise_line(ln, rng), 7))
    for backend in ('dict', 'maildir'):
        # maildir: a slice (every message is a scratch store of its own)
        for mt in (msgs if backend == 'dict' else msgs[::6] if quick else msgs[::8]):
            items.append(('message', backend, mt, T.concretise_msg(mt, rng)))
        for ht in (hdrs if backend == 'dict' else hdrs[::12] if quick else hdrs[::3]):
            for var in ([None] if backend != 'dict' or T.hdr_variants(ht) == 1 else range(T.hdr_variants(ht))):
                items.append(('message', backend, ht, T.concretise_hdr(ht, rng, var)))
    duos = duo_scenarios()
    items += [('duo', lab, sc) for lab, sc in duos]
    run.notes['two_connection_scenarios'] = len(duos)
    indexed = list(enumerate(items))
    nproc = max(1, min(int(os.environ.get('VERIF_C06_WORKERS', '8')), os.cpu_count() or 1))
    parts = [indexed[k::nproc] for k in range(nproc)]
    if nproc > 1:
        with multiprocessing.get_context('fork').Pool(nproc) as pool:
            results = pool.map(_execute, parts)
    else:
        results = [_execute(parts[0])]
    flat = sorted((r for part in results for r in part), key=lambda r: r[0])
    if len(flat) != len(items) + len(duos):
        run.machinery(f'{len(items) + len(duos) - len(flat)} executions lost in the workers')
        return
    traces = [r[1] for r in flat]
    meta = [r[2] for r in flat]
    bad_tokens = {'QUOTED_OPEN', 'LIT_HUGE', 'LIT_BAD', 'LIST_OPEN', 'LIST_DEEP', 'NUM_HUGE',
                  'SEQSET_BAD', 'FLAG_BAD', 'MBX_UTF7_OPEN', 'MBX_AMP', 'EIGHTBIT', 'NULBYTE',
                  'BAD_UTF8', 'DATE_BAD', 'SECTION_OPEN', 'HEADERKEY_8BIT', 'NOSPACE', 'TRAILSP',
                  'BARELF', 'LONG', 'SCRIPT_BAD', 'BOGUS', 'NUM_DIGITS', 'LIT_DIGITS', 'CHARSET_ODD',
                  'CHARSET_8BIT', 'ZONE_ODD', 'SECTION_ODDNAME'}
    plain_vals = {'plain', 'addr1', 'date_ok', 'msgid', 'disp', 'cte_b64', 'cte_qp', 'ct_multi'}

    verdicts, vres = tlc.validate_total('Trace_Total.tla', 'Trace_Total.cfg', traces)
    if len(verdicts) != len(traces):
        run.machinery('trace validation incomplete: ' + (vres.error or vres.output[-800:]))
        return
    other = {}
    for i, ev in enumerate(traces, 1):
        line, clause = verdicts[i]
        m = meta[i - 1]
        mine = clause.startswith(prefix)
        toks = m['tokens']
        if m['kind'] == 'message' and len(toks) == 3 and toks[2] in ('top', 'part', 'nested', 'deepmulti', 'deeprfc', 'obscolon'):
            nontriv = toks[1] not in plain_vals
        else:
            nontriv = m['kind'] == 'imap-mutated-template' or m['kind'].startswith('duo-') or any(
                t in bad_tokens or t.startswith(('HDR_', 'TEXT_', 'BARE', 'NOEOL', 'WSONLY')) for t in toks)
        run.count_exec((m['kind'], m.get('state'), toks), nontrivial=nontriv, validated=not mine)
        if clause and not mine:
            other[clause] = other.get(clause, 0) + 1
        if mine:
            sig = known_sig(clause, m, ev)
            run.violation(f'{clause}: {m["kind"]} state={m.get("state")} tokens={m["tokens"]} '
                          f'bytes={m["bytes"]!r:.300}',
                          {'check': prefix[:3], 'meta': m, 'clause': clause, 'events': ev[-12:],
                           'item': _jitem(items[int(flat[i - 1][0])])}, sig)
    run.notes['clauses_of_other_properties_seen'] = other
    run.sample(meta[0])
    run.sample(meta[-1])
    return
