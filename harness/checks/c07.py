"""C07 - every response is well-formed IMAP.

1. WireResp.tla (String.build / QuotedString serialisation over byte classes with
   the grammar's quoted-string acceptor) checked by TLC; every enumerated value is
   concretised and pushed through the REAL serialisers; the bytes must parse under
   the strict independent grammar to the same value (violation) and take the form
   the model predicts (drift).
2. Echo paths end to end: the same values as mailbox names (CREATE -> LIST / LSUB /
   STATUS), header values (-> ENVELOPE), MIME parameter values and nesting shapes
   (-> BODYSTRUCTURE / BODY), keywords on maildir (-> FLAGS), search strings.
3. The strict parser is on the path of every execution of the C06 campaign
   (token lines in three states, stored messages x every FETCH attribute): clause
   C07_WellFormed of Trace_Total.tla.
"""

from __future__ import annotations

import random
import re

from ..common import Run
from .. import tlc
from ..server import World
from .. import respparse as rp
from . import c06

REP = {'CH': [b'a', b'Z', b'7', b'(', b'{', b'%', b'*', b']', b'~'], 'SP': [b' '], 'DQ': [b'"'],
       'BS': [b'\\'], 'CR': [b'\r'], 'LF': [b'\n'], 'NUL': [b'\x00'], 'HI': [b'\xe9', b'\xff', b'\xc3\xa9']}


def concretise(v, long, rng) -> bytes:
    b = b''.join(rng.choice(REP[c]) for c in v)
    if long and b:
        b = b + b'x' * (64 - len(b) + rng.randint(0, 3))
    return b


def parse_string(data: bytes, astring: bool = False):
    s = rp._S(data + b'\r\n')
    val = s.astring() if astring else s.nstring()
    if s.i != len(data):
        raise rp.Malformed(s.i, 'trailing bytes after the string')
    return val


def serialiser_part(run, rng, quick):
    from pymap.parsing.primitives import String
    from pymap.parsing.specials import AString, Mailbox
    states, res = tlc.dump_states('WireResp.tla', 'WireResp_ideal.cfg')
    run.add_model(res, 'WireResp ideal')
    if not res.ok:
        run.machinery(f'WireResp Ideal configuration fails: {res.violated or res.error}')
        return
    n = 0
    for st in states:
        v, long = tuple(st['v']), bool(st['long'])
        if long and not v:
            continue
        for _rep in range(1 if quick else 3):
            val = concretise(v, long, rng)
            want_form = 'quoted' if (not val or (not long and not ({'LF', 'NUL', 'CR', 'HI'} & set(v)))) \
                else 'literal'
            for how, ser in (('String.build(bytes)', lambda x: bytes(String.build(x))),
                             ('AString', lambda x: bytes(AString(x))),):
                if how == 'AString' and ({'CR', 'LF', 'NUL', 'HI'} & set(v)):
                    # AString is only ever handed modified-UTF-7 output (printable ASCII)
                    continue
                n += 1
                try:
                    wire = ser(val)
                    got = parse_string(wire, astring=(how == 'AString'))
                except rp.Malformed as exc:
                    run.count_exec((how, v, long), nontrivial=True, validated=False)
                    run.violation(f'{how} of {val!r} wrote {wire!r}: {exc.why}',
                                  {'check': 'C07', 'part': 'serialiser', 'how': how,
                                   'value': val.decode('latin1'), 'classes': list(v), 'long': long},
                                  None)
                    continue
                except Exception as exc:       # AString of odd values may legitimately refuse
                    run.drift.append({'part': 'serialiser', 'how': how, 'value': repr(val), 'exc': repr(exc)})
                    continue
                gotv = b'' if got is rp.NIL else got.value
                form = 'quoted' if isinstance(got, rp.Quoted) else 'literal' if isinstance(got, rp.Literal) else 'atom'
                ok = gotv == val
                run.count_exec((how, v, long), nontrivial=bool({'DQ', 'BS', 'CR', 'LF', 'NUL', 'HI'} & set(v)),
                               validated=ok)
                if not ok:
                    run.violation(f'{how} of {val!r} wrote {wire!r} which parses to {gotv!r}',
                                  {'check': 'C07', 'part': 'serialiser', 'how': how,
                                   'value': val.decode('latin1'), 'classes': list(v), 'long': long}, None)
                elif how.startswith('String') and form != want_form:
                    run.drift.append({'part': 'serialiser', 'value': repr(val), 'model': want_form, 'code': form})
    run.notes['serialiser_values'] = n


def lit(b: bytes) -> bytes:
    return b'{%d+}\r\n' % len(b) + b


def _utf7(name: str) -> bytes:     # independent modified UTF-7 encoder
    out = bytearray()
    run_ = ''
    for ch in name + '\0END':
        if ch != '\0' and not (0x20 <= ord(ch) <= 0x7e):
            run_ += ch
            continue
        if run_:
            import base64
            out += b'&' + base64.b64encode(run_.encode('utf-16-be')).rstrip(b'=').replace(b'/', b',') + b'-'
            run_ = ''
        if ch == '\0':
            break
        out += b'&-' if ch == '&' else ch.encode()
    return bytes(out)


def _mailbox_cmds(name: bytes) -> tuple:
    return (b'CREATE ' + lit(name), b'LIST "" *', b'LSUB "" *', b'SUBSCRIBE ' + lit(name),
            b'LSUB "" *', b'STATUS ' + lit(name) + b' (MESSAGES UIDNEXT)',
            b'SELECT ' + lit(name), b'DELETE ' + lit(name))


def _header_cmds(val: bytes, hv: bytes) -> tuple:
    msg = (b'Subject: ' + hv + b'\r\nFrom: "' + hv.replace(b'"', b'') + b'" <a@b>\r\nTo: ' + hv +
           b'\r\nMessage-Id: ' + hv + b'\r\nIn-Reply-To: ' + hv +
           b'\r\nContent-Type: text/plain; charset="' + hv.replace(b'"', b'') + b'"; name=' + hv +
           b'\r\nContent-Disposition: attachment; filename="' + hv.replace(b'"', b'') +
           b'"\r\nContent-Description: ' + hv + b'\r\nContent-Id: ' + hv +
           b'\r\nContent-Language: ' + hv + b'\r\nContent-Location: ' + hv + b'\r\n\r\nbody\r\n')
    return (b'APPEND INBOX ' + lit(msg), b'SELECT INBOX',
            b'FETCH * (ENVELOPE BODYSTRUCTURE BODY)', b'FETCH * (BODY.PEEK[HEADER.FIELDS (SUBJECT)])',
            b'SEARCH SUBJECT ' + lit(val.replace(b'\x00', b'')) if val.replace(b'\x00', b'') else b'NOOP',
            b'STORE * +FLAGS (\\Deleted)', b'CLOSE')


def _shape_cmds(msg: bytes) -> tuple:
    return (b'APPEND INBOX ' + lit(msg), b'SELECT INBOX', b'FETCH * (BODYSTRUCTURE BODY ENVELOPE)',
            b'FETCH * (BODY.PEEK[1] BODY.PEEK[1.MIME] BODY.PEEK[2.HEADER] BODY.PEEK[2.1.1])', b'CLOSE')


def replay(path: str) -> int:
    """Repeat the recorded execution: a campaign work item (judged by TLC as in C06), a value
    pushed through a serialiser, or a value / message echoed by a fresh server."""
    import json
    rec = json.load(open(path))
    rep = rec['replay']
    if rep.get('item') is not None:
        return c06.replay(path, 'C07_')
    part = rep.get('part')
    if part == 'serialiser':
        from pymap.parsing.primitives import String
        from pymap.parsing.specials import AString
        val = rep['value'].encode('latin1')
        try:
            wire = bytes(String.build(val)) if rep['how'].startswith('String') else bytes(AString(val))
            got = parse_string(wire, astring=rep['how'] == 'AString')
        except rp.Malformed as exc:
            print(f'REPRODUCED: {rep["how"]} of {val!r} wrote bytes the grammar rejects: {exc.why}')
            return 1
        gotv = b'' if got is rp.NIL else got.value
        print(f'{rep["how"]} of {val!r} wrote {wire!r} -> {gotv!r}')
        if gotv != val:
            print('REPRODUCED: the value does not come back')
            return 1
        print('NOT REPRODUCED')
        return 0
    if part in ('echo', 'mime-shape'):
        backend = rep.get('backend', 'dict')
        w = World(backend, demo=False)
        w.connect('a').take()
        w.login('a')
        if part == 'mime-shape':
            cmds = _shape_cmds(rep['message'].encode('latin1'))
        else:
            val = rep['value'].encode('latin1')
            if rep.get('slot') == 'mailbox':
                import codecs  # noqa: F401
                cmds = _mailbox_cmds(_utf7(val.decode('latin1')))
            else:
                cmds = _header_cmds(val, val.replace(b'\n', b'\n '))
        status = 0
        for cmd in cmds:
            out = w.cmd('a', cmd)
            bad = rp.check_wellformed(out)
            print(cmd[:70], '->', out[-200:])
            if bad:
                pos, why = bad
                print(f'REPRODUCED: {why}: ...{out[max(0, pos - 50):pos + 50]!r}')
                status = 1
                break
            if w.conns['a'].done:
                break
        w.close()
        if not status:
            print('NOT REPRODUCED')
        return status
    print('unknown replay payload')
    return 2


def check_out(run, out: bytes, what: str, replay: dict, sig=None) -> bool:
    bad = rp.check_wellformed(out)
    if bad:
        pos, why = bad
        if sig is None and why.startswith('atom expected') and re.search(
                rb'BODY(STRUCTURE)? \( "[^"]*" ', out[max(0, pos - 40):pos + 20]) \
                and replay.get('part') in ('mime-shape', 'echo'):
            # a multipart body structure with no nested body: '( "mixed" ...'
            sig = 'EmptyMultipartBodystructure' 
        run.violation(f'{what}: {why}: ...{out[max(0, pos - 50):pos + 50]!r}', replay, sig)
        return False
    return True


def echo_part(run, rng, quick):
    """client-chosen data echoed back"""
    states, _res = tlc.dump_states('WireResp.tla', 'WireResp_ideal.cfg')
    vals = []
    for st in states:
        v, long = tuple(st['v']), bool(st['long'])
        if v:
            vals.append((v, long, concretise(v, long, rng)))
    rng.shuffle(vals)
    vals = vals[:250 if quick else 4000]
    import codecs

    utf7 = _utf7

    for backend in ('dict', 'maildir'):
        if backend == 'maildir' and quick:
            sample = vals[::6]
        else:
            sample = vals
        w = World(backend, demo=False)
        w.connect('a').take()
        w.login('a')
        used = 0
        for v, long, val in sample:
            used += 1
            if used % 60 == 0:
                w.close()
                w = World(backend, demo=False)
                w.connect('a').take()
                w.login('a')
            if w.conns['a'].done:
                w.close()
                w = World(backend, demo=False)
                w.connect('a').take()
                w.login('a')
            rep = {'check': 'C07', 'part': 'echo', 'backend': backend, 'classes': list(v), 'long': long,
                   'value': val.decode('latin1')}
            nt = bool({'DQ', 'BS', 'CR', 'LF', 'NUL', 'HI'} & set(v))
            # (1) mailbox name
            if 'NUL' not in v and not (backend == 'maildir' and ({'CR', 'LF'} & set(v) or long)):
                name = utf7(val.decode('latin1'))
                ok = True
                for cmd in _mailbox_cmds(name):
                    out = w.cmd('a', cmd)
                    ok = check_out(run, out, f'{backend} mailbox name {val!r} echoed by {cmd[:12]!r}',
                                   dict(rep, slot='mailbox', cmd=cmd.decode('latin1'))) and ok
                    if w.conns['a'].done:
                        break
                w.cmd('a', b'CLOSE') if not w.conns['a'].done else None
                run.count_exec(('mailbox', backend, v, long), nontrivial=nt, validated=ok)
            if w.conns['a'].done:
                continue
            # (2) header values -> ENVELOPE; MIME parameter values -> BODYSTRUCTURE
            hv = val.replace(b'\n', b'\n ')       # keep it one (folded) header
            if b'\x00' in hv:
                continue
            ok = True
            for cmd in _header_cmds(val, hv):
                out = w.cmd('a', cmd)
                ok = check_out(run, out, f'{backend} header value {val!r} echoed by {cmd[:24]!r}',
                               dict(rep, slot='header', cmd=cmd[:60].decode('latin1'))) and ok
                if w.conns['a'].done:
                    break
            run.count_exec(('header', backend, v, long), nontrivial=nt, validated=ok)
        w.close()
    # MIME nesting shapes
    shapes = []
    for depth in (1, 2, 3, 6):
        inner = b'Content-Type: text/plain\r\n\r\nleaf\r\n'
        for d in range(depth):
            bnd = b'B%d' % d
            inner = (b'Content-Type: multipart/mixed; boundary="' + bnd + b'"\r\n\r\n--' + bnd + b'\r\n' + inner +
                     b'\r\n--' + bnd + b'\r\nContent-Type: message/rfc822\r\n\r\nSubject: in\r\n\r\nx\r\n--' +
                     bnd + b'--\r\n')
        shapes.append(inner)
    shapes += [b'Content-Type: multipart/mixed; boundary="E"\r\n\r\n--E--\r\n',
               b'Content-Type: multipart/mixed; boundary="E"\r\n\r\n',
               b'Content-Type: message/rfc822\r\n\r\n',
               b'Content-Type: multipart/alternative; boundary=""\r\n\r\n----\r\n\r\n------\r\n',
               b'\r\n', b'']
    w = World('dict', demo=False)
    w.connect('a').take()
    w.login('a')
    for i, msg in enumerate(shapes):
        ok = True
        for cmd in _shape_cmds(msg):
            out = w.cmd('a', cmd)
            ok = check_out(run, out, f'MIME shape {i} echoed by {cmd[:30]!r}',
                           {'check': 'C07', 'part': 'mime-shape', 'message': msg.decode('latin1'),
                            'cmd': cmd[:60].decode('latin1')}) and ok
            if w.conns['a'].done:
                w.close()
                w = World('dict', demo=False)
                w.connect('a').take()
                w.login('a')
                break
        run.count_exec(('mime-shape', i), nontrivial=True, validated=ok)
    w.close()


def main(tier: str) -> int:
    run = Run('C07', tier)
    rng = random.Random(run.seed * 48271 + 7)
    quick = tier == 'quick'
    run.cov['rule'] = (
        'executions = (i) every value TLC enumerates from WireResp.tla (byte classes CH SP DQ BS CR LF '
        'NUL HI, length <= 4, short/long) concretised and pushed through the real serialisers, (ii) '
        'a seeded sample of those values used as mailbox name (CREATE/LIST/LSUB/SUBSCRIBE/STATUS/'
        'SELECT/DELETE) and in ten header / MIME-parameter slots (ENVELOPE, BODYSTRUCTURE, BODY, '
        'HEADER.FIELDS, SEARCH) on dict and maildir, MIME nesting shapes, (iii) every connection '
        'transcript of the C06 token campaign; all output parsed by the strict independent grammar. '
        'non-trivial = the value contains a quote, backslash, CR, LF, NUL or 8-bit byte / the line a '
        'hostile token; distinct = distinct (slot, backend, class string)')
    run.assumptions += [
        'the strict grammar in harness/respparse.py (RFC 3501 section 9 + LITERAL+, UIDPLUS, MOVE, '
        'BINARY, OBJECTID, ID) is the oracle; resp-text is held to 7-bit TEXT-CHAR',
        'values longer than 4 classes / 64 KiB are sampled only']
    serialiser_part(run, rng, quick)
    if not run.machinery_errors:
        echo_part(run, rng, quick)
        c06.campaign(run, tier, 'C07_')
    return run.finish()
