"""C18 - how an argument is spelled does not change what it means.

TLC checks four transcriptions (spec/WireString.tla, WireUtf7.tla,
WireUtf7Dec.tla, WireSeqSet.tla) with the laws as invariants (Ideal: with the
described repairs the laws hold for every bounded value; as-is: they fail
exactly under the named deviations = known/C18.json ids).  Every enumerated
abstract value is taken out of TLC (state dump) with the model's prediction,
concretised (>= 2 representatives, VERIF_SEED) and pushed through the real
code:

  strings   - each legal spelling (atom / quoted / {n} / {n+} / ~{n+}) x each
              suffix through AString.parse / String.parse (the synchronising
              literal through the ParsingState continuation), value and rest
              compared with the law; bytes(parsed) re-parsed.
  siblings  - the same CREATE / STATUS+SELECT / LOGIN / SEARCH / FETCH
              HEADER.FIELDS command sent once per spelling of its string
              argument ({n} through the real continuation loop) with random
              letter case of the command word to fresh identical servers;
              transcripts compared modulo tag and random identifiers.
  utf7      - modutf7_encode on every enumerated name, the result decoded
              with an independent strict decoder and with modutf7_decode under
              a watchdog; CREATE / LIST / STATUS echo on the real server.
  decode    - termination of modutf7_decode on every token string (TLC
              liveness; the real function under SIGALRM).
  seqset / flag / date - parse . serialise . parse.
"""

from __future__ import annotations

import base64
import random
import re
import zlib
from datetime import datetime

from ..common import Run
from .. import tlc
from .. import respparse as rp
from ..server import World, REPO  # noqa: F401
from . import wire_common as wc

from pymap.parsing import Params  # noqa: E402
from pymap.parsing.state import ParsingState  # noqa: E402
from pymap.parsing.exceptions import NotParseable  # noqa: E402
from pymap.parsing.primitives import String  # noqa: E402
from pymap.parsing.specials import AString, SequenceSet, Flag, DateTime  # noqa: E402
from pymap.parsing.specials.sequenceset import MaxValue  # noqa: E402
from pymap.parsing.modutf7 import modutf7_encode, modutf7_decode  # noqa: E402


# --------------------------------------------------------------------------
# independent modified UTF-7 (RFC 3501 5.1.3), strict


class BadUtf7(Exception):
    pass


_B64 = b'ABCDEFGHIJKLMNOPQRSTUVWXYZabcdefghijklmnopqrstuvwxyz0123456789+,'


def ref_decode(data: bytes) -> str:
    out = []
    i = 0
    n = len(data)
    while i < n:
        c = data[i]
        if c == 0x26:
            j = data.find(b'-', i + 1)
            if j < 0:
                raise BadUtf7('unterminated shift')
            txt = data[i + 1:j]
            if not txt:
                out.append('&')
            else:
                if any(x not in _B64 for x in txt):
                    raise BadUtf7('not base64 inside a shift')
                pad = b'=' * (-len(txt) % 4)
                try:
                    raw = base64.b64decode(txt.replace(b',', b'/') + pad, validate=True)
                except Exception as exc:
                    raise BadUtf7(str(exc))
                if len(raw) % 2:
                    # superfluous bits must be zero and fewer than 6... a
                    # trailing odd byte is never produced by a conforming encoder
                    raise BadUtf7('odd number of UTF-16 octets')
                s = raw.decode('utf-16-be', 'strict')
                if any(0x20 <= ord(ch) <= 0x7e for ch in s):
                    raise BadUtf7('printable US-ASCII inside a shift')
                out.append(s)
            i = j + 1
        elif 0x20 <= c <= 0x7e:
            out.append(chr(c))
            i += 1
        else:
            raise BadUtf7(f'byte {c:#x} outside a shift')
    return ''.join(out)


def ref_encode(name: str) -> bytes:
    out = bytearray()
    run = []

    def flush():
        if run:
            raw = ''.join(run).encode('utf-16-be')
            out.extend(b'&' + base64.b64encode(raw).rstrip(b'=').replace(b'/', b',') + b'-')
            run.clear()
    for ch in name:
        if 0x20 <= ord(ch) <= 0x7e:
            flush()
            out.extend(b'&-' if ch == '&' else ch.encode())
        else:
            run.append(ch)
    flush()
    return bytes(out)


# --------------------------------------------------------------------------
# concretisation

VAL_REPS = {
    'CH': [b'a', b'Z', b'7', b'.', b'_', b'+', b'='],
    'SP': [b' '], 'DQ': [b'"'], 'BS': [b'\\'],
    'CR': [b'\r'], 'LF': [b'\n'], 'NUL': [b'\x00'],
    'HI': [b'\xe9', b'\x80', b'\xff'],
    'CTL': [b'\x01', b'\t', b'\x7f'],
    'LP': [b'(', b')'], 'LB': [b'{'], 'RC': [b'}'], 'RB': [b']'],
    'WC': [b'%', b'*'],
    'LPT': [b'{3+}', b'{0+}', b'{12+}'],
}
KINDS = ['atom', 'quoted', 'lit', 'litplus', 'lit8plus']
SUFFIXES = [b' X', b'\r\n', b')']


def conc_val(classes, rng: random.Random | None) -> bytes:
    if rng is None:
        return b''.join(VAL_REPS[c][0] for c in classes)
    return b''.join(rng.choice(VAL_REPS[c]) for c in classes)


def spell(value: bytes, kind: str) -> bytes:
    if kind == 'atom':
        return value
    if kind == 'quoted':
        return b'"' + value.replace(b'\\', b'\\\\').replace(b'"', b'\\"') + b'"'
    if kind == 'lit':
        return b'{%d}\r\n' % len(value) + value
    if kind == 'litplus':
        return b'{%d+}\r\n' % len(value) + value
    if kind == 'lit8plus':
        return b'~{%d+}\r\n' % len(value) + value
    raise ValueError(kind)


def real_parse(parser, wire: bytes):
    """-> ('ok', value, rest, obj) | ('fail', reason).  A buffer that ends in a
    synchronising literal header is continued from the ParsingState, as
    IMAPConnection.read_command does."""
    m = re.compile(rb'~?\{\d+\}\r\n').search(wire)
    if m and not wire.startswith((b'"',)) and m.start() == 0:
        head, cont = wire[:m.end()], wire[m.end():]
        params = Params(ParsingState(continuations=[memoryview(cont)]))
        buf = memoryview(head)
    else:
        params = Params()
        buf = memoryview(wire)
    try:
        obj, rest = parser.parse(buf, params)
    except NotParseable as exc:
        return ('fail', type(exc).__name__)
    except Exception as exc:     # ParsingInterrupt etc.
        return ('fail', repr(exc))
    return ('ok', bytes(obj.value), bytes(rest), obj)


# --------------------------------------------------------------------------
# 1. strings, direct


def strings_direct(states: list, rng: random.Random):
    """-> (n_exec, failures, drift).  failures: (what, sig, replay)"""
    fails, drift = [], []
    n = 0
    for st in states:
        classes = tuple(st['v'])
        pred = st['pred']
        for value in {conc_val(classes, None), conc_val(classes, rng)}:
            for kind in KINDS:
                p = pred[kind]
                if not p['legal']:
                    continue
                parsers = [AString] if kind == 'atom' else [String] if kind == 'lit8plus' \
                    else [AString, String]
                for parser in parsers:
                    parse_ok = True
                    reparse_ok = True
                    first_bad = None
                    for suf in SUFFIXES:
                        wire = spell(value, kind) + suf
                        r = real_parse(parser, wire)
                        n += 1
                        if not (r[0] == 'ok' and r[1] == value and r[2] == suf):
                            parse_ok = False
                            first_bad = first_bad or ('parse', wire, r[:3])
                            continue
                        raw = bytes(r[3])
                        r2 = real_parse(parser, raw)
                        if not (r2[0] == 'ok' and r2[1] == value and r2[2] == b''):
                            reparse_ok = False
                            first_bad = first_bad or ('reparse', wire, raw, r2[:3])
                    if not parse_ok:
                        sig = None
                        if kind == 'atom' and not p['parse'] and b'}' in value:
                            sig = 'AtomCloseBraceRejected'
                        fails.append((
                            f'{parser.__name__}.parse of the {kind} spelling {first_bad[1]!r} of '
                            f'{value!r} gives {first_bad[2]!r}', sig,
                            {'check': 'C18', 'part': 'string', 'value_hex': value.hex(),
                             'kind': kind, 'parser': parser.__name__}))
                    elif not reparse_ok:
                        sig = None
                        if kind == 'quoted' and not p['reparse'] \
                                and first_bad[2] == first_bad[1][:len(spell(value, kind)) + 1]:
                            sig = 'QuotedRawStrayByte'
                        fails.append((
                            f'bytes({parser.__name__}.parse({first_bad[1]!r})) = {first_bad[2]!r} '
                            f're-parses to {first_bad[3]!r}, not to ({value!r}, b"")', sig,
                            {'check': 'C18', 'part': 'string-reparse', 'value_hex': value.hex(),
                             'kind': kind, 'parser': parser.__name__}))
                    if parser is parsers[0] and (parse_ok != p['parse']
                                              or (parse_ok and reparse_ok != p['reparse'])):
                        drift.append({'what': 'string parse', 'value': repr(value), 'kind': kind,
                                      'model': [p['parse'], p['reparse']],
                                      'real': [parse_ok, reparse_ok]})
    return n, fails, drift


# --------------------------------------------------------------------------
# 2. sibling commands on the real server


_NORM = [(re.compile(rb'\[MAILBOXID \([^)]*\)\]'), b'[MAILBOXID (X)]'),
         (re.compile(rb'UIDVALIDITY \d+'), b'UIDVALIDITY X'),
         (re.compile(rb'APPENDUID \d+'), b'APPENDUID X'),
         (re.compile(rb'COPYUID \d+'), b'COPYUID X')]


def _rand_case(word: bytes, rng: random.Random) -> bytes:
    return bytes(c ^ 0x20 if 0x41 <= (c & ~0x20) <= 0x5a and rng.random() < 0.5 else c
                 for c in word)


def _send_cmd(w: World, c, tag: bytes, parts: list) -> bytes:
    """parts: [bytes | ('arg', value, kind)] joined without separators.  A
    synchronising literal waits for the server's continuation request."""
    out = b''
    buf = tag + b' '
    for p in parts:
        if isinstance(p, tuple):
            _a, value, kind = p
            if kind == 'lit':
                buf += b'{%d}\r\n' % len(value)
                with wc.watchdog(20):
                    w.send('a', buf)
                got = c.take()
                out += got
                if not got.startswith(b'+'):
                    return out        # refused before the literal
                buf = value
            else:
                buf += spell(value, kind)
        else:
            buf += p
    with wc.watchdog(20):
        w.send('a', buf + b'\r\n')
        w.run_to_completion('a')
    return out + c.take()


TEMPLATES = ['create', 'status', 'login-user', 'login-pass', 'search', 'hdrfields']
# commands with TWO string arguments: every pair of spellings (an earlier {n} with a
# later {n+}, ...), kind = 'k1|k2' (k1: the enumerated value, k2: the fixed companion)
PAIR_TEMPLATES = ['rename-src', 'rename-dst', 'login-both', 'list-pair', 'search-pair']
ALL_KINDS = ('atom', 'quoted', 'lit', 'litplus')


def sibling_transcript(template: str, value: bytes, kind: str, rng: random.Random) -> list:
    """One fresh server, the command with `value` spelled as `kind`, then
    probes.  -> normalised transcript (list of byte strings)."""
    demo = template in ('search', 'hdrfields', 'search-pair')
    w = World('dict', demo=demo, users={'user1': 'pass1'})
    if rng.random() < 0.4:
        w.segment_rng = random.Random(rng.randrange(1 << 30))   # delivery in several segments
    tr = []
    try:
        c = w.connect('a')
        c.take()
        arg = ('arg', value, kind)
        t = 0

        def go(parts):
            nonlocal t
            t += 1
            raw = _send_cmd(w, c, b't%d' % t, parts)
            for rx, sub in _NORM:
                raw = rx.sub(sub, raw)
            # the continuation request belongs to the synchronising spelling
            while raw.startswith(b'+ '):
                raw = raw[raw.index(b'\r\n') + 2:]
            tr.append(raw)
            return raw
        cw = lambda word: _rand_case(word, rng)   # noqa: E731
        if template in PAIR_TEMPLATES:
            k1, k2 = kind.split('|')
            arg = ('arg', value, k1)
            if template == 'login-both':
                go([cw(b'LOGIN'), b' ', ('arg', b'user1', k1), b' ', ('arg', b'pass1', k2)])
                go([b'LIST "" *'])
            else:
                w.login('a')
                if template == 'rename-src':
                    go([b'CREATE ', ('arg', value, 'lit')])
                    tr.pop()
                    go([cw(b'RENAME'), b' ', arg, b' ', ('arg', b'dest', k2)])
                elif template == 'rename-dst':
                    go([b'CREATE src'])
                    tr.pop()
                    go([cw(b'RENAME'), b' ', ('arg', b'src', k2), b' ', arg])
                elif template == 'list-pair':
                    go([b'CREATE ', ('arg', value, 'lit')])
                    tr.pop()
                    go([cw(b'LIST'), b' ', ('arg', b'', 'quoted' if k2 == 'atom' else k2), b' ', arg])
                else:
                    go([b'SELECT INBOX'])
                    tr.pop()
                    go([cw(b'SEARCH'), b' ', cw(b'FROM'), b' ', ('arg', b'friend', k2), b' ',
                        cw(b'SUBJECT'), b' ', arg])
                go([b'LIST "" *'])
            go([b'NOOP'])
        elif template == 'login-user':
            go([cw(b'LOGIN'), b' ', arg, b' pass1'])
            go([b'NOOP'])
        elif template == 'login-pass':
            go([cw(b'LOGIN'), b' user1 ', arg])
            go([b'NOOP'])
        else:
            w.login('a')
            if template == 'create':
                go([cw(b'CREATE'), b' ', arg])
                go([b'LIST "" *'])
                go([b'NOOP'])
            elif template == 'status':
                go([b'CREATE ', ('arg', value, 'lit')])
                tr.pop()
                go([cw(b'STATUS'), b' ', arg, b' (MESSAGES UIDNEXT)'])
                go([cw(b'SELECT'), b' ', arg])
                go([b'NOOP'])
            elif template == 'search':
                go([b'SELECT INBOX'])
                tr.pop()
                go([cw(b'SEARCH'), b' ', cw(b'FROM'), b' ', arg])
                go([cw(b'SEARCH'), b' ', cw(b'SUBJECT'), b' ', arg, b' ', cw(b'UNDELETED')])
                go([b'NOOP'])
            elif template == 'hdrfields':
                go([b'SELECT INBOX'])
                tr.pop()
                raw = go([cw(b'FETCH'), b' 1 (', cw(b'BODY.PEEK[HEADER.FIELDS'), b' (', arg, b')])'])
                tr.pop()
                # the section is echoed in the spelling of the server's
                # choice: compare the data returned and the outcome only
                try:
                    items, rest = wc.fetch_items(raw)
                    tr.append([wc.payload(v) for _k, v in items.get(1, ())]
                              + [wc.tagged(rest)])
                except wc.BadResponse:
                    tr.append([b'<unreadable>', raw])
                go([b'NOOP'])
    except wc.Hang:
        tr.append(b'<HANG>')
    finally:
        w.close()
    return tr


def _retag(tr: list) -> list:
    return tr


_BIG = b'Subject: big\r\n\r\n' + b'0123456789abcdef' * 320 + b'\r\n'     # > 4096 octets
_TEXT = re.compile(rb'^(\S+ (?:OK|NO|BAD)(?: \[[^\]]*\])?) .*$', re.M)


def case_session(casing: str, litkind: str, rng: random.Random) -> list:
    """one fixed session with every command word (and keyword argument) written in
    `casing` (upper | lower | random); human-readable text of tagged lines dropped"""
    w = World('dict', demo=True, users={'user1': 'pass1'})
    tr = []
    cw = {'upper': bytes.upper, 'lower': bytes.lower,
          'random': lambda b: _rand_case(b, rng)}[casing]
    try:
        c = w.connect('a')
        c.take()
        t = 0

        def go(parts):
            nonlocal t
            t += 1
            raw = _send_cmd(w, c, b't%d' % t, parts)
            for rx, sub in _NORM:
                raw = rx.sub(sub, raw)
            while raw.startswith(b'+ '):
                raw = raw[raw.index(b'\r\n') + 2:]
            tr.append(_TEXT.sub(rb'\1', raw))
        go([cw(b'CAPABILITY')])
        go([cw(b'LOGIN'), b' user1 pass1'])
        go([cw(b'CREATE'), b' box'])
        go([cw(b'APPEND'), b' box (\\Seen) ', ('arg', _BIG, litkind)])
        go([cw(b'APPEND'), b' box ', ('arg', b'A: b\r\n\r\nsmall\r\n', litkind)])
        go([cw(b'STATUS'), b' box (', cw(b'MESSAGES UIDNEXT'), b')'])
        go([cw(b'SELECT'), b' box'])
        go([cw(b'FETCH'), b' 1:* (', cw(b'FLAGS RFC822.SIZE'), b')'])
        go([cw(b'UID'), b' ', cw(b'FETCH'), b' 1:* ', cw(b'BODY.PEEK[HEADER.FIELDS'), b' (A Subject)]'])
        go([cw(b'STORE'), b' 2 ', cw(b'+FLAGS.SILENT'), b' (\\Deleted)'])
        go([cw(b'SEARCH'), b' ', cw(b'DELETED'), b' ', cw(b'OR SEEN LARGER'), b' 10'])
        go([cw(b'UID'), b' ', cw(b'SEARCH'), b' ', cw(b'SUBJECT'), b' big'])
        go([cw(b'SEARCH'), b' ', cw(b'RETURN'), b' (', cw(b'COUNT MIN'), b') ', cw(b'UNSEEN')])
        go([cw(b'COPY'), b' 1 Sent'])
        go([cw(b'EXPUNGE')])
        go([cw(b'LIST'), b' "" *'])
        go([cw(b'LSUB'), b' "" *'])
        go([cw(b'IDLE')])
        go([cw(b'CLOSE')])
        go([cw(b'EXAMINE'), b' box'])
        go([cw(b'NOOP')])
        go([cw(b'LOGOUT')])
    except wc.Hang:
        tr.append(b'<HANG>')
    finally:
        w.close()
    return tr


def siblings_chunk(args):
    """[(classes, value, pred, template, seed)] -> [(value, template, fails)]"""
    out = []
    for classes, value, pred, template, seed in args:
        rng = random.Random(seed)
        kinds = [k for k in ('atom', 'quoted', 'lit', 'litplus') if pred[k]['legal']]
        if template in PAIR_TEMPLATES:
            kinds = [f'{k}|{k2}' for k in kinds for k2 in ALL_KINDS]
            trs = {k: sibling_transcript(template, value, k, rng) for k in kinds}
            ref = 'lit|lit'
            fails = [(k, ref, None, trs[k], trs[ref]) for k in kinds if trs[k] != trs[ref]]
            out.append((classes, value, template, len(kinds), fails))
            continue
        if len(kinds) < 2:
            continue
        trs = {k: sibling_transcript(template, value, k, rng) for k in kinds}
        # the reference spelling: the synchronising literal (always legal
        # here); for HEADER.FIELDS the atom spelling when the value has one
        ref = 'lit' if 'lit' in trs else kinds[0]
        if template == 'hdrfields' and 'atom' in trs:
            ref = 'atom'
        fails = []
        for k in kinds:
            if trs[k] != trs[ref]:
                sig = None
                last_on_line = template in ('create', 'login-pass', 'status', 'search')
                if k == 'litplus' and not pred[k]['frame'] and last_on_line:
                    sig = 'LiteralPlusTailReframed'
                elif (k == 'atom' or ref == 'atom') and not pred['atom']['parse']:
                    sig = 'AtomCloseBraceRejected'
                elif template == 'hdrfields' and ref == 'atom' and k != 'atom' \
                        and isinstance(trs[k][0], list) and trs[k][0][:1] == [b'\r\n']:
                    # the spelled-out name found no header although the atom did
                    sig = 'HeaderFieldsQuotedSpelling' if k == 'quoted' \
                        else 'HeaderFieldsLiteralSpelling'
                fails.append((k, ref, sig, trs[k], trs[ref]))
        out.append((classes, value, template, len(kinds), fails))
    return out


# --------------------------------------------------------------------------
# 3. modified UTF-7

NAME_REPS = {
    'CH': ['a', 'Z', '7', '+', '~', ' ', '.'],
    'AMP': ['&'], 'DASH': ['-'], 'COMMA': [','],
    'U': ['\xe9', '日', '\U0001f600', '\xff', '\u0131', '\u017f', '\u212a'],   # incl. letters whose upper()/casefold() is ASCII
    'CTLX': ['\x01', '\x7f', '\x1f'],
    'CTLD': ['\t', '\r', '\n'],
}
_NAME_CLASS = {}
for _k, _v in NAME_REPS.items():
    for _x in _v:
        _NAME_CLASS[_x] = _k


def conc_name(classes, rng: random.Random | None) -> str:
    if rng is None:
        return ''.join(NAME_REPS[c][0] for c in classes)
    return ''.join(rng.choice(NAME_REPS[c]) for c in classes)


def abs_name(s: str):
    out = []
    for ch in s:
        c = _NAME_CLASS.get(ch)
        if c is None:
            o = ord(ch)
            if ch in '\t\r\n':
                c = 'CTLD'
            elif o < 0x20 or o == 0x7f:
                c = 'CTLX'
            elif o > 0x7e:
                c = 'U'
            else:
                c = 'CH'
        out.append(c)
    return tuple(out)


def _utf7_sig(pred, name: str, got_dec) -> str | None:
    """signature only when a named deviation applies to the name AND the real
    decoder's result is what the as-is model predicts"""
    devs = set(pred['devs'])
    if not devs:
        return None
    if got_dec == 'HANG':
        return None
    if pred['st'] == 'ok':
        if got_dec == 'HANG' or not isinstance(got_dec, str) \
                or abs_name(got_dec) != tuple(pred['dec']):
            return None
    if 'CTLD' in abs_name(name) and 'Utf7DirectControl' in devs:
        return 'Utf7DirectControl'
    if 'Utf7AmpAfterShift' in devs:
        return 'Utf7AmpAfterShift'
    return None


def _real_decode(data: bytes):
    try:
        with wc.watchdog(0.5):
            return modutf7_decode(data)
    except wc.Hang:
        return 'HANG'
    except Exception as exc:
        return ('EXC', repr(exc))


def utf7_direct(states: list, rng: random.Random):
    fails, drift = [], []
    n = 0
    for st in states:
        classes = tuple(st['name'])
        pred = st['pred']
        for name in {conc_name(classes, None), conc_name(classes, rng)}:
            n += 1
            enc = modutf7_encode(name)
            try:
                back = ref_decode(enc)
                wf = True
            except BadUtf7 as exc:
                back, wf = ('BAD', str(exc)), False
            own = _real_decode(enc)
            law = wf and back == name and own == name
            if not law:
                sig = _utf7_sig(pred, name, own)
                fails.append((
                    f'modutf7_encode({name!r}) = {enc!r}: strict decoder -> {back!r}, '
                    f'modutf7_decode -> {own!r}', sig,
                    {'check': 'C18', 'part': 'utf7', 'name': name}))
            model_law = pred['st'] == 'ok' and tuple(pred['dec']) == classes and pred['wf']
            if model_law != law:
                drift.append({'what': 'utf7 round trip', 'name': repr(name),
                              'model_ok': model_law, 'real_ok': law})
            elif pred['st'] == 'ok' and isinstance(own, str) and own != 'HANG' \
                    and abs_name(own) != tuple(pred['dec']):
                drift.append({'what': 'utf7 decode result', 'name': repr(name),
                              'model': list(pred['dec']), 'real': repr(own)})
            elif own == 'HANG':
                drift.append({'what': 'utf7 decode termination', 'name': repr(name),
                              'model': pred['st'], 'real': repr(own)})
    return n, fails, drift


def utf7_e2e_chunk(args):
    """[(classes, name, pred)] -> [(name, fails)]"""
    out = []
    for classes, name, pred in args:
        fails = []
        spelling = ref_encode(name)
        w = World('dict', users={'user1': 'pass1'})
        try:
            w.connect('a')
            w.login('a')
            with wc.watchdog(20):
                r = w.cmd('a', b'CREATE ' + spell(spelling, 'quoted'))
            if wc.tagged([ln for ln in r.split(b'\r\n') if ln]) != b'OK':
                out.append((name, 'refused', []))
                continue
            with wc.watchdog(20):
                raw = w.cmd('a', b'LIST "" *')
                raw2 = w.cmd('a', b'STATUS ' + spell(spelling, 'quoted') + b' (MESSAGES)')
                raw3 = w.cmd('a', b'LIST "" %')
            echoed = []
            try:
                for resp in rp.parse_stream(raw):
                    if resp.name == b'LIST':
                        echoed.append(('LIST', resp.data[2].value))
                for resp in rp.parse_stream(raw2):
                    if resp.name == b'STATUS':
                        echoed.append(('STATUS', resp.data[0].value))
            except rp.Malformed:
                # not this property's business (C07); fall back to looking for
                # the server's own spelling of the name in the raw bytes
                own = modutf7_encode(name)
                echoed = [(c_, own) for c_, r_ in (('LIST', raw), ('STATUS', raw2)) if own in r_]
            want_leaf = name
            for cmd in ('LIST', 'STATUS'):
                cands = [e for c_, e in echoed if c_ == cmd]
                decoded = []
                for e in cands:
                    try:
                        decoded.append(ref_decode(e))
                    except BadUtf7 as exc:
                        decoded.append(('BAD', e, str(exc)))
                if want_leaf not in decoded:
                    sig = None
                    if modutf7_encode(name) in cands:
                        sig = _utf7_sig(pred, name, _real_decode(modutf7_encode(name)))
                    elif cmd == 'LIST' and '\n' in name and '/' not in name \
                            and spelling in raw3 and spelling not in raw:
                        sig = 'ListStarSkipsLineBreakNames'
                    fails.append((
                        f'{cmd} echoes the mailbox {name!r} (created as {spelling!r}) as '
                        f'{[e for e in cands if e.upper() != b"INBOX"]!r}, which decodes to '
                        f'{[d for d in decoded if d != "INBOX"]!r}', sig,
                        {'check': 'C18', 'part': 'utf7-e2e', 'name': name}))
        except wc.Hang:
            fails.append((f'server hangs on mailbox {name!r}', None,
                          {'check': 'C18', 'part': 'utf7-e2e', 'name': name}))
        finally:
            w.close()
        out.append((name, 'ok', fails))
    return out


# --------------------------------------------------------------------------
# 4. decode termination

TOK_REPS = {'CH': [b'A', b'x', b'\xe9'], 'AMP': [b'&'], 'DASH': [b'-']}


def utf7dec_part(run: Run, rng: random.Random):
    res = tlc.run_tlc('WireUtf7Dec.tla', run._c18_asis('WireUtf7Dec_asis.cfg'), workers=4,
                      deadlock=False)
    run.add_model(res, 'WireUtf7Dec_asis.cfg')
    if not res.ok:
        if 'Temporal property Terminates was violated' in res.output:
            run.machinery('WireUtf7Dec_asis.cfg: the model of the tree as it is does not '
                          'terminate (model out of date?)')
        else:
            run.machinery(f'WireUtf7Dec_asis.cfg: {res.violated or res.error}')
        return
    # the tree before fix a67d1aa: TLC must find the lasso (shows that the
    # liveness check can fail; not a statement about the tree under test)
    res = tlc.run_tlc('WireUtf7Dec.tla', 'WireUtf7Dec_prefix.cfg', workers=4, deadlock=False)
    lasso = 'Temporal property Terminates was violated' in res.output
    cex = None
    if lasso:
        tr = tlc._parse_counterexample(res.output)
        if tr:
            cex = list(tr[0][1].get('inp', ()))
    run.notes['utf7dec_model'] = {'tree_as_is_terminates': True,
                                  'before_fix_a67d1aa_lasso_found': lasso,
                                  'lasso_input': cex}
    states, res = wc.dump_states('WireUtf7Dec.tla', run._c18_asis('WireUtf7Dec_dump.cfg'),
                                 workers=4)
    run.add_model(res, 'WireUtf7Dec_dump.cfg')
    inputs = sorted({tuple(st['inp']) for st in states})
    n = 0
    for inp in inputs:
        for pick in (None, rng):
            data = b''.join(TOK_REPS[t][0] if pick is None else pick.choice(TOK_REPS[t])
                            for t in inp)
            got = _real_decode(data)
            n += 1
            run.count_exec(('dec', inp), nontrivial='AMP' in inp)
            if got == 'HANG':
                # excused only while known/C18.json has the entry open
                run.violation(
                    f'modutf7_decode({data!r}) does not return',
                    {'check': 'C18', 'part': 'utf7dec', 'data_hex': data.hex()},
                    'Utf7UnterminatedShiftHangs')
    run.notes['utf7dec_inputs'] = n


# --------------------------------------------------------------------------
# 5. sequence sets, flags, dates

_NUM_REPS = {1: [b'1', b'1'], 2: [b'9', b'2'], 3: [b'10', b'57'], 4: [b'4294967295', b'4294967295']}


def _idx_bytes(i: int, pick: int) -> bytes:
    return b'*' if i == 0 else _NUM_REPS[i][pick]


def _idx_val(i: int, pick: int):
    return MaxValue() if i == 0 else int(_NUM_REPS[i][pick])


def seqset_direct(states: list):
    fails, drift = [], []
    n = 0
    for st in states:
        val = st['val']
        for pick in (0, 1):
            parts = []
            want = []
            for a, b in val:
                if b == -1:
                    parts.append(_idx_bytes(a, pick))
                    want.append(_idx_val(a, pick))
                else:
                    parts.append(_idx_bytes(a, pick) + b':' + _idx_bytes(b, pick))
                    want.append((_idx_val(a, pick), _idx_val(b, pick)))
            wire = b','.join(parts)
            ok = True
            why = None
            for suf in (b'', b' X', b')'):
                n += 1
                try:
                    obj, rest = SequenceSet.parse(memoryview(wire + suf), Params())
                except NotParseable:
                    ok, why = False, ('parse refuses', wire + suf)
                    break
                if list(obj.value) != want or bytes(rest) != suf:
                    ok, why = False, ('parse', wire + suf, repr(obj.value), bytes(rest))
                    break
                ser = bytes(SequenceSet(obj.value))
                try:
                    obj2, rest2 = SequenceSet.parse(memoryview(ser), Params())
                except NotParseable:
                    ok, why = False, ('serialised form refused', ser)
                    break
                if list(obj2.value) != want or bytes(rest2) != b'' \
                        or obj2.flatten(70) != obj.flatten(70):
                    ok, why = False, ('reparse', ser, repr(obj2.value))
                    break
            if not ok:
                fails.append((f'sequence set {wire!r}: {why!r}', None,
                              {'check': 'C18', 'part': 'seqset', 'wire': wire.decode()}))
            if ok != st['pred']['ok']:
                drift.append({'what': 'seqset', 'wire': wire.decode(), 'real_ok': ok})
    return n, fails, drift


_FLAG_CASE = {'lower': b'answered', 'upper': b'ANSWERED', 'mixed': b'aNsWeReD',
              'capital': b'Answered'}
_KW_CASE = {'lower': b'$label1', 'upper': b'$LABEL1', 'mixed': b'$LaBeL1', 'capital': b'Label1'}


def flag_direct(states: list):
    fails, drift = [], []
    n = 0
    for st in states:
        kind, case = st['val']
        wire = (b'\\' + _FLAG_CASE[case]) if kind == 'sys' else _KW_CASE[case]
        want = (b'\\' + _FLAG_CASE[st['pred']['norm'][1]]) if kind == 'sys' else wire
        ok = True
        why = None
        for suf in (b'', b' X', b')'):
            n += 1
            try:
                obj, rest = Flag.parse(memoryview(wire + suf), Params())
                obj2, rest2 = Flag.parse(memoryview(bytes(obj)), Params())
            except NotParseable:
                ok, why = False, 'refused'
                break
            if bytes(rest) != suf or bytes(rest2) != b'' or obj2 != obj \
                    or bytes(obj2) != bytes(obj) or bytes(obj) != want:
                ok, why = False, (bytes(obj), bytes(rest), bytes(obj2))
                break
        if not ok:
            fails.append((f'flag {wire!r}: {why!r}', None,
                          {'check': 'C18', 'part': 'flag', 'wire': wire.decode()}))
        if ok != st['pred']['ok']:
            drift.append({'what': 'flag', 'wire': wire.decode(), 'real_ok': ok})
    return n, fails, drift


_DAY = {'sp1': [b' 1', b' 9'], 'z1': [b'01', b'07'], 'd2': [b'17', b'31']}
_YEAR = {'y4': [b'2020', b'1000', b'9999'], 'y3': [b'0999', b'0001']}
_TZ = {'zero': [b'+0000'], 'east': [b'+0530', b'+1400'], 'west': [b'-1200', b'-0330'],
       'negzero': [b'-0000']}


def date_direct(states: list, rng: random.Random, e2e: bool):
    fails, drift = [], []
    n = 0
    for st in states:
        sh = st['val']
        for pick in (None, rng):
            ch = (lambda xs: xs[0]) if pick is None else pick.choice
            day, year, tz = ch(_DAY[sh['day']]), ch(_YEAR[sh['year']]), ch(_TZ[sh['tz']])
            mon = b'Jan' if pick is None else pick.choice(
                [b'Jan', b'Mar', b'May', b'Jul', b'Aug', b'Oct', b'Dec'])
            inner = day + b'-' + mon + b'-' + year + b' 23:59:58 ' + tz
            wire = b'"' + inner + b'"'
            n += 1
            ok = True
            why = None
            try:
                obj, rest = DateTime.parse(memoryview(wire + b' X'), Params())
            except Exception as exc:
                fails.append((f'date-time {wire!r} refused: {exc!r}', None,
                              {'check': 'C18', 'part': 'date', 'wire': wire.decode()}))
                continue
            if bytes(rest) != b' X':
                ok, why = False, ('rest', bytes(rest))
            else:
                try:
                    obj2, rest2 = DateTime.parse(memoryview(bytes(obj)), Params())
                    if obj2.value != obj.value or bytes(rest2) != b'':
                        ok, why = False, ('cached form', bytes(obj), bytes(rest2))
                except Exception as exc:
                    ok, why = False, ('cached form refused', bytes(obj), repr(exc))
            fresh = bytes(DateTime(obj.value))
            if ok:
                try:
                    obj3, rest3 = DateTime.parse(memoryview(fresh), Params())
                    if obj3.value != obj.value or bytes(rest3) != b'':
                        ok, why = False, ('fresh form', fresh)
                except Exception as exc:
                    ok, why = False, ('fresh form refused', fresh, repr(exc))
            if ok and e2e:
                w = World('dict', users={'user1': 'pass1'})
                try:
                    w.connect('a')
                    w.login('a')
                    w.cmd('a', b'APPEND INBOX ' + wire + b' {1+}\r\nx')
                    w.cmd('a', b'SELECT INBOX')
                    raw = w.cmd('a', b'FETCH 1 (INTERNALDATE)')
                    try:
                        got = [r.data[b'INTERNALDATE'] for r in rp.parse_stream(raw)
                               if r.name == b'FETCH']
                        back = datetime.strptime(got[0].decode(), '%d-%b-%Y %H:%M:%S %z')
                        if back != obj.value:
                            ok, why = False, ('INTERNALDATE differs', got[0])
                    except (rp.Malformed, ValueError, IndexError) as exc:
                        ok, why = False, ('INTERNALDATE unreadable', raw[:120], str(exc))
                finally:
                    w.close()
            if not ok:
                sig = None
                if 'DateYearBelow1000' in st['pred']['devs'] and why[0].startswith('fresh') \
                        and fresh.count(b'-') >= 2 and len(fresh.split(b'-')[2].split(b' ')[0]) < 4:
                    sig = 'DateYearBelow1000'
                fails.append((f'date-time {wire!r}: {why!r}', sig,
                              {'check': 'C18', 'part': 'date', 'wire': wire.decode()}))
            if ok != st['pred']['ok']:
                drift.append({'what': 'date', 'wire': wire.decode(), 'real_ok': ok,
                              'model_ok': st['pred']['ok']})
    return n, fails, drift


# --------------------------------------------------------------------------


def _seed(*a) -> int:
    return zlib.crc32(repr(a).encode())


def _strings_chunk(args):
    seed, chunk = args
    return strings_direct(chunk, random.Random(_seed(seed, len(chunk), tuple(chunk[0]['v']))))


def main(tier: str) -> int:
    run = Run('C18', tier)
    rng = random.Random(run.seed)
    timer = wc.Timer()
    procs = wc.nprocs()
    run.cov['rule'] = (
        'executions = one abstract value enumerated by TLC (string value / mailbox '
        'name / utf-7 token string / sequence set / flag / date shape), concretised '
        'and pushed through the real parsers or the real server in every legal '
        'spelling; non-trivial = the value needs quoting/escaping/literal or a '
        'base64 shift, or has more than one element; distinct = distinct abstract values')
    run.assumptions += [
        'value classes are read off the character tests of the atom patterns, the '
        'quoted-string scanner, String.build, modutf7 and IMAPConnection.readline; '
        'bytes inside one class are assumed to be treated alike (>= 2 representatives)',
        'exhaustive only up to the stated value lengths; longer values, all of '
        'Unicode and all commands are SAMPLED / represented by the listed templates',
        'legal extra spacing: RFC 3501 allows exactly one SP between arguments, so '
        'only the letter case of command words varies',
        'literal8 (~{n}) is exercised at parser level only',
    ]
    if tier == 'quick':
        cfgs = dict(s_ideal='WireString_ideal.cfg', s_asis='WireString_asis.cfg',
                    u_ideal='WireUtf7_ideal.cfg', u_asis='WireUtf7_asis.cfg',
                    q='WireSeqSet_seqset.cfg')
        sib_len, sib_sample, u_len, u_sample = 1, 160, 2, 150
        pair_sample = 25
    else:
        cfgs = dict(s_ideal='WireString_ideal5.cfg', s_asis='WireString_asis4.cfg',
                    u_ideal='WireUtf7_ideal6.cfg', u_asis='WireUtf7_asis5.cfg',
                    q='WireSeqSet_seqset4.cfg')
        sib_len, sib_sample, u_len, u_sample = 2, 3000, 3, 2500
        pair_sample = 400

    # ---- TLC ---------------------------------------------------------------
    import shutil
    import tempfile
    tmp = tempfile.mkdtemp(prefix='verif.c18.')
    fixed = set(run.known.fixed)
    run.notes['deviations_modelled_as_repaired'] = sorted(fixed)

    def asis(cfg):
        return wc.cfg_with_fixed(cfg, fixed, tmp)
    for key in ('s_asis', 'u_asis'):
        cfgs[key] = asis(cfgs[key])
    date_asis = asis('WireSeqSet_date_asis.cfg')
    run._c18_asis = asis
    jobs = {
        's_ideal': lambda: tlc.run_tlc('WireString.tla', cfgs['s_ideal'], workers=6, deadlock=False),
        'u_ideal': lambda: tlc.run_tlc('WireUtf7.tla', cfgs['u_ideal'], workers=4, deadlock=False),
        'd_ideal': lambda: tlc.run_tlc('WireSeqSet.tla', 'WireSeqSet_date_ideal.cfg', workers=1,
                                       deadlock=False),
        's_law': lambda: tlc.run_tlc('WireString.tla', 'WireString_law.cfg', workers=2, deadlock=False),
        'u_law': lambda: tlc.run_tlc('WireUtf7.tla', 'WireUtf7_law.cfg', workers=2, deadlock=False),
        's_asis': lambda: wc.dump_states('WireString.tla', cfgs['s_asis'], workers=6),
        'u_asis': lambda: wc.dump_states('WireUtf7.tla', cfgs['u_asis'], workers=4),
        'q': lambda: wc.dump_states('WireSeqSet.tla', cfgs['q'], workers=4),
        'f': lambda: wc.dump_states('WireSeqSet.tla', 'WireSeqSet_flag.cfg', workers=1),
        'd_asis': lambda: wc.dump_states('WireSeqSet.tla', date_asis, workers=1),
    }
    got = wc.run_parallel(jobs)
    for name, r in got.items():
        if isinstance(r, Exception):
            run.machinery(f'TLC job {name}: {r}')
            shutil.rmtree(tmp, ignore_errors=True)
            return run.finish()
    for name in ('s_ideal', 'u_ideal', 'd_ideal'):
        run.add_model(got[name], name)
        if not got[name].ok:
            run.machinery(f'{name}: {got[name].violated or got[name].error}')
            return run.finish()
    run.notes['laws_on_asis_models'] = {'WireString_law.cfg': got['s_law'].violated,
                                        'WireUtf7_law.cfg': got['u_law'].violated}
    for name in ('s_asis', 'u_asis', 'q', 'f', 'd_asis'):
        run.add_model(got[name][1], name)
        if not got[name][1].ok:
            run.machinery(f'{name}: {got[name][1].violated or got[name][1].error}')
            return run.finish()
    sstates, ustates, qstates = got['s_asis'][0], got['u_asis'][0], got['q'][0]
    fstates, dstates = got['f'][0], got['d_asis'][0]
    run.notes['tlc_wall_s'] = timer.lap()

    def report(fails, drift):
        for what, sig, rep in fails:
            counted = run.violation(what, rep, sig)
            if not counted and sig not in {s.get('known') for s in run.cov['samples']}:
                run.sample({'known': sig, 'what': what[:300]}, limit=14)
        for d in drift:
            if len(run.drift) < 200:
                run.drift.append(d)

    # ---- strings, direct -----------------------------------------------------
    total = 0
    try:
        for n, fails, drift in wc.pmap(_strings_chunk, [(run.seed, c) for c in
                                                        wc.chunked(sstates, 600)], procs):
            total += n
            report(fails, drift)
    except Exception as exc:
        run.machinery(f'strings direct: {exc!r}')
        return run.finish()
    for st in sstates:
        run.count_exec(('s', tuple(st['v'])),
                       nontrivial=any(c != 'CH' for c in st['v']))
    run.notes['strings_direct'] = {'parses': total, 'values': len(sstates),
                                   'wall_s': timer.lap()}

    # ---- sibling commands ----------------------------------------------------
    pool = [st for st in sstates if 'NUL' not in st['v']]
    sel = [st for st in pool if len(st['v']) <= sib_len]
    rest = [st for st in pool if len(st['v']) > sib_len]
    rest.sort(key=lambda st: tuple(st['v']))
    rng.shuffle(rest)
    sel += rest[:sib_sample]
    jobs = []
    extra = [b'Subject', b'FROM', b'To', b'x-none', b'user1', b'pass1', b'INBOX', b'inbox',
             b'Sent', b'Trash', b'a{3+}', b'Re: Re', b'a}b', b'Random question',
             b'friend@example.com', b'x' * 20]
    for st in sel:
        classes = tuple(st['v'])
        value = conc_val(classes, random.Random(_seed(run.seed, classes)))
        for template in TEMPLATES:
            jobs.append((classes, value, st['pred'], template, _seed(run.seed, classes, template)))
    by_classes = {tuple(st['v']): st for st in sstates}
    missing = sorted({_abs_val(v_) for v_ in extra} - set(by_classes))
    if missing:
        # values beyond the enumerated length: TLC evaluates the model on them
        try:
            tmp2 = tempfile.mkdtemp(prefix='verif.c18.')
            expr = 'v \\in {' + ', '.join(tlc.to_tla(m) for m in missing) + '} /\\ pred = Pred(v)'
            sts, res = wc.seed_states('WireString', expr, 'WireString_asis.cfg', fixed, tmp2)
            run.add_model(res, 'WireString seeds')
            for st in sts:
                by_classes[tuple(st['v'])] = st
        except tlc.TLCError as exc:
            run.machinery(f'seed states: {exc}')
            return run.finish()
        finally:
            shutil.rmtree(tmp2, ignore_errors=True)
    for value in extra:
        classes = _abs_val(value)
        st = by_classes.get(classes)
        if st is None:
            run.machinery(f'no model state for {value!r}')
            continue
        for template in TEMPLATES:
            jobs.append((classes, value, st['pred'], template, _seed(run.seed, value, template)))
    nsib = 0
    try:
        for out in wc.pmap(siblings_chunk, wc.chunked(jobs, 40), procs):
            for classes, value, template, nk, fails in out:
                nsib += nk
                run.count_exec(('sib', classes, template), nontrivial=True)
                for k, ref, sig, got, want in fails:
                    what = (f'{template}: value {value!r} spelled as {k} is answered '
                            f'differently from its {ref} spelling: {_short(got)} vs {_short(want)}')
                    counted = run.violation(
                        what, {'check': 'C18', 'part': 'sibling', 'template': template,
                               'value_hex': value.hex(), 'kind': k, 'ref': ref}, sig)
                    if not counted and sig not in {s.get('known') for s in run.cov['samples']}:
                        run.sample({'known': sig, 'what': what[:400]}, limit=14)
    except Exception as exc:
        run.machinery(f'siblings: {exc!r}')
        return run.finish()
    # every pair of spellings of two-argument commands
    pjobs = []
    psel = list(sel)
    rng.shuffle(psel)
    for st in psel[:pair_sample]:
        classes = tuple(st['v'])
        value = conc_val(classes, random.Random(_seed(run.seed, classes, 'pair')))
        for template in PAIR_TEMPLATES:
            if template != 'login-both':
                pjobs.append((classes, value, st['pred'], template, _seed(run.seed, classes, template)))
    allk = {k: {'legal': True, 'parse': True, 'reparse': True, 'frame': True} for k in ALL_KINDS}
    pjobs.append((('CH',) * 3, b'abc', allk, 'login-both', _seed(run.seed, 'login-both')))
    for value in (b'abc', b'a b', b'Sent', b'x' * 20):
        for template in PAIR_TEMPLATES[:2] + PAIR_TEMPLATES[3:]:
            st = by_classes.get(_abs_val(value))
            pred = st['pred'] if st is not None else allk
            if value == b'a b':
                pred = dict(allk, atom=dict(allk['atom'], legal=False))
            pjobs.append((_abs_val(value), value, pred, template, _seed(run.seed, value, template)))
    npair = 0
    try:
        for out in wc.pmap(siblings_chunk, wc.chunked(pjobs, 10), procs):
            for classes, value, template, nk, fails in out:
                npair += nk
                run.count_exec(('pair', classes, template), nontrivial=True)
                for k, ref, sig, got, want in fails:
                    run.violation(
                        f'{template}: value {value!r} with spellings {k} is answered differently from '
                        f'{ref}: {_short(got)} vs {_short(want)}',
                        {'check': 'C18', 'part': 'pair', 'template': template,
                         'value_hex': value.hex(), 'kind': k, 'ref': ref}, sig)
    except Exception as exc:
        run.machinery(f'pairs: {exc!r}')
        return run.finish()
    run.notes['pairs'] = {'servers': npair, 'commands': len(pjobs), 'wall_s': timer.lap()}
    # any letter case of the command words: one session, three casings x two literal kinds
    ncase = 0
    for litkind in ('lit', 'litplus'):
        ref_tr = case_session('upper', litkind, rng)
        for casing in ('lower', 'random', 'random'):
            got = case_session(casing, litkind, rng)
            ncase += 1
            run.count_exec(('case', casing, litkind, ncase), nontrivial=True)
            if got != ref_tr:
                i = next((j for j, (a_, b_) in enumerate(zip(got, ref_tr)) if a_ != b_),
                         min(len(got), len(ref_tr)))
                run.violation(
                    f'case: the session written in {casing} case ({litkind} literals) is answered '
                    f'differently from upper case at command {i + 1}: '
                    f'{(got[i] if i < len(got) else b"<missing>")[:200]!r} vs '
                    f'{(ref_tr[i] if i < len(ref_tr) else b"<missing>")[:200]!r}',
                    {'check': 'C18', 'part': 'case', 'casing': casing, 'litkind': litkind}, None)
    run.notes['case_sessions'] = ncase
    # the one length-dependent decision of the string parsers
    # (LiteralString._check_too_big: 4096 outside APPEND) is outside the class
    # model: probed at the boundary
    all_legal = {k: {'legal': True, 'parse': True, 'reparse': True, 'frame': True}
                 for k in KINDS}
    for n_ in (4096, 4097):
        value = b'a' * n_
        for classes, value, template, nk, fails in siblings_chunk(
                [(('CH',) * 3, value, all_legal, 'create', _seed(run.seed, n_))]):
            nsib += nk
            run.count_exec(('sib-limit', n_), nontrivial=True)
            for k, ref, sig, got, want in fails:
                sig = None
                bad = got if k != 'atom' or ref == 'atom' else want
                if len(value) > 4096 and (k in ('lit', 'litplus') or ref in ('lit', 'litplus')) \
                        and any(isinstance(x, bytes) and b' BAD ' in x for x in
                                (got if k in ('lit', 'litplus') else want)):
                    sig = 'LiteralOver4096Refused'
                run.violation(
                    f'create: a value of {len(value)} bytes spelled as {k} is answered '
                    f'differently from its {ref} spelling: {_short(got)} vs {_short(want)}',
                    {'check': 'C18', 'part': 'sibling', 'template': 'create',
                     'value_hex': value.hex(), 'kind': k, 'ref': ref}, sig)
    run.notes['siblings'] = {'servers': nsib, 'commands': len(jobs), 'wall_s': timer.lap()}

    # ---- utf7 -----------------------------------------------------------------
    n, fails, drift = utf7_direct(ustates, random.Random(run.seed + 17))
    report(fails, drift)
    for st in ustates:
        run.count_exec(('u', tuple(st['name'])),
                       nontrivial=any(c not in ('CH',) for c in st['name']))
    sel = [st for st in ustates if 0 < len(st['name']) <= u_len]
    rest = [st for st in ustates if len(st['name']) > u_len]
    rest.sort(key=lambda st: tuple(st['name']))
    rng.shuffle(rest)
    sel += rest[:u_sample]
    ujobs = []
    for st in sel:
        classes = tuple(st['name'])
        name = conc_name(classes, random.Random(_seed(run.seed, 'u', classes)))
        if name.upper() == 'INBOX' or not name.strip() or name != name.strip():
            name = conc_name(classes, None)
        ujobs.append((classes, name, st['pred']))
    ne2e = refused = 0
    try:
        for out in wc.pmap(utf7_e2e_chunk, wc.chunked(ujobs, 40), procs):
            for name, status, fails in out:
                if status == 'refused':
                    refused += 1
                    continue
                ne2e += 1
                run.count_exec(('ue', name), nontrivial=True)
                report(fails, [])
    except Exception as exc:
        run.machinery(f'utf7 e2e: {exc!r}')
        return run.finish()
    run.notes['utf7'] = {'direct': n, 'e2e': ne2e, 'e2e_create_refused': refused,
                         'wall_s': timer.lap()}

    # ---- decode termination ---------------------------------------------------
    try:
        utf7dec_part(run, random.Random(run.seed + 5))
    except tlc.TLCError as exc:
        run.machinery(str(exc))
        return run.finish()
    finally:
        shutil.rmtree(tmp, ignore_errors=True)

    # ---- seqset / flag / date ---------------------------------------------------
    nq = 0
    for n, fails, drift in wc.pmap(seqset_direct, wc.chunked(qstates, 3000), procs):
        nq += n
        report(fails, drift)
    for st in qstates:
        run.count_exec(('q', st['val']), nontrivial=len(st['val']) > 1 or st['val'][0][1] != -1)
    n2, fails, drift = flag_direct(fstates)
    report(fails, drift)
    n3, fails, drift = date_direct(dstates, random.Random(run.seed + 9), True)
    report(fails, drift)
    for st in fstates:
        run.count_exec(('f', st['val']), nontrivial=True)
    for st in dstates:
        run.count_exec(('d', tuple(sorted(st['val'].items()))), nontrivial=True)
    run.notes['seqset_flag_date'] = {'seqset_parses': nq, 'flag_parses': n2, 'dates': n3,
                                     'wall_s': timer.lap()}
    run.cov['exhaustive'] = True
    run.notes['exhaustive_scope'] = (
        f'TLC: {cfgs}; direct level on every dumped state x 2 representatives; sibling '
        f'commands exhaustive for values up to length {sib_len} (+{sib_sample} sampled) x '
        f'{len(TEMPLATES)} templates; utf7 e2e exhaustive for names up to length {u_len}')
    return run.finish()


def _abs_val(value: bytes):
    out = []
    i = 0
    while i < len(value):
        m = re.compile(rb'\{\d+\+\}').match(value, i)
        if m:
            out.append('LPT')
            i = m.end()
            continue
        c = value[i:i + 1]
        cls = None
        for k, reps in VAL_REPS.items():
            if c in reps:
                cls = k
        if cls is None:
            x = c[0]
            if x >= 0x80:
                cls = 'HI'
            elif x < 0x20 or x == 0x7f:
                cls = 'CTL'
            else:
                cls = 'CH'
        out.append(cls)
        i += 1
    return tuple(out)


def _short(tr) -> str:
    s = repr(tr)
    return s if len(s) < 260 else s[:260] + '...'


def replay(path: str) -> int:
    import json
    rec = json.load(open(path))['replay']
    part = rec.get('part')
    if part == 'sibling':
        value = bytes.fromhex(rec['value_hex'])
        for k in (rec['kind'], rec['ref']):
            print(k, sibling_transcript(rec['template'], value, k, random.Random(1)))
        return 1
    if part in ('string', 'string-reparse'):
        value = bytes.fromhex(rec['value_hex'])
        parser = AString if rec['parser'] == 'AString' else String
        for suf in SUFFIXES:
            r = real_parse(parser, spell(value, rec['kind']) + suf)
            print(spell(value, rec['kind']) + suf, '->', r[:3],
                  bytes(r[3]) if r[0] == 'ok' else None)
        return 1
    if part in ('utf7', 'utf7-e2e'):
        name = rec['name']
        enc = modutf7_encode(name)
        print(repr(name), enc, _real_decode(enc))
        return 1
    if part == 'utf7dec':
        print(_real_decode(bytes.fromhex(rec['data_hex'])))
        return 1
    print(rec)
    return 1
