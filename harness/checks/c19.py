"""C19 - ManageSieve: nothing but CAPABILITY/NOOP/LOGOUT/STARTTLS/AUTHENTICATE
acts before authentication; afterwards the script store is a name -> bytes map
with at most one active name, per user.  Dict backend and maildir backend.

Oracle: spec/Sieve.tla (reference model, two users, three connections, two
kinds of script store).

1. TLC checks the model's own properties exhaustively (Sieve_small.cfg, and
   Sieve_medium.cfg in the thorough tier): at most one active, active is
   stored, LISTSCRIPTS exact, the gate, only AUTHENTICATE authenticates, an
   incomplete command does nothing, isolation of users, PUT-then-GET, RENAME
   keeps content and active status, the active script never disappears, frame
   condition of the map.
2. spec -> code, exhaustive: the state graph of the small (thorough: medium)
   scope is dumped with VIEW = the state without `last`; every edge label
   carries the result `r` the server must give.  An edge cover is computed and
   every edge is replayed on the real ManageSieve server (connections c1, c2,
   c3 of the model + two probe connections).  After EVERY step: the response
   is parsed by the strict parser below and compared with r; LISTSCRIPTS +
   GETSCRIPT of every name on the probe connections are compared with the
   model's store of BOTH users; the authentication state of the connections
   is compared with the model's (CAPABILITY/OWNER on the wire after every
   command that is about authentication, the server's connection objects
   after every command).
3. spec -> code, random: `-simulate` behaviours of the full scope (any
   connection may log in as any user), seeded with VERIF_SEED, same replay.
4. byte-level sweep: fixed abstract scenarios (walked in the graph, so the
   expectations are still TLC's) under every concretisation family of names,
   script bytes and string encodings, including protocol-shaped bytes.

Where the property leaves latitude the model has alternatives (r.alt); the
alternative the server takes is measured once (calibrate) and the others are
pruned from the graph / switched off for -simulate.

Two backends, two profiles of the model (Sieve.tla Profile).  Everything above
is done on the dict backend (Profile "dict": any name can be stored) and, with
seeds of its own, on the maildir backend (Profile "single":
pymap.filter.SingleFilterSet - ONE script per user, permanently called
"active", the file dovecot.sieve in the user's directory; n1 is bound to that
name for both users, n2 to any other name: the families plus near misses of
"active" and path-like names).  The property is the same for both; the single
store only MAY refuse (NO) a name it cannot hold and refuses to deactivate its
one script - an OK that stores nothing is not allowed.  Every maildir
execution runs on its own copy of a provisioned store (md_world); the glass
box there is the file itself, and script bytes found in any other file are
reported.  The counts per backend are in the evidence (per_backend, maildir).

Deviations.  The behaviours of the tree that contradict the property on the
single store are NAMED outcomes of the model (Sieve.tla DevTags, r.dev), each
replacing the outcome the property asks for when it is in Open.  calibrate()
measures which ones the tree shows; for each of them TLC confirms that the
model with Open = {d} violates the clause DevClause[d] of the property (a
failure to do so is a machinery error); the tours follow the as-is model
(Open = the measured ones).  An execution that walks a deviation edge is a
VIOLATION under the deviation's name - unless known/C19.json has an OPEN entry
with that id (KNOWN-FINDING; SingleDeleteActive: deleting the one script is
the only way to remove it).  The deviations exist in the single profile only,
so an entry excuses on that store only; every other difference from the model
is a violation as before.  Each deviation step also carries the outcome the
property asks for (TLC: the strict graph, _strict_index): a tree that gives
that one instead ends the execution there (switch), so a replay file of a
repaired deviation stops reproducing without a false alarm.

Experiments only: VERIF_C19_BACKENDS=dict|maildir restricts the run,
VERIF_C19_KNOWN=<file> reads the known findings from another file.

Python only concretises abstract commands, parses and abstracts responses and
compares them with what TLC computed.  Mismatches with a clause of the
property (gate, map laws, isolation) are violations; anything else the model
is more precise about (response codes, CHECKSCRIPT/HAVESPACE verdicts, NOOP
tags, capability lines) is drift.
"""

from __future__ import annotations

import base64
import json
import logging
import multiprocessing
import os
import pickle
import random
import re
import shutil
import signal
import time
from contextlib import contextmanager

from ..common import Run, digest
from .. import tlc
from ..server import World

# every new connection makes pysasl rescan the installed packages' entry points
# (12 ms); the installed packages do not change while the check runs
import functools  # noqa: E402
import pysasl as _pysasl  # noqa: E402

if not hasattr(_pysasl.entry_points, 'cache_info'):
    _ep = _pysasl.entry_points
    _pysasl.entry_points = functools.lru_cache(maxsize=None)(lambda **kw: tuple(_ep(**kw)))

_plog = logging.getLogger('pymap')
_plog.addHandler(logging.NullHandler())
_plog.propagate = False

USERS = {'u1': ('user1', 'pass1'), 'u2': ('user2', 'pass2')}
USER_OF = {v[0].encode(): k for k, v in USERS.items()}
OTHER = {'u1': 'u2', 'u2': 'u1'}
MCONNS = ('c1', 'c2', 'c3')
PROBE = {'u1': 'p1', 'u2': 'p2'}

PRE_AUTH_CMDS = {'Capability', 'Noop', 'Logout', 'StartTLS', 'Auth', 'AuthJunk'}
SCRIPT_CMDS = {'Put', 'Get', 'List', 'SetActive', 'Delete', 'Rename', 'Check',
               'HaveSpace'}
# commands whose outcome is a clause of the property once authenticated
MAP_CMDS = {'Put', 'Get', 'List', 'SetActive', 'Delete', 'Rename'}
MUTATORS = {'Put', 'SetActive', 'Delete', 'Rename'}


# --------------------------------------------------------------------------
# strict ManageSieve (RFC 5804) response parser, independent of pymap


class Malformed(Exception):
    pass


_ATOM = re.compile(rb'[A-Za-z0-9_./:+-]+')
_LIT = re.compile(rb'\{(\d+)\}\r\n')


def _p_string(data: bytes, pos: int):
    if data[pos:pos + 1] == b'"':
        i = pos + 1
        out = bytearray()
        while True:
            if i >= len(data):
                raise Malformed('unterminated quoted string')
            ch = data[i]
            if ch == 0x22:
                i += 1
                break
            if ch == 0x5c:
                if i + 1 >= len(data) or data[i + 1] not in (0x22, 0x5c):
                    raise Malformed('bad escape in quoted string')
                out.append(data[i + 1])
                i += 2
                continue
            if ch in (0x0d, 0x0a, 0x00):
                raise Malformed('CR, LF or NUL inside a quoted string')
            out.append(ch)
            i += 1
        try:
            bytes(out).decode('utf-8')
        except UnicodeDecodeError:
            raise Malformed('quoted string is not UTF-8') from None
        if len(out) > 1024:
            raise Malformed('quoted string longer than 1024 octets')
        return bytes(out), i
    m = _LIT.match(data, pos)
    if m:
        n = int(m.group(1))
        end = m.end() + n
        if end > len(data):
            raise Malformed('literal longer than the data received')
        return data[m.end():end], end
    raise Malformed(f'string expected at {pos}: {data[pos:pos + 20]!r}')


def _p_item(data: bytes, pos: int):
    c = data[pos:pos + 1]
    if c in (b'"', b'{'):
        v, pos = _p_string(data, pos)
        return ('s', v), pos
    m = _ATOM.match(data, pos)
    if not m:
        raise Malformed(f'atom expected at {pos}: {data[pos:pos + 20]!r}')
    return ('a', m.group()), m.end()


def parse_lines(data: bytes) -> list:
    """bytes -> [[token, ...], ...]; token = ('s', bytes) | ('a', bytes) |
    ('p', [token, ...]).  Every line ends with CRLF, items are separated by
    exactly one SP, nothing may be left over."""
    pos = 0
    lines = []
    while pos < len(data):
        toks = []
        while True:
            if data[pos:pos + 1] == b'(':
                pos += 1
                inner = []
                while True:
                    it, pos = _p_item(data, pos)
                    inner.append(it)
                    if data[pos:pos + 1] == b')':
                        pos += 1
                        break
                    if data[pos:pos + 1] != b' ':
                        raise Malformed(f'SP or ) expected at {pos}')
                    pos += 1
                toks.append(('p', inner))
            else:
                it, pos = _p_item(data, pos)
                toks.append(it)
            if data[pos:pos + 2] == b'\r\n':
                pos += 2
                break
            if data[pos:pos + 1] == b' ':
                pos += 1
                continue
            raise Malformed(f'SP or CRLF expected at {pos}: {data[pos:pos + 20]!r}')
        lines.append(toks)
    return lines


def _is_cond(line) -> bool:
    return bool(line) and line[0][0] == 'a' and line[0][1].upper() in (b'OK', b'NO', b'BYE')


class SResp:
    """One complete response: data lines + OK/NO/BYE [(code)] [text]."""

    def __init__(self, data: bytes):
        self.raw = data
        lines = parse_lines(data)
        if not lines:
            raise Malformed('empty response')
        if not _is_cond(lines[-1]):
            raise Malformed('no OK/NO/BYE line at the end')
        for ln in lines[:-1]:
            if _is_cond(ln):
                raise Malformed('more than one OK/NO/BYE line')
            if ln[0][0] != 's':
                raise Malformed('data line does not start with a string')
        self.data = lines[:-1]
        last = lines[-1]
        self.cond = last[0][1].upper().decode()
        rest = last[1:]
        self.code = None
        self.code_args: list = []
        self.text = None
        if rest and rest[0][0] == 'p':
            grp = rest[0][1]
            if grp[0][0] != 'a':
                raise Malformed('response code must start with an atom')
            self.code = grp[0][1].upper().decode()
            self.code_args = grp[1:]
            rest = rest[1:]
        if rest and rest[0][0] == 's':
            self.text = rest[0][1]
            rest = rest[1:]
        if rest:
            raise Malformed('junk after the response condition')

    def listing(self):
        """-> (names list, active list) of a LISTSCRIPTS response"""
        names, active = [], []
        for ln in self.data:
            if len(ln) == 1 and ln[0][0] == 's':
                names.append(ln[0][1])
            elif (len(ln) == 2 and ln[0][0] == 's' and ln[1][0] == 'a'
                  and ln[1][1].upper() == b'ACTIVE'):
                names.append(ln[0][1])
                active.append(ln[0][1])
            else:
                raise Malformed(f'not a LISTSCRIPTS line: {ln!r}')
        for n in names:
            try:
                n.decode('utf-8')
            except UnicodeDecodeError:
                raise Malformed('listed name is not UTF-8') from None
        return names, active

    def script(self) -> bytes:
        if len(self.data) != 1 or len(self.data[0]) != 1:
            raise Malformed('GETSCRIPT response is not exactly one string')
        return self.data[0][0][1]

    def caps(self) -> dict:
        out = {}
        for ln in self.data:
            if len(ln) == 1:
                out[ln[0][1].upper()] = None
            elif len(ln) == 2 and ln[1][0] == 's':
                out[ln[0][1].upper()] = ln[1][1]
            else:
                raise Malformed(f'not a capability line: {ln!r}')
        return out


class _Silent:
    """The server wrote nothing (only acceptable when the client went away)."""
    cond = 'NONE'
    code = None
    code_args: list = []
    data: list = []
    text = None


# --------------------------------------------------------------------------
# concretisation: abstract names / contents -> bytes

NAME_FAMILIES = {
    'ascii': ('alpha', 'beta-2.sieve'),
    'case': ('Vacation', 'vacation'),
    'utf8': ('règles-日本語', 'фильтр \U0001f4ec'),
    'quote': ('we"ird\\name', '\\"'),
    'long': ('L' * 200, 'l' * 63 + 'é'),
    'spacey': (' lead and trail ', 'x ACTIVE'),
    'proto': ('ACTIVE', 'OK (TAG "x") "y"'),
    'prefix': ('script', 'script2'),
}
# names that look like wire syntax (only used in the sweep)
NAME_STRESS = {
    'litmark': ('{3+}', 'n{0+}'),
    'brace': ('{3}', 'a{12+}b'),
}

# The maildir backend keeps ONE script per user (pymap.filter.SingleFilterSet over the
# file dovecot.sieve), permanently called "active": there the model's n1 (the one name
# the store can hold, Sieve.tla Holdable) is that name and n2 is a name of the family.
SINGLE_NAME = 'active'
# more names for n2 on that store: near misses of the one name, names that look like
# the file or like a path to the other user's file
NAME_SINGLE = {
    'nearactive': ('ACTIVE', 'active '),
    'activeish': ('Active', 'active.sieve'),
    'pathlike': ('../user2/dovecot.sieve', 'dovecot.sieve'),
    'pathlike2': ('../user1/active', 'user2/active'),
}

_S_FILE = (b'require ["fileinto"];\r\n\r\nif header :contains "Subject" "x" {\r\n'
           b'    fileinto "Junk";\r\n}\r\n')
CONTENT_FAMILIES = {
    'tiny': (b'keep;', b'discard;\r\n', b'garbage'),
    'crlf': (_S_FILE, b'# only a comment\r\nkeep;\r\n', b'if true {\r\n'),
    'lf': (b'if true {\n\tkeep;\n}\n', b'stop;\n', b'else { keep; }\n'),
    'quoted': (b'if header :is "Subject" "a \\"q\\" \\\\ b" { discard; }',
               b'# "quotes" and \\ backslashes\r\nkeep;', b'"'),
    'utf8': ('# règle\r\nif header :contains "Subject" "日本" { keep; }\r\n'.encode(),
             '/* фильтр */ discard;'.encode(), b'\xff\xfe\x00binary'),
    'sized': (b'# ' + b'x' * 3000 + b'\r\nkeep;\r\n',
              b'#' + b'y' * 4088 + b'\r\nstop;', b'z' * 2000),
    'near': (b'keep;\r\n', b'keep;\r\n ', b'keep; }'),
    'nested': (b'if anyof (true, false) { if not true { stop; } else { keep; } }',
               b'require "reject"; if size :over 1M { reject "big"; }',
               b'if { }'),
}
# script bytes that look like wire syntax (only used in the sweep)
CONTENT_STRESS = {
    'litmark': (b'keep; # {3+}', b'stop;\r\n# {0+}', b'{1+}'),
    'midmark': (b'# {5+}\r\nkeep;\r\n', b'# {3}\r\nstop;', b'{5+}\r\n'),
    'crlfend': (b'keep;\r\n\r\n', b'stop;\r', b'nope\r\n'),
    'respish': (b'# OK\r\nkeep;', b'# NO (ACTIVE) "x"\r\n# OK\r\nstop;', b'OK\r\n'),
    'empty': (b'', b' ', b'\x00'),
}

JUNK = [
    b'FOO', b'XYZZY "arg"', b'LISTSCRIPT', b'GETSCRIPT', b'PUTSCRIPT "x"',
    b'LISTSCRIPTS extra', b'DELETESCRIPT "a" "b"', b'SETACTIVE',
    b'GETSCRIPT "\xff\xfe"', b'PUTSCRIPT "unterminated', b'',
    b'RENAMESCRIPT "a"', b'HAVESPACE "x" many', b'LOGIN user1 pass1',
    b'a1 CAPABILITY', b'CHECKSCRIPT', b'GETSCRIPT ""', b'PUTSCRIPT "" "keep;"',
    b'DELETESCRIPT ""', b'"LISTSCRIPTS"', b'SELECT INBOX', b'PUTSCRIPT x "keep;"',
]

_LITMARK_END = re.compile(rb'\{\d+\+\}$')


def jsonable(v):
    if isinstance(v, dict):
        return {str(k): jsonable(x) for k, x in v.items()}
    if isinstance(v, (set, frozenset)):
        return sorted((jsonable(x) for x in v), key=str)
    if isinstance(v, (tuple, list)):
        return [jsonable(x) for x in v]
    if isinstance(v, bool) or isinstance(v, int):
        return v
    return str(v)


def _txt(b: bytes, limit: int = 400) -> str:
    s = b.decode('latin-1')
    return s if len(s) <= limit else s[:limit] + f'...(+{len(s) - limit})'


class Spinning(BaseException):
    """Raised by the CPU-time watchdog inside whatever is running (normally the
    server coroutine that loops without ever suspending)."""


@contextmanager
def watchdog(cpu_seconds: float):
    """One step of a session costs about a millisecond of CPU; ITIMER_VIRTUAL
    counts only this process's own user time, so load on the machine cannot
    trip it."""
    def handler(_sig, _frm):
        raise Spinning()
    old = signal.signal(signal.SIGVTALRM, handler)
    signal.setitimer(signal.ITIMER_VIRTUAL, cpu_seconds)
    try:
        yield
    finally:
        signal.setitimer(signal.ITIMER_VIRTUAL, 0)
        signal.signal(signal.SIGVTALRM, old)


class Finding(dict):
    """level: 'violation' | 'drift'; fatal: the execution cannot go on"""

    def __init__(self, level, sig, what, fatal=True):
        super().__init__(level=level, sig=sig, what=what, fatal=fatal)


# --------------------------------------------------------------------------
# the maildir store: a template (the two users provisioned the way an operator does it,
# through the backend's Identity.set; no maildir yet - pymap makes it at the first login)
# is built once per process, every execution runs on its own copy (tmpfs when there is
# one), removed when the execution ends.

_MD: dict = {}


def _md_top() -> str:
    top = _MD.get('top')
    if top is None:
        import atexit
        import tempfile
        base = os.environ.get('VERIF_SCRATCH')
        if not base and os.path.isdir('/dev/shm') and os.access('/dev/shm', os.W_OK):
            base = '/dev/shm'
        top = tempfile.mkdtemp(prefix='verif.c19md.', dir=base or None)
        pid = os.getpid()
        # (pool workers and Bg children leave through os._exit: only the parent cleans up)
        atexit.register(lambda: os.getpid() == pid and shutil.rmtree(top, True))
        _MD['top'] = top
    return top


def md_template() -> str:
    tpl = _MD.get('tpl')
    if tpl is None:
        tpl = os.path.join(_md_top(), 'tpl')
        w = World('maildir', users={u: p for u, p in USERS.values()},
                  maildir_dir=os.path.join(tpl, 'base'))
        w.close()
        _MD['tpl'] = tpl
    return tpl


def md_world() -> World:
    import tempfile
    tpl = md_template()
    d = tempfile.mkdtemp(prefix='w', dir=_md_top())
    shutil.copytree(tpl, d, symlinks=True, dirs_exist_ok=True)
    w = World('maildir', users={u: p for u, p in USERS.values()},
              maildir_dir=os.path.join(d, 'base'), config_kw={'_provision': False})
    w._own_dir = d            # removed by World.close()
    return w


# --------------------------------------------------------------------------
# one real execution


class Exec:

    def __init__(self, seed, name_fam=None, cont_fam=None, enc='mixed', force_drop=None,
                 backend='dict'):
        self.rng = random.Random(seed)
        self.force_drop = force_drop
        self.backend = backend
        rng = self.rng
        single = backend == 'maildir'
        self.name_fam = name_fam or rng.choice(
            sorted({**NAME_FAMILIES, **NAME_SINGLE} if single else NAME_FAMILIES))
        self.cont_fam = cont_fam or rng.choice(sorted(CONTENT_FAMILIES))
        self.enc_mode = enc
        nf = {**NAME_FAMILIES, **NAME_STRESS, **NAME_SINGLE}[self.name_fam]
        cf = {**CONTENT_FAMILIES, **CONTENT_STRESS}[self.cont_fam]
        if rng.random() < 0.5:
            nf = (nf[1], nf[0])
        if single:
            # n1 = the one name the store holds, n2 = one of the family's two names
            nf = (SINGLE_NAME, nf[0] if nf[0] != SINGLE_NAME else nf[1])
        self.names = {'n1': nf[0].encode('utf-8'), 'n2': nf[1].encode('utf-8'),
                      'empty': b''}
        self.conts = {'s1': cf[0], 's2': cf[1], 'bad': cf[2]}
        self.abs_name = {v: k for k, v in self.names.items() if k != 'empty'}
        self.abs_cont = {v: k for k, v in self.conts.items()}
        if single:
            self.w = md_world()
        else:
            self.w = World('dict', demo=False,
                           users={u: p for u, p in USERS.values()})
        if rng.random() < 0.5:
            # every second execution: what is sent arrives in several segments
            self.w.segment_rng = random.Random(rng.randrange(1 << 30))
        self.log: list = []        # (conn, sent, received)
        self.nsteps = 0
        self._literals: list = []
        self.hung: set = set()     # connections that did not answer
        self.poisoned = False      # the watchdog fired outside a server task
        self.boot: list = []
        for c in MCONNS:
            self._open(c)
        for u, p in PROBE.items():
            self._open(p)
            user, pw = USERS[u]
            tok = base64.b64encode(b'\0' + user.encode() + b'\0' + pw.encode())
            out = self._tx(p, b'AUTHENTICATE "PLAIN" "%s"\r\n' % tok)
            if out != b'OK\r\n':
                self.boot.append(f'probe login {p}: {out!r}')

    def close(self):
        # never feed EOF to a session that is stuck inside a command: cancel it
        for c, conn in self.w.conns.items():
            if (c in self.hung or self.poisoned) and conn.task is not None and not conn.done:
                conn.task.cancel()
        try:
            with watchdog(3.0):
                for c in list(self.w.conns):
                    self.w.run(c)
                self.w.close()
        except Spinning:
            pass

    # -- transport -----------------------------------------------------------

    def _open(self, c):
        conn = self.w.connect(c, service='sieve')
        g = conn.take()
        self.log.append((c, b'<connect>', g))
        try:
            r = SResp(g)
            if r.cond != 'OK' or b'OWNER' in r.caps():
                self.boot.append(f'greeting of {c}: {g!r}')
        except Malformed as exc:
            self.boot.append(f'greeting of {c} malformed ({exc}): {g!r}')

    def _tx(self, c, data: bytes, cpu: float = 2.0) -> bytes:
        try:
            with watchdog(cpu):
                self.w.send(c, data)
        except Spinning:
            self.poisoned = True
            raise
        conn = self.w.conns[c]
        out = conn.take()
        self.log.append((c, data, out))
        if conn.done and conn.outcome() == ('exc', 'Spinning()'):
            raise Spinning()       # landed in the server task and ended it
        return out

    def _drop(self, c, prefix: bytes, cpu: float = 0.15):
        """Feed an incomplete command, then end of stream.  -> (bytes written
        by the server, spinning?)"""
        conn = self.w.conns[c]
        if prefix:
            self._tx(c, prefix)
        spinning = False
        try:
            with watchdog(cpu):
                conn.eof()
                self.w.run(c)
        except Spinning:
            # the exception normally lands in the spinning server task and ends it
            spinning = True
            if not conn.done:
                self.poisoned = True
        if conn.done and conn.outcome() == ('exc', 'Spinning()'):
            spinning = True        # landed in the server task and ended it
        out = conn.take()
        self.log.append((c, prefix + b'<EOF>', out))
        return out, spinning

    # -- encoding ------------------------------------------------------------

    def enc(self, b: bytes) -> bytes:
        quotable = (len(b) <= 1000 and b'\r' not in b and b'\n' not in b
                    and b'\0' not in b)
        if quotable:
            try:
                b.decode('utf-8')
            except UnicodeDecodeError:
                quotable = False
        mode = self.enc_mode
        if mode == 'mixed':
            mode = self.rng.choice(('quoted', 'literal'))
        if mode == 'quoted' and quotable:
            return b'"' + b.replace(b'\\', b'\\\\').replace(b'"', b'\\"') + b'"'
        self._literals.append(b)
        return b'{%d+}\r\n' % len(b) + b

    def verb(self, v: bytes) -> bytes:
        k = self.rng.randrange(4)
        if k == 0:
            return v.lower()
        if k == 1:
            return v.capitalize()
        if k == 2:
            return bytes(ch ^ 0x20 if self.rng.random() < 0.5 else ch for ch in v)
        return v

    def line(self, cmd, args) -> bytes:
        rng = self.rng
        V, S, N, C = self.verb, self.enc, self.names, self.conts
        if cmd == 'Capability':
            body = V(b'CAPABILITY')
        elif cmd == 'Noop':
            body = V(b'NOOP')
            if args[0] == 'tagged':
                self._tag = rng.choice([b'tag', b'a b "c" \\', b't\xc3\xa9g', b'x' * 70])
                body += b' ' + S(self._tag)
        elif cmd == 'Logout':
            body = V(b'LOGOUT')
        elif cmd == 'StartTLS':
            body = V(b'STARTTLS')
        elif cmd == 'Unauth':
            body = V(b'UNAUTHENTICATE')
        elif cmd == 'Unknown':
            body = rng.choice(JUNK)
        elif cmd == 'Put':
            body = V(b'PUTSCRIPT') + b' ' + S(N[args[0]]) + b' ' + S(C[args[1]])
        elif cmd == 'Get':
            body = V(b'GETSCRIPT') + b' ' + S(N[args[0]])
        elif cmd == 'List':
            body = V(b'LISTSCRIPTS')
        elif cmd == 'SetActive':
            body = V(b'SETACTIVE') + b' ' + S(N[args[0]])
        elif cmd == 'Delete':
            body = V(b'DELETESCRIPT') + b' ' + S(N[args[0]])
        elif cmd == 'Rename':
            body = V(b'RENAMESCRIPT') + b' ' + S(N[args[0]]) + b' ' + S(N[args[1]])
        elif cmd == 'Check':
            body = V(b'CHECKSCRIPT') + b' ' + S(C[args[0]])
        elif cmd == 'HaveSpace':
            size = rng.choice([2 ** 31 - 1, 2 ** 40, 10 ** 15]) if args[1] == 'big' \
                else rng.choice([0, 1, 100, 4096])
            body = V(b'HAVESPACE') + b' ' + S(N[args[0]]) + b' %d' % size
        else:
            raise ValueError(cmd)
        return body + b'\r\n'

    def drop_prefix(self, how=None):
        """An incomplete command: (kind of cut, bytes)."""
        rng = self.rng
        N, C = self.names, self.conts
        how = how or rng.choices(('line', 'marker', 'literal', 'marker0'),
                                 (40, 30, 25, 5))[0]
        n = N[rng.choice(('n1', 'n2'))]
        body = C[rng.choice(('s1', 's2', 'bad'))] or b'keep;'
        if how == 'line':
            full = rng.choice([
                b'PUTSCRIPT "x" "keep;"', b'GETSCRIPT ' + self.enc(n), b'LISTSCRIPTS',
                b'DELETESCRIPT "' + b'x' * 20 + b'"', b'AUTHENTICATE "PLAIN"', b'LOGOUT',
                b'SETACTIVE ""', b'NOOP']) + b'\r\n'
            first = full.index(b'\n')
            return how, full[:rng.randint(1, first)]
        if how == 'marker0':
            return how, rng.choice([b'SETACTIVE {0+}\r\n', b'PUTSCRIPT "x" {0+}\r\n',
                                    b'GETSCRIPT {0+}\r\n', b'NOOP {0+}\r\n',
                                    b'PUTSCRIPT {%d+}\r\n' % len(n) + n + b' {0+}\r\n', b'{0+}\r\n'])
        # a command whose last string so far is a literal of at least one octet
        head, payload = rng.choice([
            (b'PUTSCRIPT ' + self.enc(n) + b' ', body), (b'CHECKSCRIPT ', body),
            (b'PUTSCRIPT ', n), (b'GETSCRIPT ', n), (b'RENAMESCRIPT "a" ', n),
            (b'DELETESCRIPT ', n), (b'HAVESPACE ', n), (b'SETACTIVE ', n)])
        marker = b'{%d+}\r\n' % len(payload)
        if how == 'marker':
            return how, head + marker
        return how, head + marker + payload[:rng.randrange(len(payload))]

    def _auth_script(self, cmd, args):
        """-> (first line, [replies to challenges])"""
        rng = self.rng
        V, S = self.verb, self.enc

        def b64(x):
            return base64.b64encode(x)

        def plain(authz, user, pw, how=None):
            msg = b64(authz + b'\0' + user + b'\0' + pw)
            how = how or rng.choice(('inline', 'challenge'))
            mech = b'"' + rng.choice((b'PLAIN', b'plain', b'Plain')) + b'"'
            if how == 'inline':
                return V(b'AUTHENTICATE') + b' ' + mech + b' ' + S(msg) + b'\r\n', []
            return V(b'AUTHENTICATE') + b' ' + mech + b'\r\n', [S(msg) + b'\r\n']

        def login(user, pw):
            return (V(b'AUTHENTICATE') + b' "' + rng.choice((b'LOGIN', b'login')) + b'"\r\n',
                    [S(b64(user)) + b'\r\n', S(b64(pw)) + b'\r\n'])

        if cmd == 'Auth':
            u, how = args
            user, pw = (x.encode() for x in USERS[u])
            other_user, other_pw = (x.encode() for x in USERS[OTHER[u]])
            if how == 'good':
                k = rng.randrange(3)
                if k == 0:
                    return login(user, pw)
                return plain(user if k == 1 else b'', user, pw)
            if how == 'badpw':
                wrong = rng.choice([pw + b'x', other_pw, pw.upper(), pw[:-1]])
                if rng.random() < 0.3:
                    return login(user, wrong)
                return plain(b'', user, wrong)
            if how == 'authz':
                return plain(other_user, user, pw)
            raise ValueError(how)
        kind = args[0]
        if kind == 'nouser':
            nobody = rng.choice([b'nobody', b'user3', b'USER1', b'user1 '])
            return plain(b'', nobody, b'pass1')
        if kind == 'badmech':
            mech = rng.choice([b'CRAM-MD5', b'XOAUTH2', b'', b'PLAINX'])
            return V(b'AUTHENTICATE') + b' "' + mech + b'"\r\n', []
        if kind == 'cancel':
            if rng.random() < 0.5:
                return V(b'AUTHENTICATE') + b' "PLAIN"\r\n', [b'"*"\r\n']
            return (V(b'AUTHENTICATE') + b' "LOGIN"\r\n',
                    [S(b64(b'user1')) + b'\r\n', b'"*"\r\n'])
        if kind == 'garbled':
            k = rng.randrange(3)
            if k == 0:
                return V(b'AUTHENTICATE') + b' "PLAIN" "!!!not-base64!!!"\r\n', []
            if k == 1:
                return V(b'AUTHENTICATE') + b' "PLAIN" ' + S(b64(b'no separators')) + b'\r\n', []
            return V(b'AUTHENTICATE') + b' "PLAIN"\r\n', [b'"%%%"\r\n']
        raise ValueError(kind)

    # -- running one abstract command ----------------------------------------

    def issue(self, c, cmd, args):
        """-> (sent list, final bytes)"""
        self._literals = []
        sent = []
        if cmd in ('Auth', 'AuthJunk'):
            first, replies = self._auth_script(cmd, args)
            sent.append(first)
            out = self._tx(c, first)
            for rep in replies:
                if not out:
                    break
                try:
                    lines = parse_lines(out)
                except Malformed:
                    break
                if _is_cond(lines[-1]):
                    break
                # a challenge: exactly one string
                if len(lines) != 1 or len(lines[0]) != 1 or lines[0][0][0] != 's':
                    break
                sent.append(rep)
                out = self._tx(c, rep)
            return sent, out
        data = self.line(cmd, args)
        sent.append(data)
        return sent, self._tx(c, data)

    def probe_user(self, u, want_names):
        """LISTSCRIPTS + GETSCRIPT on the probe connection of user u.
        -> dict(names=[..], active=[..], bodies={name: bytes|None}) or
        dict(error=...)"""
        p = PROBE[u]
        out = self._tx(p, b'LISTSCRIPTS\r\n')
        try:
            r = SResp(out)
            if r.cond != 'OK':
                return {'error': f'probe LISTSCRIPTS: {_txt(out)}'}
            names, active = r.listing()
        except Malformed as exc:
            return {'error': f'probe LISTSCRIPTS malformed ({exc}): {_txt(out)}'}
        bodies = {}
        for n in list(dict.fromkeys(list(names) + list(want_names))):
            out = self._tx(p, b'GETSCRIPT "' + n.replace(b'\\', b'\\\\').replace(b'"', b'\\"')
                           + b'"\r\n')
            try:
                r = SResp(out)
                bodies[n] = r.script() if r.cond == 'OK' else None
            except Malformed as exc:
                return {'error': f'probe GETSCRIPT {n!r} malformed ({exc}): {_txt(out)}'}
        return {'names': names, 'active': active, 'bodies': bodies}

    def probe_owner(self, c):
        out = self._tx(c, b'CAPABILITY\r\n')
        try:
            r = SResp(out)
            caps = r.caps()
        except Malformed as exc:
            return {'error': f'CAPABILITY malformed ({exc}): {_txt(out)}'}
        if r.cond != 'OK':
            return {'error': f'CAPABILITY: {_txt(out)}'}
        own = caps.get(b'OWNER')
        return {'owner': None if own is None else USER_OF.get(own, own.decode('latin-1')),
                'sasl': b'SASL' in caps}

    def glass_owner(self, c):
        """Who the server-side connection object thinks it serves:
        'none' | 'u1' | 'u2' | other name | None (object not found)."""
        task = self.w.conns[c].task
        coro = task.get_coro() if task is not None and not task.done() else None
        while coro is not None:
            fr = getattr(coro, 'cr_frame', None)
            slf = fr.f_locals.get('self') if fr is not None else None
            if type(slf).__name__ == 'ManageSieveConnection':
                st = slf._state
                if st is None:
                    return 'none'
                return USER_OF.get(st.owner, st.owner.decode('latin-1'))
            coro = getattr(coro, 'cr_await', None)
        return None

    def glass(self):
        out = {}
        if self.backend == 'maildir':
            # the script of a user is the file dovecot.sieve in the user's directory
            for u, (user, _pw) in USERS.items():
                try:
                    with open(os.path.join(self.w.base_dir, user, 'dovecot.sieve'), 'rb') as f:
                        out[u] = ({SINGLE_NAME.encode(): f.read()}, SINGLE_NAME.encode())
                except FileNotFoundError:
                    out[u] = ({}, None)
            return out
        for u, (user, _pw) in USERS.items():
            ent = self.w.config.set_cache.get(user)
            if ent is None:
                out[u] = None
                continue
            fs = ent[1]
            out[u] = ({k.encode('utf-8'): bytes(v) for k, v in fs._filters.items()},
                      None if fs._active is None else fs._active.encode('utf-8'))
        return out

    def execute(self, st) -> dict:
        """Run one abstract step; observe everything the judge needs."""
        c, cmd, args = st['conn'], st['cmd'], st['args']
        self.nsteps += 1
        mark = len(self.log)
        conn = self.w.conns[c]
        if cmd == 'Drop':
            how, prefix = self.drop_prefix(self.force_drop)
            out, spinning = self._drop(c, prefix)
            obs = {'sent': [prefix + b'<EOF>'], 'raw': out, 'resp': None, 'err': None,
                   'literals': [], 'tag': None, 'drop': how, 'spinning': spinning,
                   'closed': conn.done, 'outcome': conn.outcome()}
            if spinning or self.poisoned or not conn.done:
                obs['err'] = 'spinning' if spinning else 'notclosed'
                if conn.done:
                    self._open(c)
                return obs
            if out:
                try:
                    obs['resp'] = SResp(out)
                except Malformed as exc:
                    obs['err'] = f'malformed: {exc}'
                    return obs
            self._open(c)
        else:
            try:
                sent, out = self.issue(c, cmd, args)
            except Spinning:
                return {'sent': [self.log[-1][1] if self.log else b''], 'raw': b'',
                        'resp': None, 'err': 'spinning', 'literals': [], 'tag': None,
                        'closed': conn.done, 'outcome': conn.outcome()}
            obs = {'sent': sent, 'raw': out, 'resp': None, 'err': None,
                   'literals': list(self._literals), 'tag': getattr(self, '_tag', None)}
            if not out:
                obs['err'] = 'noresponse'
                obs['closed'] = conn.done
                obs['outcome'] = conn.outcome()
                self.hung.add(c)
                return obs
            try:
                obs['resp'] = SResp(out)
            except Malformed as exc:
                obs['err'] = f'malformed: {exc}'
                return obs
            obs['closed'] = conn.done
        conn = self.w.conns[c]
        if cmd == 'Logout' and not conn.done:
            conn.eof()                      # the model continues on a fresh connection
            self.w.run(c)
        if cmd != 'Drop' and (obs['resp'].cond == 'BYE' or conn.done):
            obs['outcome'] = conn.outcome()
            if conn.done:
                self._open(c)
        # probes: the stores of both users, the auth state of the connections
        obs['stores'] = {}
        for u in USERS:
            want = [self.names[n] for n, v in st['post']['store'][u].items()
                    if v != 'none']
            obs['stores'][u] = self.probe_user(u, want)
        # auth state: on the wire (CAPABILITY -> OWNER) after every command that
        # is about authentication or connection state, in the server's
        # connection objects after every command
        obs['gowners'] = {k: self.glass_owner(k) for k in MCONNS}
        which = MCONNS if cmd in ('Auth', 'AuthJunk', 'Unauth', 'Logout', 'Drop', 'StartTLS',
                                  'Unknown') else ((c,) if obs['gowners'][c] is None else ())
        obs['owners'] = {k: self.probe_owner(k) for k in which}
        obs['glass'] = self.glass()
        obs['stray'] = self.stray() if self.backend == 'maildir' else []
        obs['mark'] = mark
        return obs

    def stray(self) -> list:
        """maildir: files OTHER than <user>/dovecot.sieve that hold the bytes of one of
        the scripts of this execution."""
        base = self.w.base_dir
        own = {os.path.join(base, user, 'dovecot.sieve') for user, _pw in USERS.values()}
        sizes = {len(v) for v in self.conts.values() if len(v) >= 4}
        found = []
        for root, _dirs, files in os.walk(os.path.dirname(base)):
            for fn in files:
                path = os.path.join(root, fn)
                try:
                    if path in own or os.path.getsize(path) not in sizes:
                        continue
                    with open(path, 'rb') as f:
                        if f.read() in self.conts.values():
                            found.append(os.path.relpath(path, base))
                except OSError:
                    continue
        return found

    # -- judging an observation against (r, post) ----------------------------

    def judge(self, st, obs, res=None, post=None) -> list:
        res = res if res is not None else st['res']
        post = post if post is not None else st['post']
        c, cmd, args, pre = st['conn'], st['cmd'], st['args'], st['pre']
        gated = pre == 'none' and cmd not in PRE_AUTH_CMDS
        area = 'Gate' if gated else ('Map' if cmd in MAP_CMDS and pre != 'none'
                                     else 'Other')
        prop = area in ('Gate', 'Map')
        out: list = []
        label = f'{cmd}({c}{"," if args else ""}{",".join(map(str, args))})'
        if self.backend != 'dict':
            label = f'{self.backend}: {label}'
        if res.get('dev'):
            label += f' [the model follows the deviation {res["dev"]} measured at calibration]'
        sent = _txt(b''.join(obs['sent']), 200)
        if obs['err'] == 'spinning':
            sig = 'EofAfterZeroLengthLiteralSpins' if obs.get('drop') == 'marker0' \
                else f'Spins:{cmd}:{obs.get("drop", "")}'
            out.append(Finding('violation', sig,
                               f'{label}: after {sent!r} the server task loops for ever without '
                               f'suspending (the whole event loop is blocked)',
                               fatal=self.poisoned))
            return out
        if obs['err'] == 'notclosed':
            out.append(Finding('drift', f'Drop:notclosed:{obs.get("drop")}',
                               f'{label}: connection still open after end of stream following {sent!r}'))
            return out
        if obs['err'] == 'noresponse':
            if any(_LITMARK_END.search(lit) for lit in obs.get('literals') or ()):
                sig = 'LiteralEndsWithLiteralMarker'
            elif obs.get('closed'):
                sig = f'ConnectionDropped:{cmd}'
            else:
                sig = f'NoResponse:{cmd}'
            out.append(Finding('violation', sig,
                               f'{label}: no response to {sent!r} '
                               f'(connection {"closed " + str(obs.get("outcome")) if obs.get("closed") else "still waiting for input"})'))
            return out
        if obs['err']:
            out.append(Finding('violation' if prop or cmd in SCRIPT_CMDS else 'drift',
                               f'Malformed:{cmd}',
                               f'{label}: response to {sent!r} is not RFC 5804 syntax '
                               f'({obs["err"]}): {_txt(obs["raw"])}'))
            return out
        r: SResp = obs['resp']
        if r is None:                      # Drop without a word: allowed
            r = _Silent()
        # 1. condition class
        if r.cond not in res['cls']:
            out.append(Finding('violation' if prop else 'drift', f'{area}:{cmd}:cond',
                               f'{label} with model auth={pre}: expected {"/".join(res["cls"])}, '
                               f'got {_txt(obs["raw"], 120)!r}'))
            return out
        if (r.cond == 'BYE' or cmd == 'Logout') and not obs.get('closed'):
            out.append(Finding('drift', f'StaysOpen:{cmd}',
                               f'{label}: {r.cond} but the connection stays open', False))
        # 2. payload
        kind = res['kind'] if r.cond == 'OK' else 'plain'
        try:
            if kind == 'list':
                names, active = r.listing()
                exp_names = sorted(self.names[n] for n in res['names'])
                exp_act = sorted(self.names[n] for n in res['act'])
                if sorted(names) != exp_names:
                    out.append(Finding('violation', 'Map:List:names',
                                       f'{label}: listed {sorted(names)!r}, model has {exp_names!r}'))
                elif sorted(active) != exp_act:
                    out.append(Finding('violation', 'Map:List:active',
                                       f'{label}: marked ACTIVE {sorted(active)!r}, model {exp_act!r}'))
            elif kind == 'script':
                body = r.script()
                if body != self.conts[res['body']]:
                    out.append(Finding('violation', 'Map:Get:body',
                                       f'{label}: returned {_txt(body, 80)!r}, stored was '
                                       f'{_txt(self.conts[res["body"]], 80)!r}'))
            elif kind == 'caps':
                caps = r.caps()
                own = caps.get(b'OWNER')
                own = None if own is None else USER_OF.get(own, own.decode('latin-1'))
                if (own or 'none') != res['owner']:
                    out.append(Finding('drift', 'Capability:owner',
                                       f'{label}: OWNER {own}, model {res["owner"]}', False))
                if res['owner'] == 'none' and b'SASL' not in caps:
                    out.append(Finding('drift', 'Capability:sasl',
                                       f'{label}: no SASL capability before authentication', False))
            else:
                if r.data:
                    out.append(Finding('violation' if prop else 'drift', f'{area}:{cmd}:data',
                                       f'{label}: unexpected data lines {_txt(obs["raw"], 120)!r}'))
        except Malformed as exc:
            out.append(Finding('violation' if prop else 'drift', f'Malformed:{cmd}',
                               f'{label}: payload not as RFC 5804 says ({exc}): {_txt(obs["raw"])}'))
        if out and any(f['fatal'] for f in out):
            return out
        # 3. response code (informational: the property does not speak of codes)
        code = r.code or ''
        if code.startswith('QUOTA'):
            code = 'QUOTA'
        if 'ANY' not in res['code'] and code not in res['code']:
            out.append(Finding('drift', f'Code:{cmd}:{"/".join(res["code"]) or "-"}->{code or "-"}',
                               f'{label}: response code {code or "(none)"}, RFC 5804 '
                               f'asks for {"/".join(res["code"]) or "(none)"}', False))
        if code == 'TAG' and args and args[0] == 'tagged':
            got = r.code_args[0][1] if r.code_args and r.code_args[0][0] == 's' else None
            if got != obs['tag']:
                out.append(Finding('drift', 'Noop:tag', f'{label}: tag {got!r} != {obs["tag"]!r}', False))
        # 4. the stores of both users, as seen on other connections
        for u in USERS:
            ob = obs['stores'][u]
            if 'error' in ob:
                out.append(Finding('violation', f'Probe:{cmd}', f'after {label}: {ob["error"]}'))
                continue
            exp = {self.names[n]: self.conts[v] for n, v in post['store'][u].items()
                   if v != 'none'}
            exp_act = sorted(self.names[n] for n in post['active'][u])
            diffs = []
            if sorted(ob['names']) != sorted(exp):
                diffs.append(f'names listed {sorted(ob["names"])!r}, model {sorted(exp)!r}')
            if sorted(ob['active']) != exp_act:
                diffs.append(f'ACTIVE {sorted(ob["active"])!r}, model {exp_act!r}')
            for n, b in ob['bodies'].items():
                if b != exp.get(n):
                    diffs.append(f'GETSCRIPT {n!r} gives '
                                 f'{None if b is None else _txt(b, 60)!r}, model '
                                 f'{None if exp.get(n) is None else _txt(exp[n], 60)!r}')
            if diffs:
                if gated:
                    sig = f'Gate:{cmd}:effect'
                elif pre != u:
                    sig = f'Isolation:{cmd}'
                else:
                    sig = f'Map:{cmd}:effect'
                out.append(Finding('violation', sig,
                                   f'after {label} (model auth={pre}) the scripts of {u} '
                                   f'differ from the model: ' + '; '.join(diffs)))
        # 5. who the connections are authenticated as
        seen = []
        for k, ob in obs['owners'].items():
            if 'error' in ob:
                out.append(Finding('drift', f'Probe:Capability:{cmd}', f'after {label}: {ob["error"]}'))
                continue
            seen.append((k, ob['owner'] or 'none'))
        seen += [(k, g) for k, g in obs['gowners'].items() if g is not None and k not in obs['owners']]
        for k, got in seen:
            want = post['auth'][k]
            if got == want:
                continue
            if want == 'none':
                out.append(Finding('violation', f'Gate:{cmd}:auth',
                                   f'after {label} connection {k} is authenticated as {got}, '
                                   f'the model says not authenticated'))
            elif got == 'none':
                out.append(Finding('drift', f'Auth:{cmd}:noteffective',
                                   f'after {label} connection {k} is not authenticated, model {want}'))
            else:
                out.append(Finding('violation', f'Isolation:{cmd}:auth',
                                   f'after {label} connection {k} is {got}, model {want}'))
        # 6. glass box (only if the wire agreed)
        if not out and obs.get('stray'):
            out.append(Finding('drift', f'Glass:StrayCopy:{cmd}',
                               f'after {label} script bytes are found in {obs["stray"]!r} '
                               f'(outside <user>/dovecot.sieve)'))
        if not out:
            for u, g in obs['glass'].items():
                if g is None:
                    continue
                exp = {self.names[n]: self.conts[v] for n, v in post['store'][u].items()
                       if v != 'none'}
                exp_act = [self.names[n] for n in post['active'][u]]
                if g[0] != exp or ([g[1]] if g[1] is not None else []) != exp_act:
                    out.append(Finding('drift', f'Glass:{cmd}',
                                       f'after {label} FilterSet of {u} = {g!r}, model {exp!r}/{exp_act!r}'))
        return out


# what the named deviations of Sieve.tla (DevTags) mean on the wire, and the clause of
# the property each contradicts (Sieve.tla DevClause; confirmed by TLC on every run)
DEV_TEXT = {
    'SinglePutOtherNameDropped':
        'PUTSCRIPT of a name the single-script store cannot hold is answered OK and '
        'nothing is stored: GETSCRIPT of that name says NO, LISTSCRIPTS does not list it '
        '(clause: PUTSCRIPT then GETSCRIPT returns the same bytes)',
    'SingleDeleteActive':
        'DELETESCRIPT of the script LISTSCRIPTS marks ACTIVE is answered OK and the '
        'script is gone (clause: the active script cannot be deleted)',
    'SingleSetActiveMissing':
        'SETACTIVE of a name that is not stored is answered OK; nothing is active '
        'afterwards (clause: LISTSCRIPTS marks the active one / map of stored names)',
    'SingleDeleteMissing':
        'DELETESCRIPT of a name that is not stored is answered OK (clause: the store '
        'is a map of the stored names)',
}
def dev_clause() -> dict:
    """deviation -> the law of Sieve.tla it contradicts: the module's DevClause"""
    text = open(os.path.join(tlc.SPEC_DIR, 'Sieve.tla')).read()
    m = re.search(r'^DevClause == \[(.*?)\]', text, re.S | re.M)
    if not m:
        raise tlc.TLCError('Sieve.tla: no DevClause')
    return dict(re.findall(r'(\w+)\s*\|->\s*"(\w+)"', m.group(1)))


def run_steps(steps, seed, name_fam=None, cont_fam=None, enc='mixed', force_drop=None,
              backend='dict') -> dict:
    """Replay abstract steps (each with the result and post-state TLC
    computed) on a fresh real server."""
    ex = Exec(seed, name_fam, cont_fam, enc, force_drop, backend)
    res = {'n': 0, 'findings': [], 'fams': [ex.name_fam, ex.cont_fam, enc],
           'switch': None, 'trace': [], 'mut_ok': 0, 'refused_unauth': 0,
           'cmds': {}, 'devs': {}, 'backend': backend}
    try:
        if ex.boot:
            res['findings'].append(Finding('drift', 'Boot', '; '.join(ex.boot)))
            return res
        for i, st in enumerate(steps):
            obs = ex.execute(st)
            fs = ex.judge(st, obs)
            if any(f['fatal'] for f in fs) and st.get('alts'):
                for alt in st['alts']:
                    if not ex.judge(st, obs, alt['res'], alt['post']):
                        res['switch'] = {'step': i, 'took': alt['res']['alt'],
                                         'planned': st['res']['alt']}
                        if st['res'].get('dev'):
                            res['switch']['planned_deviation'] = st['res']['dev']
                        fs = None
                        break
                if fs is None:
                    break
            cond = obs['resp'].cond if obs['resp'] is not None else (obs['err'] or 'NONE')
            res['trace'].append([st['cmd'], st['conn']] + [str(a) for a in st['args']] + [cond])
            res['cmds'][st['cmd']] = res['cmds'].get(st['cmd'], 0) + 1
            if fs:
                for f in fs:
                    f['step'] = i
                res['findings'].extend(fs)
                if any(f['fatal'] for f in fs):
                    res['fail_step'] = i
                    res['log'] = [[c, _txt(s, 600), _txt(r, 600)]
                                  for c, s, r in ex.log[-14:]]
                    break
            res['n'] += 1
            dev = st['res'].get('dev')
            if dev and dev not in res['devs']:
                # the server did what the deviation edge of the as-is model says
                res['devs'][dev] = {
                    'step': i,
                    'what': f'{backend}: {st["cmd"]}({st["conn"]},{",".join(map(str, st["args"]))}) '
                            f'sent {_txt(b"".join(obs["sent"]), 160)!r}, answered '
                            f'{_txt(obs["raw"], 80)!r}; {DEV_TEXT.get(dev, dev)}'}
            if cond == 'OK' and st['cmd'] in MUTATORS and not dev:
                res['mut_ok'] += 1
            if st['pre'] == 'none' and st['cmd'] in SCRIPT_CMDS and cond in ('NO', 'BYE'):
                res['refused_unauth'] += 1
    finally:
        ex.close()
    return res


# --------------------------------------------------------------------------
# building steps from TLC output

_label_cache: dict = {}


def _parse_label(label):
    v = _label_cache.get(label)
    if v is None:
        name, args = tlc.parse_label(label)
        v = (name, str(args[0]), [str(a) for a in args[1:-1]], jsonable(args[-1]))
        _label_cache[label] = v
    return v


def _post(state) -> dict:
    return {'auth': jsonable(state['auth']), 'store': jsonable(state['store']),
            'active': jsonable(state['active'])}


def _step(label, src_state, dst_state) -> dict:
    cmd, conn, args, res = _parse_label(label)
    return {'cmd': cmd, 'conn': conn, 'args': args, 'res': res,
            'pre': str(src_state['auth'][conn]), 'post': _post(dst_state)}


def steps_of_path(graph, init, path, groups=None) -> list:
    out = []
    src = init
    for label, dst in path:
        st = _step(label, graph.nodes[src], graph.nodes[dst])
        if groups is not None and st['res']['alt']:
            cmd, conn, args, _ = _parse_label(label)
            st['alts'] = [{'res': _parse_label(l2)[3], 'post': _post(graph.nodes[d2])}
                          for l2, d2 in groups[src].get((cmd, conn, tuple(map(str, args))), [])
                          if l2 != label]
        out.append(st)
        src = dst
    return out


def simulate(cfg_path: str, num: int, depth: int, seed: int):
    """tlc.simulate cannot be used: the edge labels contain `|->`, which its
    header regex ([^>]*) does not get past."""
    d = tlc._scratch('sim')
    try:
        res = tlc.run_tlc('Sieve.tla', cfg_path, workers=1, timeout=600, deadlock=False,
                          extra=['-simulate', f'file={d}/tr,num={num}',
                                 '-depth', str(depth), '-seed', str(seed)])
        behaviours = []
        for fn in sorted(os.listdir(d), key=lambda s: [int(x) for x in re.findall(r'\d+', s)]):
            if not fn.startswith('tr_'):
                continue
            text = open(os.path.join(d, fn)).read()
            beh = []
            for m in re.finditer(r'^\\\* <(.*)>\nSTATE_\d+ == \n((?:.*\n)*?)\n\n', text, re.M):
                head = m.group(1)
                lm = re.match(r'(\w+(?:\([^)]*\))?) line \d+', head)
                label = lm.group(1)
                if label.startswith('Init'):
                    label = 'Init'
                beh.append((label, tlc.parse_state(m.group(2))))
            if beh:
                behaviours.append(beh)
    finally:
        shutil.rmtree(d, ignore_errors=True)
    return behaviours, res


def steps_of_behaviour(beh) -> list:
    out = []
    for i in range(1, len(beh)):
        label, state = beh[i]
        st = _step(label, beh[i - 1][1], state)
        if st['res'] != jsonable(state['last']['res']) or st['conn'] != str(state['last']['conn']):
            raise tlc.TLCError(f'label {label} disagrees with last = {state["last"]}')
        out.append(st)
    return out


def sim_steps(cfg_text: str, num: int, depth: int, seed: int):
    """-> ([steps of behaviour 1, ...], TLCResult) with the calibrated cfg"""
    d = tlc._scratch('c19cfg')
    try:
        cfg_path = os.path.join(d, 'Sieve_sim_cal.cfg')
        with open(cfg_path, 'w') as f:
            f.write(cfg_text)
        behs, res = simulate(cfg_path, num, depth, seed)
    finally:
        shutil.rmtree(d, ignore_errors=True)
    res.output = res.output[-4000:]
    return [steps_of_behaviour(b) for b in behs], res


class Bg:
    """Run fn(*a, **kw) in a forked child (TLC runs next to the replay); no
    threads, so that the replay pool can fork safely."""

    def __init__(self, fn, *a, **kw):
        r, w = os.pipe()
        pid = os.fork()
        if pid == 0:
            code = 1
            try:
                os.close(r)
                try:
                    out = (True, fn(*a, **kw))
                except BaseException as exc:      # reported in the parent
                    out = (False, repr(exc))
                with os.fdopen(w, 'wb') as f:
                    pickle.dump(out, f)
                code = 0
            finally:
                os._exit(code)
        os.close(w)
        self.pid, self.r = pid, r

    def result(self):
        with os.fdopen(self.r, 'rb') as f:
            data = f.read()
        os.waitpid(self.pid, 0)
        if not data:
            raise tlc.TLCError('background job died')
        ok, val = pickle.loads(data)
        if not ok:
            raise tlc.TLCError(val)
        return val


# --------------------------------------------------------------------------
# parallel replay (fork: the jobs are inherited, only results are pickled)

_JOBS: list = []


def _job(i):
    steps, seed, nf, cf, enc = _JOBS[i][:5]
    try:
        return run_steps(steps, seed, nf, cf, enc, *_JOBS[i][5:])
    except Exception as exc:           # harness problem, not a verdict
        import traceback
        return {'crash': f'{exc!r}\n{traceback.format_exc()}'}


def run_jobs(jobs: list) -> list:
    global _JOBS
    _JOBS = jobs
    nproc = int(os.environ.get('VERIF_PROCS') or min(8, os.cpu_count() or 1))
    if nproc <= 1 or len(jobs) < 4:
        return [_job(i) for i in range(len(jobs))]
    ctx = multiprocessing.get_context('fork')
    with ctx.Pool(nproc) as pool:
        return pool.map(_job, range(len(jobs)), chunksize=max(1, len(jobs) // (nproc * 8)))


# --------------------------------------------------------------------------


def calibrate(backend: str = 'dict') -> dict:
    """Which of the alternatives the model allows does this server take?  On the
    single-script store (maildir) also: which of the model's named deviations
    (Sieve.tla DevTags) does it show?  The answer only selects the as-is model
    the tours follow (Open); every execution is still compared step by step
    with what TLC computed for that model, and every execution that walks a
    deviation edge is reported under the deviation's name."""
    ex = Exec(0, 'ascii', 'tiny', 'quoted', backend=backend)
    try:
        taken = {}
        _s, out = ex.issue('c1', 'Auth', ['u1', 'authz'])
        taken['authz'] = 'AuthzAsAuthcid' if out.startswith(b'OK') else 'AuthzRefused'
        if not out.startswith(b'OK'):
            ex.issue('c1', 'Auth', ['u1', 'good'])
        if backend == 'maildir':
            devs = []
            for dev, prog in (
                    ('SingleSetActiveMissing', [('SetActive', ['n1'])]),
                    ('SingleDeleteMissing', [('Delete', ['n1'])]),
                    ('SinglePutOtherNameDropped', [('Put', ['n2', 's1'])]),
                    ('SingleDeleteActive', [('Put', ['n1', 's1']), ('Delete', ['n1'])])):
                for cmd, args in prog:
                    _s, out = ex.issue('c1', cmd, args)
                if out.startswith(b'OK'):
                    devs.append(dev)
            taken['devs'] = sorted(devs)
        _s, out = ex.issue('c1', 'Put', ['n1', 'bad'])
        taken['putbad'] = 'PutBadStored' if out.startswith(b'OK') else 'PutBadRefused'
        _s, out = ex.issue('c1', 'Logout', [])
        taken['logout'] = out[:3].decode('latin-1').strip()
    finally:
        ex.close()
    return taken


SCENARIOS = [
    # the laws of the property, one after the other, with the name collision
    # between the two users and an unauthenticated bystander
    ['Auth(c1,u1,good', 'Auth(c2,u2,good', 'Put(c1,n1,s1', 'Get(c1,n1', 'Put(c2,n1,s2',
     'Get(c2,n1', 'Get(c1,n1', 'List(c1', 'List(c2', 'SetActive(c1,n1', 'List(c1',
     'Delete(c1,n1', 'Get(c1,n1', 'Put(c1,n1,s2', 'Get(c1,n1', 'Rename(c1,n1,n2',
     'List(c1', 'Get(c1,n2', 'Get(c1,n1', 'Delete(c1,n2', 'Put(c1,n1,bad', 'Get(c1,n1',
     'Check(c1,s1', 'Check(c1,bad', 'Rename(c1,n1,n2', 'Rename(c1,n2,n2',
     'SetActive(c1,empty', 'List(c1', 'Delete(c1,n2', 'List(c1', 'Get(c3,n1', 'List(c3',
     'Put(c3,n1,s1', 'Delete(c3,n1', 'SetActive(c3,n1', 'Rename(c3,n1,n1', 'List(c2',
     'Get(c2,n1', 'Unauth(c1', 'Get(c1,n1', 'Put(c1,n2,s1', 'List(c1', 'Logout(c2', 'List(c2'],
    ['Put(c1,n1,s1', 'SetActive(c1,n1', 'Delete(c1,n1', 'Auth(c1,u1,badpw', 'Put(c1,n1,s1',
     'Auth(c1,u1,good', 'Put(c1,n2,s2', 'Put(c1,n1,s1', 'SetActive(c1,n2', 'SetActive(c1,n1',
     'List(c1', 'Rename(c1,n2,n1', 'Delete(c1,n2', 'Rename(c1,n1,n2', 'List(c1', 'Get(c1,n2',
     'Put(c1,n2,s2', 'Get(c1,n2', 'List(c1', 'Delete(c1,n2', 'HaveSpace(c1,n1,small',
     'Put(c1,empty,s1', 'Get(c1,empty', 'SetActive(c1,empty', 'Delete(c1,n2', 'List(c1',
     'Drop(c3', 'Drop(c1', 'Get(c1,n2', 'Auth(c1,u1,good', 'List(c1', 'Logout(c1', 'Get(c1,n1',
     'Auth(c1,u1,good', 'Get(c1,n1'],
]
# the single-script store (maildir) gets one more: both users keep a script under the
# SAME (the only) name, other names are tried in between, the script is replaced,
# removed and put again
SCENARIOS_SINGLE = SCENARIOS + [
    ['Auth(c1,u1,good', 'Auth(c2,u2,good', 'SetActive(c1,n1', 'List(c1', 'Delete(c1,n1',
     'Put(c1,n2,s1', 'Get(c1,n2', 'List(c1', 'List(c2', 'Put(c1,n1,s1', 'List(c2',
     'Get(c2,n1', 'Put(c2,n1,s2', 'Get(c1,n1', 'Get(c2,n1', 'Put(c1,n2,s2', 'Get(c1,n1',
     'Get(c1,n2', 'Rename(c1,n1,n2', 'Rename(c1,n2,n1', 'List(c1', 'SetActive(c1,empty',
     'List(c1', 'SetActive(c1,n2', 'SetActive(c1,n1', 'HaveSpace(c1,n2,small',
     'Put(c1,n1,bad', 'Get(c1,n1', 'Delete(c1,n2', 'Delete(c1,n1', 'List(c1', 'Get(c1,n1',
     'Get(c2,n1', 'List(c2', 'Put(c1,n1,s2', 'Delete(c2,n1', 'Get(c1,n1', 'Put(c3,n1,s1',
     'List(c1', 'Unauth(c2', 'Get(c2,n1', 'Logout(c1', 'Get(c1,n1', 'Auth(c1,u1,good',
     'List(c1', 'Get(c1,n1'],
]


def scenario_steps(graph, groups, prefixes, excluded) -> list:
    node = graph.inits[0]
    path = []
    for pre in prefixes:
        want = pre.replace('(', ',').split(',')
        cands = []
        for l, d in graph.edges[node]:
            cmd, conn, args, res = _parse_label(l)
            if [cmd, conn] + args == want and res['alt'] not in excluded:
                cands.append((l, d))
        if len(cands) != 1:
            raise tlc.TLCError(f'scenario step {pre}: {len(cands)} edges at node {node}')
        path.append(cands[0])
        node = cands[0][1]
    return steps_of_path(graph, graph.inits[0], path, groups)


def _signature(r) -> str:
    if r.get('backend', 'dict') != 'dict':
        return digest([r['backend'], r['trace']])
    return digest(r['trace'])


def _absorb(run: Run, r: dict, meta: dict, stats: dict) -> None:
    """Account for one real execution."""
    if 'crash' in r:
        run.machinery(f'{meta["stage"]} #{meta["index"]}: {r["crash"][:1500]}')
        return
    stats['steps'] += r['n']
    for k, v in r['cmds'].items():
        stats['cmds'][k] = stats['cmds'].get(k, 0) + v
    stats['refused_unauth'] += r['refused_unauth']
    stats['mut_ok'] += r['mut_ok']
    if r['switch']:
        stats['switches'].append({**meta, **r['switch']})
    nontrivial = r['mut_ok'] > 0 and r['n'] >= 3
    run.count_exec(_signature(r), nontrivial=nontrivial)
    stats['executions'] = stats.get('executions', 0) + 1
    if nontrivial:
        stats.setdefault('nontrivial', set()).add(_signature(r))
    backend = r.get('backend', 'dict')
    where = '' if backend == 'dict' else f'{backend} '

    def replay_of(upto, sig):
        replay = {'check': 'C19', **meta, 'fams': r['fams'], 'upto': upto, 'finding': sig}
        steps, seed, nf, cf, enc = meta['_job'][:5]
        replay['exec_seed'] = seed
        replay['force_drop'] = (list(meta['_job'][5:]) or [None])[0]
        if backend != 'dict':
            replay['backend'] = backend
        replay['steps'] = steps[:(upto if upto is not None else len(steps)) + 1]
        replay['wire_log'] = r.get('log')
        replay.pop('_job', None)
        return replay

    for f in r['findings']:
        if f['level'] == 'drift':
            key = f['sig'] if backend == 'dict' else f'{backend}:{f["sig"]}'
            ent = stats['drift'].setdefault(key, {'sig': key, 'count': 0, 'first': f['what'],
                                                  'where': meta})
            ent['count'] += 1
            continue
        run.violation(f'[{f["sig"]}] {f["what"]} '
                      f'(names={r["fams"][0]}, scripts={r["fams"][1]}, strings={r["fams"][2]}, '
                      f'{where}{meta["stage"]} #{meta["index"]} step {f.get("step")})',
                      replay_of(f.get('step'), f['sig']), f['sig'])
    # an execution that walked a deviation edge of the as-is model: a violation under
    # the deviation's name, excused only by an OPEN entry of known/C19.json with that id
    # (the deviations exist in the single profile only, i.e. on this store only)
    for dev, ent in sorted(r.get('devs', {}).items()):
        stats['devs'][dev] = stats['devs'].get(dev, 0) + 1
        run.violation(f'[{dev}] {ent["what"]} '
                      f'(names={r["fams"][0]}, scripts={r["fams"][1]}, strings={r["fams"][2]}, '
                      f'{where}{meta["stage"]} #{meta["index"]} step {ent["step"]})',
                      replay_of(ent['step'], dev), dev)


def _cfg_with(name: str, scratch: str, latitude=None, open_=None, only_property=None) -> str:
    """A copy of spec/<name> with Latitude / Open replaced (and, for the clause
    runs, one PROPERTY only)."""
    text = open(os.path.join(tlc.SPEC_DIR, name)).read()
    if latitude is not None:
        lat = ', '.join(f'"{x}"' for x in sorted(latitude))
        text, n = re.subn(r'Latitude = \{[^}]*\}', 'Latitude = {' + lat + '}', text)
        if n != 1:
            raise tlc.TLCError(f'{name}: no Latitude line')
    if open_ is not None:
        op = ', '.join(f'"{x}"' for x in sorted(open_))
        text, n = re.subn(r'Open = \{[^}]*\}', 'Open = {' + op + '}', text)
        if n != 1:
            raise tlc.TLCError(f'{name}: no Open line')
    if only_property is not None:
        text = re.sub(r'^PROPERTY \w+\n', '', text, flags=re.M) + f'PROPERTY {only_property}\n'
    tag = digest([name, latitude, open_, only_property])
    path = os.path.join(scratch, f'{name[:-4]}_{tag}.cfg')
    with open(path, 'w') as f:
        f.write(text)
    return path


def _mc(cfg, workers):
    r = tlc.run_tlc('Sieve.tla', cfg, workers=workers, timeout=3000)
    r.output = r.output[-4000:]
    return r


def _dump(cfg, workers):
    graph, r = tlc.dump_graph('Sieve.tla', cfg, workers=workers)
    r.output = r.output[-4000:]
    return graph, r


def _state_key(post: dict) -> str:
    return json.dumps(post, sort_keys=True)


def _strict_index(workers: int = 2):
    """(Background.)  What the PROPERTY asks for wherever the as-is model follows a
    deviation: the state graph of the single profile with Open = {} over the full scope
    (VIEW base; its states include those of the small and medium scopes), reduced to
    the commands that can deviate.  -> ({(state, cmd, conn, args): [{res, post}]}, res)"""
    graph, r = tlc.dump_graph('Sieve.tla', 'Sieve_single_full_graph.cfg', workers=workers)
    r.output = r.output[-4000:]
    idx: dict = {}
    for src, outs in graph.edges.items():
        key = _state_key(_post(graph.nodes[src]))
        for label, dst in outs:
            if not label.startswith(('Put(', 'SetActive(', 'Delete(')):
                continue
            cmd, conn, args, res = _parse_label(label)
            idx.setdefault((key, cmd, conn, tuple(args)), []).append(
                {'res': res, 'post': _post(graph.nodes[dst])})
    return idx, r


def attach_strict(steps: list, init_post: dict, strict: dict, excluded) -> None:
    """Every step that follows a deviation also gets the outcome the property asks for
    (computed by TLC, _strict_index) as an alternative: a server that gives that one
    instead ends the execution there (a switch, as for latitude) - so a replay file of a
    deviation stops reproducing, without a false alarm, once the defect is repaired."""
    pre = init_post
    for st in steps:
        if st['res'].get('dev'):
            alts = [a for a in strict.get((_state_key(pre), st['cmd'], st['conn'],
                                           tuple(st['args'])), [])
                    if a['res']['alt'] not in excluded and not a['res'].get('dev')]
            st['alts'] = list(st.get('alts') or []) + alts
        pre = st['post']


def _known_override(kn, notes=None) -> None:
    """VERIF_C19_KNOWN=<file> (experiments only, like VERIF_REPO): take the known
    findings from that file instead of known/C19.json."""
    path = os.environ.get('VERIF_C19_KNOWN')
    if not path:
        return
    kn.open, kn.fixed = {}, {}
    for e in json.load(open(path)).get('findings', []):
        if e.get('property') == 'C19':
            (kn.open if e.get('status') == 'open' else kn.fixed)[e['id']] = e
    if notes is not None:
        notes['known_findings_file'] = path


def start_sim(run: Run, backend: str, quick: bool, taken: dict, sim_cfg: str, scratch: str,
              seed0: int):
    """TLC -simulate of the full scope with the measured latitude (and, on the single
    store, the measured deviations), in the background.  -> (num, depth, [Bg])"""
    if backend == 'dict':
        num, depth, chunks = (160, 60, 1) if quick else (8000, 100, 8)
    else:
        num, depth, chunks = (64, 50, 1) if quick else (4000, 100, 4)
    cfg = open(_cfg_with(sim_cfg, scratch, {taken['authz'], taken['putbad']},
                         None if backend == 'dict' else taken.get('devs', []))).read()
    return num, depth, [Bg(sim_steps, cfg, num // chunks, depth,
                           run.seed * 100 + 1 + k + (seed0 and 50)) for k in range(chunks)]


def tour(run: Run, backend: str, quick: bool, graph, taken: dict, notes: dict,
         bg_mc: list, t00: float, seed0: int, scenarios: list, sim_cfg: str,
         scratch: str, scope_text: str, sim=None, strict=None) -> bool:
    """Stages 2-5 on one backend.  -> False: stop (machinery failure reported).
    seed0 separates the seeds of the backends (0 for dict: the executions of
    the dict backend are what they were before the maildir backend was added)."""
    dict_b = backend == 'dict'
    notes['latitude_taken'] = taken
    excluded = {'PutBadRefused', 'PutBadStored', 'AuthzRefused', 'AuthzAsAuthcid'} \
        - {taken['authz'], taken['putbad']}
    obs_notes = []
    if taken['putbad'] == 'PutBadStored':
        obs_notes.append('PUTSCRIPT stores scripts that do not compile (RFC 5804 2.6 asks for NO); '
                         'the property does not forbid it')
    if taken['logout'] == 'BYE':
        obs_notes.append('LOGOUT is answered with BYE (RFC 5804 2.3: OK)')
    if taken['authz'] == 'AuthzAsAuthcid':
        obs_notes.append('SASL PLAIN with a foreign authorization identity logs in as the '
                         'authentication identity (authzid ignored)')
    notes['observations'] = obs_notes

    groups: dict = {}
    pruned: dict = {}
    for src, outs in graph.edges.items():
        g = groups.setdefault(src, {})
        for label, dst in outs:
            cmd, conn, args, res = _parse_label(label)
            g.setdefault((cmd, conn, tuple(map(str, args))), []).append((label, dst))
            if res['alt'] not in excluded:
                pruned.setdefault(src, []).append((label, dst))
    pgraph = tlc.Graph(graph.nodes, pruned, graph.inits)
    paths = tlc.edge_cover(pgraph, max_len=70)
    reach = set()
    for init, path in paths:
        src = init
        for label, dst in path:
            reach.add((src, label))
            src = dst
    notes['graph'] = {'nodes': len(graph.nodes), 'edges': graph.n_edges,
                      'edges_after_latitude': len(reach), 'cover_paths': len(paths),
                      'cover_steps': sum(len(p) for _i, p in paths)}
    notes['t_cover_s'] = round(time.time() - t00, 1)

    stats = {'steps': 0, 'cmds': {}, 'refused_unauth': 0, 'mut_ok': 0, 'switches': [],
             'drift': {}, 'devs': {}}
    tail = () if dict_b else (None, backend)

    # simulation of the full scope with the measured latitude: start TLC now
    # (unless it was started before)
    num, depth, bg_sim = sim or start_sim(run, backend, quick, taken, sim_cfg, scratch, seed0)

    # 3. replay the edge cover
    jobs, metas = [], []
    init_post = _post(graph.nodes[graph.inits[0]])
    for i, (init, path) in enumerate(paths):
        steps = steps_of_path(graph, init, path, groups)
        if strict:
            attach_strict(steps, _post(graph.nodes[init]), strict, excluded)
        job = (steps, run.seed * 1000003 + seed0 + i, None, None, 'mixed') + tail
        jobs.append(job)
        metas.append({'stage': 'graph', 'index': i, '_job': job})
    results = run_jobs(jobs)
    covered = set()
    v0 = len(run.violations)
    for (init, path), r, meta in zip(paths, results, metas):
        _absorb(run, r, meta, stats)
        if 'crash' in r:
            continue
        src = init
        for label, dst in path[:r['n']]:
            covered.add((src, label))
            src = dst
    notes['graph']['edges_replayed'] = len(covered)
    notes['graph']['steps_replayed'] = stats['steps']
    exhaustive = len(covered) == len(reach) and len(run.violations) == v0
    if dict_b:
        run.cov['exhaustive'] = exhaustive and not run.violations
    else:
        run.cov['exhaustive'] = bool(run.cov['exhaustive']) and exhaustive
        notes['exhaustive'] = len(covered) == len(reach)
    notes['exhaustive_scope'] = scope_text
    notes['t_graph_replay_s'] = round(time.time() - t00, 1)
    for r in results[:1] + results[len(results) // 2:len(results) // 2 + 1]:
        if 'crash' not in r:
            run.sample({'stage': 'graph', 'fams': r['fams'], 'trace': r['trace'][:40]}
                       if dict_b else
                       {'stage': 'graph', 'backend': backend, 'fams': r['fams'],
                        'trace': r['trace'][:40]}, 3 if dict_b else 5)

    # 4. simulation of the full scope (TLC ran next to the graph replay)
    try:
        for nm, bg in bg_mc:
            res_mc = bg.result()
            run.add_model(res_mc, nm)
            if not res_mc.ok:
                run.machinery(f'model check of {nm} failed: {res_mc.violated or res_mc.error}')
                return False
        sims, res_s, nbeh = [], None, 0
        for bg in bg_sim:
            st_lists, r1 = bg.result()
            sims.extend(st_lists)
            nbeh += len(st_lists)
            if res_s is None:
                res_s = r1
            else:
                res_s.generated += r1.generated
                res_s.wall_s = max(res_s.wall_s, r1.wall_s)
                res_s.ok = res_s.ok and r1.ok
                res_s.violated += r1.violated
                res_s.error = res_s.error or r1.error
    except tlc.TLCError as exc:
        run.machinery(str(exc))
        return False
    run.add_model(res_s, f'{sim_cfg} -simulate num={num} depth={depth}')
    if not res_s.ok or nbeh < num:
        run.machinery(f'simulation failed ({nbeh}/{num} behaviours): '
                      f'{res_s.violated or res_s.error}')
        return False
    notes['t_tlc_joined_s'] = round(time.time() - t00, 1)
    jobs, metas = [], []
    for i, steps in enumerate(sims):
        if strict:
            attach_strict(steps, init_post, strict, excluded)
        job = (steps, run.seed * 1000003 + seed0 + 500000 + i, None, None, 'mixed') + tail
        jobs.append(job)
        metas.append({'stage': 'simulate', 'index': i, '_job': job})
    before = stats['steps']
    results = run_jobs(jobs)
    for r, meta in zip(results, metas):
        _absorb(run, r, meta, stats)
    notes['simulate'] = {'behaviours': nbeh, 'depth': depth,
                         'steps_replayed': stats['steps'] - before}
    if results and 'crash' not in results[-1]:
        run.sample({'stage': 'simulate', 'fams': results[-1]['fams'],
                    'trace': results[-1]['trace'][:40]} if dict_b else
                   {'stage': 'simulate', 'backend': backend, 'fams': results[-1]['fams'],
                    'trace': results[-1]['trace'][:40]}, 3 if dict_b else 5)
    notes['t_sim_replay_s'] = round(time.time() - t00, 1)

    # 5. byte-level sweep of fixed scenarios
    jobs, metas = [], []
    try:
        scen = [scenario_steps(graph, groups, s, excluded) for s in scenarios]
    except tlc.TLCError as exc:
        run.machinery(str(exc))
        return False
    if strict:
        for steps in scen:
            attach_strict(steps, init_post, strict, excluded)
    rng = random.Random(run.seed)
    allnames = sorted({**NAME_FAMILIES, **NAME_STRESS} if dict_b else
                      {**NAME_FAMILIES, **NAME_STRESS, **NAME_SINGLE})
    allconts = sorted({**CONTENT_FAMILIES, **CONTENT_STRESS})
    combos = [(nf, rng.choice(sorted(CONTENT_FAMILIES))) for nf in allnames] + \
             [(rng.choice(sorted(NAME_FAMILIES)), cf) for cf in allconts]
    if not quick:
        combos = [(nf, cf) for nf in allnames for cf in allconts]
    k = 0
    for si, steps in enumerate(scen):
        for nf, cf in combos:
            for enc in ('quoted', 'literal'):
                # the zero-length-literal cut is always exercised here (rare elsewhere)
                job = (steps, run.seed * 1000003 + seed0 + 900000 + k, nf, cf, enc,
                       'marker0' if enc == 'literal' else None) + tail[1:]
                jobs.append(job)
                metas.append({'stage': 'sweep', 'index': k, 'scenario': si, '_job': job})
                k += 1
    before = stats['steps']
    results = run_jobs(jobs)
    for r, meta in zip(results, metas):
        _absorb(run, r, meta, stats)
    notes['sweep'] = {'executions': len(jobs), 'steps_replayed': stats['steps'] - before,
                      'name_families': allnames, 'content_families': allconts}
    notes['t_sweep_s'] = round(time.time() - t00, 1)

    notes['replayed_commands'] = dict(sorted(stats['cmds'].items()))
    notes['steps_replayed_total'] = stats['steps']
    notes['refused_script_commands_before_auth'] = stats['refused_unauth']
    notes['successful_mutations'] = stats['mut_ok']
    if stats['switches']:
        notes['latitude_switches'] = stats['switches'][:5]
    if not dict_b:
        notes['deviations_walked'] = dict(sorted(stats['devs'].items()))
    for ent in sorted(stats['drift'].values(), key=lambda e: e['sig']):
        ent['where'] = {k: v for k, v in ent['where'].items() if k != '_job'}
        run.drift.append(ent)
    run.notes.setdefault('per_backend', {})[backend] = {
        'executions': stats.get('executions', 0),
        'distinct_nontrivial': len(stats.get('nontrivial', ())),
        'steps_replayed': stats['steps'],
        'graph_edges_replayed': notes['graph']['edges_replayed'],
        'simulated_behaviours': nbeh,
        'sweep_executions': notes['sweep']['executions'],
        'successful_mutations': stats['mut_ok'],
        'refused_script_commands_before_auth': stats['refused_unauth'],
    }
    return True


def main(tier: str) -> int:
    run = Run('C19', tier)
    _known_override(run.known, run.notes)
    t00 = time.time()
    run.cov['rule'] = (
        'executions = replays on the real ManageSieve server of (a) the paths of an edge '
        'cover of the TLC state graph of Sieve.tla (small scope), (b) TLC -simulate '
        'behaviours of the full scope, (c) fixed scenarios under every byte family; after '
        'every step the response and a LISTSCRIPTS/GETSCRIPT probe of both users are '
        'compared with what TLC computed.  non-trivial = at least three steps and at least '
        'one successful PUTSCRIPT/SETACTIVE/DELETESCRIPT/RENAMESCRIPT; distinct = distinct '
        'sequences of (command, arguments, observed condition).  Each of (a) (b) (c) is run '
        'on the dict backend (Profile "dict": any name can be stored) and on the maildir '
        'backend (Profile "single": SingleFilterSet, one script per user, permanently called '
        '"active", the file dovecot.sieve in the user\'s directory; every execution on its '
        'own copy of a provisioned store); counts per backend: per_backend')
    run.assumptions += [
        'dict backend, no TLS configured (STARTTLS can only be refused), users without the '
        'admin role, SASL PLAIN and LOGIN',
        'script names are concretised to printable UTF-8 (no control characters, which '
        'RFC 5804 forbids); scripts are at most 4096 octets (pymap refuses longer literals)',
        'commands arrive one at a time on a connection (no pipelining), connections of '
        'different users interleave at command granularity',
        'maildir backend: layout "++", the store on a scratch directory (tmpfs when there is '
        'one), users provisioned through Identity.set, their maildirs made by pymap at the '
        'first login of the execution; the model\'s n1 is the name "active" there',
    ]
    quick = tier == 'quick'
    backends = [b for b in (os.environ.get('VERIF_C19_BACKENDS') or 'dict,maildir').split(',')
                if b in ('dict', 'maildir')]
    if backends != ['dict', 'maildir']:
        run.notes['backends_restricted_to'] = backends      # experiments only
    scratch = tlc._scratch('c19cfgs')
    try:
        return _main(run, quick, backends, scratch, t00)
    finally:
        shutil.rmtree(scratch, ignore_errors=True)


def _main(run: Run, quick: bool, backends: list, scratch: str, t00: float) -> int:
    # 0. maildir (single-script store): which deviations of the model does the tree
    #    show; TLC on the single profile in the background (small state spaces)
    def md_start():
        DEV_CLAUSE = dev_clause()
        try:
            md_template()
            taken_md = calibrate('maildir')
        except Exception as exc:
            run.machinery(f'maildir calibration failed: {exc!r}')
            return None
        devs = taken_md['devs']
        gname = 'Sieve_single_small_graph.cfg' if quick else 'Sieve_single_medium_graph.cfg'
        md = {'taken': taken_md, 'gname': gname,
              'graph': Bg(_dump, _cfg_with(gname, scratch, open_=devs), 2),
              'mc': [('Sieve_single_small.cfg', Bg(_mc, 'Sieve_single_small.cfg', 2))],
              'strict': Bg(_strict_index) if devs else None,
              # TLC decides that each deviation the tree shows contradicts the property:
              # the single profile with Open = {d} must violate the clause DevClause[d]
              'clauses': [(d, Bg(_mc, _cfg_with('Sieve_single_small.cfg', scratch, open_=[d],
                                                only_property=DEV_CLAUSE[d]), 1))
                          for d in devs]}
        if not quick:
            md['mc'].append(('Sieve_single_medium.cfg', Bg(_mc, 'Sieve_single_medium.cfg', 2)))
        if quick:
            # (a small job: done long before the dict stages are; thorough starts it
            # when the maildir stages begin)
            md['sim'] = start_sim(run, 'maildir', quick, taken_md, 'Sieve_single_sim.cfg',
                                  scratch, 250000)
        return md

    md = None
    if backends == ['maildir']:
        md = md_start()
        if md is None:
            return run.finish()

    if 'dict' in backends:
        # 1. model check (in the background) + state graph
        bg_mc = [('Sieve_small.cfg', Bg(_mc, 'Sieve_small.cfg', 6))]
        if not quick:
            bg_mc.append(('Sieve_medium.cfg', Bg(_mc, 'Sieve_medium.cfg', 6)))
        graph_cfg = 'Sieve_small_graph.cfg' if quick else 'Sieve_medium_graph.cfg'
        try:
            graph, res_g = tlc.dump_graph('Sieve.tla', graph_cfg, workers=4)
        except tlc.TLCError as exc:
            run.machinery(str(exc))
            return run.finish()
        run.add_model(res_g, graph_cfg + ' (VIEW base)')
        if not res_g.ok:
            run.machinery(f'model check of {graph_cfg} failed: {res_g.violated or res_g.error}')
            return run.finish()
        run.notes['t_dump_s'] = round(time.time() - t00, 1)

        # 2. which alternatives does the server take; prune the others
        try:
            taken = calibrate()
        except Exception as exc:
            run.machinery(f'calibration failed: {exc!r}')
            return run.finish()
        if 'maildir' in backends:
            # (now, not earlier: the graph dump above is waited for, these are not)
            md = md_start()
            if md is None:
                return run.finish()
        if not tour(run, 'dict', quick, graph, taken, run.notes, bg_mc, t00, 0, SCENARIOS,
                    'Sieve_sim.cfg', scratch,
                    'Sieve.tla small scope: 3 connections (c1 -> u1 with names {n1,n2,""} and '
                    'scripts {s1,s2,bad}; c2 -> u2 with the colliding name n1; c3 never '
                    'authenticated), every command of the model at every one of the reachable '
                    'store/auth states; every edge replayed on the real server with randomly '
                    'chosen (seeded) byte families'):
            return run.finish()

    if md is not None:
        notes = run.notes.setdefault('maildir', {})
        notes['deviations_measured'] = md['taken']['devs']
        try:
            graph, res_g = md['graph'].result()
            run.add_model(res_g, f'{md["gname"]} (VIEW base, Open = measured deviations)')
            if not res_g.ok:
                run.machinery(f'model check of {md["gname"]} failed: '
                              f'{res_g.violated or res_g.error}')
                return run.finish()
            clause = {}
            DEV_CLAUSE = dev_clause()
            for d, bg in md['clauses']:
                r = bg.result()
                run.add_model(r, f'Sieve_single_small.cfg Open={{{d}}} PROPERTY {DEV_CLAUSE[d]} '
                                 f'(violation expected)')
                run.notes['tlc_runs'][-1]['ok'] = r.violated == [DEV_CLAUSE[d]]
                if r.violated != [DEV_CLAUSE[d]]:
                    run.machinery(f'the single profile with the deviation {d} switched on does '
                                  f'not violate {DEV_CLAUSE[d]}: {r.violated or r.error}')
                    return run.finish()
                clause[d] = DEV_CLAUSE[d]
            notes['deviation_violates_clause_by_tlc'] = clause
            strict = None
            if md['strict'] is not None:
                strict, r = md['strict'].result()
                run.add_model(r, 'Sieve_single_full_graph.cfg (VIEW base, Open = {}: the '
                                 'outcome the property asks for where a deviation is followed)')
                if not r.ok:
                    run.machinery(f'Sieve_single_full_graph.cfg failed: {r.violated or r.error}')
                    return run.finish()
        except tlc.TLCError as exc:
            run.machinery(str(exc))
            return run.finish()
        if not tour(run, 'maildir', quick, graph, md['taken'], notes, md['mc'], t00, 250000,
                    # (quick: the scenario of the laws and the one of the single store)
                    SCENARIOS_SINGLE[::2] if quick else SCENARIOS_SINGLE,
                    'Sieve_single_sim.cfg', scratch, sim=md.get('sim'), strict=strict, scope_text=
                    'Sieve.tla single profile, small scope (as for dict; n1 = "active", the one '
                    'name the store holds, used by BOTH users; n2 = any other name), as-is '
                    'model = the property\'s outcomes with the measured deviations switched on: '
                    'every edge replayed on the real server over the maildir backend'):
            return run.finish()
    return run.finish()


def replay(path: str) -> int:
    data = json.load(open(path))
    rp = data['replay']
    nf, cf, enc = rp['fams']
    backend = rp.get('backend', 'dict')
    if backend == 'maildir':
        md_template()
    r = run_steps(rp['steps'], rp['exec_seed'], nf, cf, enc, rp.get('force_drop'), backend)
    print(f'replayed {r["n"]} steps of {len(rp["steps"])} '
          f'(backend={backend}, names={nf}, scripts={cf}, strings={enc})')
    for f in r['findings']:
        print(f'  {f["level"].upper()} [{f["sig"]}] step {f.get("step")}: {f["what"]}')
    for dev, ent in sorted(r['devs'].items()):
        print(f'  DEVIATION [{dev}] step {ent["step"]}: {ent["what"]}')
    if r.get('switch'):
        sw = r['switch']
        print(f'  step {sw["step"]}: the server gives another outcome the model allows '
              f'(planned: {sw.get("planned_deviation") or sw["planned"]!r}); replay ends here')
    for c, s, o in r.get('log') or []:
        print(f'    {c} C: {s!r}\n    {c} S: {o!r}')
    hit = [f['sig'] for f in r['findings'] if f['level'] == 'violation'] + sorted(r['devs'])
    from ..common import Known
    known = Known('C19')
    _known_override(known)
    left = [s for s in hit if not known.excuses(s)]
    known.print_seen()
    if data.get('signature') in left:
        print(f'VIOLATION property=C19 replay={path}')
        return 1
    return 1 if left else 0
