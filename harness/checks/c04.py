from .synccheck import main as _main


def main(tier: str) -> int:
    return _main('C04', tier)
