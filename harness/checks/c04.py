from .synccheck import main as _main, replay as _replay


def main(tier: str) -> int:
    return _main('C04', tier)


def replay(path: str) -> int:
    return _replay('C04', path)
