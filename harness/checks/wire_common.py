"""Shared helpers of the Wire* checks (C03, C18).

- dump_states(): run TLC on a Wire* module and return every reachable state
  (the enumerated abstract strings with the model's predictions)
- Watchdog: a hang of the code under test becomes an exception, not a frozen
  check (SIGALRM raising inside the Python loop)
- fetch_items(): length-counting reader of FETCH responses that keeps the
  exact payload bytes (respparse is used next to it; it refuses NUL inside a
  non-binary literal, which is C07's business, and keys partials by origin
  only)
- pmap(): fork-parallel map with per-chunk results
"""

from __future__ import annotations

import os
import re
import shutil
import signal
import tempfile
import time
from contextlib import contextmanager

from .. import tlc


# --------------------------------------------------------------------------
# TLC state dump


def dump_states(spec: str, cfg: str, *, workers: int = 8,
                timeout: int = 1800) -> tuple[list, 'tlc.TLCResult']:
    """Every distinct reachable state of (spec, cfg) as parsed dicts."""
    d = tempfile.mkdtemp(prefix='verif.wire.')
    try:
        path = os.path.join(d, 'st')
        res = tlc.run_tlc(spec, cfg, workers=workers, timeout=timeout,
                          deadlock=False, extra=['-dump', path])
        fn = path + '.dump'
        if not os.path.exists(fn):
            raise tlc.TLCError('no state dump: ' + (res.error or res.output[-1500:]))
        text = open(fn).read()
    finally:
        shutil.rmtree(d, ignore_errors=True)
    blocks = re.split(r'^State \d+:\n', text, flags=re.M)[1:]
    return [tlc.parse_state(b) for b in blocks], res


def cfg_with_fixed(base_cfg: str, fixed, tmpdir: str) -> str:
    """The as-is configuration of a Wire* module: `base_cfg` with the constant
    Fixed set to the deviation names that are recorded as repaired
    (status=fixed in known/<id>.json), so that the as-is model follows the tree
    when a defect is repaired in /repo.  Returns an absolute path in tmpdir."""
    text = open(os.path.join(tlc.SPEC_DIR, base_cfg)).read()
    val = '{' + ', '.join('"%s"' % x for x in sorted(fixed)) + '}'
    text, n = re.subn(r'^\s*Fixed\s*(<-|=).*$', '  Fixed = ' + val, text, flags=re.M)
    if n != 1:
        raise tlc.TLCError(f'{base_cfg}: no Fixed constant to set')
    path = os.path.join(tmpdir, base_cfg)
    with open(path, 'w') as f:
        f.write(text)
    return path


def seed_states(module: str, init_expr: str, base_cfg: str, fixed, tmpdir: str,
                tag: str = 'Seeds') -> tuple[list, 'tlc.TLCResult']:
    """The model's prediction for hand-picked values: a generated module that
    EXTENDS `module` and starts from `init_expr` (a TLA+ state predicate over
    the module's variables) instead of Init; no steps.  CONSTANTS are taken
    from base_cfg (with Fixed replaced)."""
    mod = f'{tag}_{module}'
    with open(os.path.join(tmpdir, mod + '.tla'), 'w') as f:
        f.write(f'---- MODULE {mod} ----\nEXTENDS {module}\n'
                f'SeedInit == {init_expr}\nSeedNext == FALSE /\\ UNCHANGED vars\n====\n')
    base = open(cfg_with_fixed(base_cfg, fixed, tmpdir)).read()
    consts = base[base.index('CONSTANTS'):]
    consts = '\n'.join(ln for ln in consts.split('\n')
                       if not ln.startswith(('INVARIANT', 'PROPERTY')))
    cfg = os.path.join(tmpdir, mod + '.cfg')
    with open(cfg, 'w') as f:
        f.write('INIT SeedInit\nNEXT SeedNext\n' + consts + '\n')
    d = tempfile.mkdtemp(prefix='verif.wire.')
    try:
        path = os.path.join(d, 'st')
        res = tlc.run_tlc(os.path.join(tmpdir, mod + '.tla'), cfg, workers=1, deadlock=False,
                          extra=['-dump', path], cwd=tmpdir,
                          java_opts='-DTLA-Library=' + tlc.SPEC_DIR)
        fn = path + '.dump'
        if not os.path.exists(fn) or not res.ok:
            raise tlc.TLCError('seed evaluation failed: ' + (res.error or res.output[-1500:]))
        text = open(fn).read()
    finally:
        shutil.rmtree(d, ignore_errors=True)
    blocks = re.split(r'^State \d+:\n', text, flags=re.M)[1:]
    return [tlc.parse_state(b) for b in blocks], res


# --------------------------------------------------------------------------
# watchdog


class Hang(Exception):
    pass


@contextmanager
def watchdog(seconds: float):
    """Raises Hang inside the running Python code after `seconds` of CPU time
    of this process (ITIMER_VIRTUAL): a spinning loop is interrupted, a
    process that is merely descheduled on a loaded machine is not.  The code
    under test never blocks (the event loop is driven by the harness)."""
    def _raise(signum, frame):
        raise Hang(f'no result after {seconds} s of CPU time')
    old = signal.signal(signal.SIGVTALRM, _raise)
    signal.setitimer(signal.ITIMER_VIRTUAL, seconds)
    try:
        yield
    finally:
        signal.setitimer(signal.ITIMER_VIRTUAL, 0)
        signal.signal(signal.SIGVTALRM, old)


# --------------------------------------------------------------------------
# FETCH response reader (exact payloads)


class BadResponse(Exception):
    pass


class _R:
    def __init__(self, d: bytes, i: int = 0):
        self.d = d
        self.i = i

    def eat(self, tok: bytes):
        if not self.d.startswith(tok, self.i):
            raise BadResponse(f'expected {tok!r} at {self.i}: '
                              f'{self.d[self.i:self.i + 40]!r}')
        self.i += len(tok)

    def until(self, stops: bytes) -> bytes:
        j = self.i
        d = self.d
        while j < len(d) and d[j] not in stops:
            j += 1
        v = d[self.i:j]
        self.i = j
        return v

    def peek(self) -> int:
        if self.i >= len(self.d):
            raise BadResponse('truncated')
        return self.d[self.i]

    def value(self):
        c = self.peek()
        if c == 0x28:
            self.i += 1
            out = []
            while True:
                if self.peek() == 0x29:
                    self.i += 1
                    return out
                if self.peek() == 0x20:
                    self.i += 1
                    continue
                out.append(self.value())
        if c == 0x22:
            self.i += 1
            out = bytearray()
            while True:
                c = self.peek()
                if c == 0x22:
                    self.i += 1
                    return ('q', bytes(out))
                if c == 0x5c:
                    self.i += 1
                    c = self.peek()
                out.append(c)
                self.i += 1
        if c in (0x7b, 0x7e):
            binary = c == 0x7e
            if binary:
                self.i += 1
            self.eat(b'{')
            n = int(self.until(b'}'))
            self.eat(b'}\r\n')
            if self.i + n > len(self.d):
                raise BadResponse('literal longer than the response')
            v = self.d[self.i:self.i + n]
            self.i += n
            return ('l', bytes(v), binary)
        a = self.until(b' ()\r\n')
        if not a:
            raise BadResponse(f'value expected at {self.i}')
        if a.isdigit():
            return int(a)
        return ('a', a)


def fetch_items(data: bytes) -> tuple[dict, list]:
    """Parse `* n FETCH (...)` responses of one command.
    -> ({seq: [(key, value), ...]}, [other lines]).  value: int, ('a', atom),
    ('q', bytes), ('l', bytes, binary) or list."""
    r = _R(data)
    out: dict = {}
    rest = []
    while r.i < len(data):
        if data.startswith(b'* ', r.i):
            j = r.i + 2
            m = re.compile(rb'(\d+) FETCH \(').match(data, j)
            if m:
                seq = int(m.group(1))
                r.i = m.end()
                items = out.setdefault(seq, [])
                while True:
                    if r.peek() == 0x29:
                        r.i += 1
                        break
                    if r.peek() == 0x20:
                        r.i += 1
                        continue
                    key = r.until(b' [')
                    if r.peek() == 0x5b:
                        # section: up to the matching ']' (may contain a
                        # header list with strings / atoms containing ']')
                        depth = 0
                        st = r.i
                        while True:
                            c = r.peek()
                            if c in (0x22, 0x7b, 0x28):
                                r.value()
                                continue
                            r.i += 1
                            if c == 0x5b:
                                depth += 1
                            elif c == 0x5d:
                                depth -= 1
                                if depth == 0:
                                    break
                        key += data[st:r.i]
                        if r.peek() == 0x3c:
                            key += r.until(b' ')
                    r.eat(b' ')
                    items.append((bytes(key).upper(), r.value()))
                r.eat(b'\r\n')
                continue
        j = data.find(b'\r\n', r.i)
        if j < 0:
            raise BadResponse('unterminated line')
        rest.append(data[r.i:j])
        r.i = j + 2
    return out, rest


def tagged(rest: list) -> bytes | None:
    """condition (OK/NO/BAD) of the last tagged line among `rest`"""
    for ln in reversed(rest):
        if ln[:1] not in (b'*', b'+'):
            parts = ln.split(b' ', 2)
            if len(parts) >= 2:
                return parts[1].upper()
    return None


def payload(v) -> bytes | None:
    if isinstance(v, tuple) and v[0] in ('l', 'q'):
        return v[1]
    if isinstance(v, tuple) and v[0] == 'a' and v[1].upper() == b'NIL':
        return None
    return None


# --------------------------------------------------------------------------
# parallel map (fork)


def pmap(fn, chunks: list, procs: int) -> list:
    """fn(chunk) for every chunk, in `procs` forked children; results in
    order.  fn must return something picklable.  A crashed child is a
    RuntimeError (machinery)."""
    if procs <= 1 or len(chunks) <= 1:
        return [fn(c) for c in chunks]
    import multiprocessing as mp
    ctx = mp.get_context('fork')
    with ctx.Pool(min(procs, len(chunks))) as pool:
        return pool.map(fn, chunks, chunksize=1)


def run_parallel(jobs: dict, threads: int = 6) -> dict:
    """jobs: {name: callable}; runs them in threads (each is a TLC
    subprocess); -> {name: result | exception}"""
    from concurrent.futures import ThreadPoolExecutor
    out = {}
    with ThreadPoolExecutor(max_workers=threads) as ex:
        futs = {name: ex.submit(fn) for name, fn in jobs.items()}
        for name, fut in futs.items():
            try:
                out[name] = fut.result()
            except Exception as exc:     # noqa: BLE001
                out[name] = exc
    return out


def nprocs() -> int:
    try:
        n = int(os.environ.get('VERIF_PROCS', '0'))
    except ValueError:
        n = 0
    if n > 0:
        return n
    return max(1, min(8, (os.cpu_count() or 2) // 2))


def chunked(seq: list, n: int) -> list:
    return [seq[i:i + n] for i in range(0, len(seq), n)]


class Timer:
    def __init__(self):
        self.t = time.time()

    def lap(self) -> float:
        now = time.time()
        d = now - self.t
        self.t = now
        return round(d, 1)
