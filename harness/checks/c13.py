"""C13 - SEARCH returns exactly the matching messages.

The oracle is spec/Search.tla (a reference evaluator of the RFC 3501 search
key algebra written in TLA+).  TLC

1. checks the algebraic laws of the evaluator itself exhaustively on a small
   universe (Search_small.cfg: NOT is the complement and NOT NOT k == k, OR is
   the union and OR a b == NOT (NOT a NOT b), several keys intersect, the UID
   answer is the sequence-number answer mapped through the view, every
   rewriting in Equivs selects the same messages), and
2. produces <<mailbox view, search program, allowed answers>> triples
   (Search_sample.cfg / Search_thorough.cfg: mailboxes of <= 3 random messages
   over flags, keyword, size, internal date, sent date, six header fields,
   body words, UID gaps, a \\Recent suffix and messages expunged by another
   session but not yet announced; programs of depth <= 2 over every supported
   key plus their logically equivalent rewritings; the sample is fixed by
   VERIF_SEED through TLC's -seed).  The expected answers are read from the
   dumped states - python never evaluates a search key.

Every triple is then executed on the real server (dict backend, in process):
the mailbox is built with APPEND (flags, INTERNALDATE, Date: and the other
header fields, body, exact sizes by padding; UID gaps by expunging fillers;
old/recent by an earlier selecting session; hidden messages by a second
session that expunges while the first one stays unsynchronised), and
`SEARCH <program>` and `UID SEARCH <program>` are sent in a random concrete
spelling (case of keywords and strings, atom / quoted / literal strings,
date spellings, top-level list with or without parentheses, CHARSET).  The
returned ids must be one of the id sets the model allows.

A mismatch is a VIOLATION unless the answer is exactly what the model
computes under a named deviation that is an open entry of known/C13.json.
"""

from __future__ import annotations

import datetime
import json
import os
import random
import re
import shutil
import tempfile
import threading
import time

from ..common import Run
from .. import tlc
from ..server import World
from .. import respparse as rp

SPEC = 'Search.tla'
SIZE0 = 2000            # octets of a message of abstract size 0
HIDDEN_CHUNK = 40       # programs per world when the view has hidden messages

KW = {'kw': b'kwverif', 'nokw': b'kwabsent'}
SYSFLAG = {'Seen': b'\\Seen', 'Deleted': b'\\Deleted', 'Flagged': b'\\Flagged',
           'Answered': b'\\Answered', 'Draft': b'\\Draft', 'Recent': b'\\Recent'}
FIELD = {'From': 'From', 'To': 'To', 'Cc': 'Cc', 'Bcc': 'Bcc',
         'Subject': 'Subject', 'XV': 'X-Verif', 'XN': 'X-None'}
TOKEN_POOL = [('qzalpha', 'xwbravo'), ('kvorlix', 'mubzant'),
              ('jyquark', 'wozhnif'), ('vexmoth', 'zugpray')]
BASES = [datetime.date(2014, 12, 30), datetime.date(2016, 2, 27),
         datetime.date(2015, 1, 5), datetime.date(2015, 9, 29),
         datetime.date(2013, 6, 30)]
MON = ['Jan', 'Feb', 'Mar', 'Apr', 'May', 'Jun', 'Jul', 'Aug', 'Sep', 'Oct',
       'Nov', 'Dec']
DOW = ['Mon', 'Tue', 'Wed', 'Thu', 'Fri', 'Sat', 'Sun']
# (time, zone) per (UTC day - written day)
CLOCK = {0: [('12:00:00', '+0000'), ('00:00:00', '+0000'),
             ('23:59:59', '+0000'), ('10:00:00', '+0530'),
             ('15:00:00', '-0800'), ('09:00:00', '+0900')],
         1: [('23:59:00', '-0800'), ('20:00:00', '-0500'),
             ('23:59:59', '-0001'), ('12:00:00', '-1200')],
         -1: [('00:00:00', '+0900'), ('00:30:00', '+0100'),
              ('05:00:00', '+1400'), ('00:00:00', '+0001')]}


# --------------------------------------------------------------------------
# reading TLC's state dump (fast path: TLA+ value syntax -> python eval)


def _T(*a):
    return tuple(a)


def _S(*a):
    return frozenset(a)


def _D(**kw):
    return tlc.FrozenDict(kw)


def _F(*pairs):
    return tlc.FrozenDict(pairs)


_ENV = {'__builtins__': {}, 'T': _T, 'S': _S, 'D': _D, 'F': _F,
        'True': True, 'False': False}
_ARROW = re.compile(r'(\w+) \|-> ')


_MEMO: dict = {}


def fast_value(text: str):
    v = _MEMO.get(text)
    if v is None:
        v = _MEMO[text] = _fast_value(text)
        if len(_MEMO) > 400000:
            _MEMO.clear()
    return v


def _fast_value(text: str):
    s = ' '.join(text.split())
    if '(' in s:
        s = s.replace('(', 'F((').replace(')', '))')
        s = s.replace(' :> ', ', ').replace(' @@ ', '), (')
    s = s.replace('<<', 'T(').replace('>>', ')')
    s = s.replace('{', 'S(').replace('}', ')')
    s = s.replace('[', 'D(').replace(']', ')')
    s = _ARROW.sub(r'\1=', s)
    s = s.replace('TRUE', 'True').replace('FALSE', 'False')
    return eval(s, _ENV)   # noqa: S307  (text written by TLC from our own spec)


_STATE = re.compile(r'^State \d+:\n', re.M)
_VAR = re.compile(r'^/\\ (\w+) = ', re.M)


def read_dump(path: str):
    """-> (mailboxes {mbid: mbox}, triples [dict])"""
    text = open(path).read()
    mailboxes, triples = {}, []
    crosscheck = 0
    for block in _STATE.split(text)[1:]:
        parts = _VAR.split(block)
        st = {}
        for i in range(1, len(parts), 2):
            st[parts[i]] = parts[i + 1].strip()
        key = fast_value(st['key'])
        mbid = int(st['mbid'])
        if key['op'] == 'NONE':
            mbox = fast_value(st['mbox'])
            if crosscheck < 3:      # the fast path agrees with the real parser
                crosscheck += 1
                if tlc.parse_value(st['mbox']) != mbox:
                    raise tlc.TLCError('fast_value disagrees with tlc.parse_value')
            # a message without header fields: TLC prints the empty function as <<>>
            mailboxes[mbid] = tuple(
                m if isinstance(m['hdr'], dict)
                else tlc.FrozenDict({**m, 'hdr': tlc.FrozenDict()}) for m in mbox)
            continue
        exp = fast_value(st['exp'])
        if crosscheck < 40:
            crosscheck += 1
            if tlc.parse_value(st['exp']) != exp or tlc.parse_value(st['key']) != key:
                raise tlc.TLCError('fast_value disagrees with tlc.parse_value')
        triples.append({'mbid': mbid, 'key': key, 'ktext': st['key'],
                        'rw': st['rw'] == 'TRUE', 'exp': exp,
                        'bad': fast_value(st['bad']),
                        'law': fast_value(st['law'])})
    return mailboxes, triples


# --------------------------------------------------------------------------
# concretisation


def key_ops(k, out=None) -> set:
    out = set() if out is None else out
    op = k['op']
    out.add(op)
    if op == 'NOT':
        key_ops(k['k'], out)
    elif op == 'OR':
        key_ops(k['a'], out)
        key_ops(k['b'], out)
    elif op == 'AND':
        for c in k['ks']:
            key_ops(c, out)
    return out


def key_depth(k) -> int:
    op = k['op']
    if op == 'NOT':
        return 1 + key_depth(k['k'])
    if op == 'OR':
        return 1 + max(key_depth(k['a']), key_depth(k['b']))
    if op == 'AND':
        return 1 + max(key_depth(c) for c in k['ks'])
    return 0


class Concrete:
    """Concrete spelling of one abstract mailbox and of programs asked in it."""

    def __init__(self, mbox, rng: random.Random, backend: str = 'dict',
                 size_fix: dict | None = None):
        self.mbox = mbox
        self.rng = rng
        self.size_fix = size_fix or {}   # uid -> octets the store adds to what it holds
        # dict numbers a fresh INBOX from 101, maildir from 1; maildir stores
        # LF line ends and reports that size (C03), which SEARCH must agree with
        self.first_uid = 101 if backend == 'dict' else 1
        self.eol = 2 if backend == 'dict' else 1
        self.tok = dict(zip(('t1', 't2'), rng.choice(TOKEN_POOL)))
        self.base = rng.choice(BASES)
        self.messages: dict[int, bytes] = {}      # uid -> literal
        self.appends: dict[int, bytes] = {}       # uid -> APPEND command
        self.later: dict[int, list] = {}          # uid -> flags set by STORE after SELECT
        for m in mbox:
            msg = self.message(m)
            self.messages[m['uid']] = msg
            cand = sorted(f for f in m['flags'] if f != 'Recent' and f in SYSFLAG)
            self.later[m['uid']] = ([f for f in cand if rng.random() < 0.5]
                                    if rng.random() < 0.3 else [])
            self.appends[m['uid']] = self.append_cmd(m, msg)

    # -- small spellings ---------------------------------------------------

    def case(self, s: str) -> str:
        r = self.rng.random()
        if r < 0.4:
            return s
        if r < 0.6:
            return s.upper()
        if r < 0.75:
            return s.capitalize()
        return ''.join(c.upper() if self.rng.random() < 0.5 else c.lower() for c in s)

    def kwcase(self, s: str) -> str:
        r = self.rng.random()
        if r < 0.7:
            return s
        if r < 0.85:
            return s.lower()
        return ''.join(c.upper() if self.rng.random() < 0.5 else c.lower() for c in s)

    def day(self, d: int) -> datetime.date:
        return self.base + datetime.timedelta(days=d)

    def datetime_parts(self, dt):
        day = self.day(dt['d'])
        clock, zone = self.rng.choice(CLOCK[dt['s']])
        return day, clock, zone

    def astring(self, s: str, allow_atom: bool = True) -> bytes:
        b = s.encode()
        forms = ['quoted', 'literal+', 'literal']
        if allow_atom and b and re.fullmatch(rb'[A-Za-z0-9.@_-]+', b):
            forms += ['atom', 'atom']
        f = self.rng.choice(forms)
        if f == 'atom':
            return b
        if f == 'quoted':
            return b'"' + b + b'"'
        if f == 'literal+':
            return b'{%d+}\r\n%s' % (len(b), b)
        return b'{%d}\r\n%s' % (len(b), b)

    # -- messages ----------------------------------------------------------

    def header_lines(self, m) -> list:
        rng = self.rng
        out = []
        fields = list(m['hdr'].keys())
        rng.shuffle(fields)
        for f in fields:
            words = m['hdr'][f]
            if not words:
                continue
            toks = sorted(w for w in words if w != 'p')
            pad = 'p' in words or not toks
            name = rng.choice([FIELD[f], FIELD[f].upper(), FIELD[f].lower()])
            if f in ('From', 'To', 'Cc', 'Bcc'):
                items = []
                for t in toks:
                    w = self.case(self.tok[t])
                    style = rng.choice(['local', 'display', 'qdisplay'])
                    if style == 'local':
                        items.append(f'{w}@example.test')
                    elif style == 'display':
                        items.append(f'{w} Person <someone@example.test>')
                    else:
                        items.append(f'"{w}, Q." <someone@example.test>')
                if pad:
                    items.append('filler@example.test')
                rng.shuffle(items)
                sep = rng.choice([', ', ',\r\n ', ',\r\n\t'])
                out.append(f'{name}: ' + sep.join(items))
            elif f == 'Subject':
                items = [self.case(self.tok[t]) for t in toks] + (['pad'] if pad else [])
                rng.shuffle(items)
                sep = rng.choice([' ', ' ', '\r\n '])
                out.append(f'{name}: ' + sep.join(items))
            else:
                items = [self.case(self.tok[t]) for t in toks] + (['pad'] if pad else [])
                rng.shuffle(items)
                if len(items) > 1 and rng.random() < 0.5:
                    for it in items:        # one header line per word
                        out.append(f'{name}: {it}')
                else:
                    out.append(f'{name}: ' + ' '.join(items))
        if m['sent']['d'] != -100:
            day, clock, zone = self.datetime_parts(m['sent'])
            name = rng.choice(['Date', 'DATE', 'date'])
            style = rng.choice(['full', 'full', 'nodow', 'nosec', 'comment'])
            dow = DOW[day.weekday()]
            dd = rng.choice([f'{day.day:02d}', str(day.day)])
            core = f'{dd} {MON[day.month - 1]} {day.year}'
            if style == 'full':
                v = f'{dow}, {core} {clock} {zone}'
            elif style == 'nodow':
                v = f'{core} {clock} {zone}'
            elif style == 'nosec':
                v = f'{dow}, {core} {clock[:5]} {zone}'
            else:
                v = f'{dow}, {core} {clock} {zone} (zone)'
            out.append(f'{name}: {v}')
        out.insert(rng.randrange(len(out) + 1), 'X-Filler: 0')
        return out

    def message(self, m) -> bytes:
        rng = self.rng
        hdr = self.header_lines(m)
        toks = sorted(m['body'])
        blines = []
        for t in toks:
            w = self.case(self.tok[t])
            blines.append(rng.choice([f'zz {w} zz', f'{w}', f'pre{w}post', f'see: {w}.']))
        if not toks:
            blines.append('nothing to see')
        rng.shuffle(blines)
        target = SIZE0 + m['size'] - self.size_fix.get(m['uid'], 0)
        multipart = bool(toks) and rng.random() < 0.2

        def assemble(padlines):
            if multipart:
                h = hdr + ['MIME-Version: 1.0',
                           'Content-Type: multipart/mixed; boundary="bnd42"']
                body = (padlines + ['--bnd42', 'Content-Type: text/plain', '',
                                    'first part', '--bnd42',
                                    'Content-Type: text/plain; charset=us-ascii',
                                    ''] + blines + ['--bnd42--'])
            else:
                h = hdr
                body = padlines + blines
            return ('\r\n'.join(h) + '\r\n\r\n' + '\r\n'.join(body) + '\r\n').encode()

        def stored(b: bytes) -> int:    # the size the store counts
            return len(b) - (2 - self.eol) * b.count(b'\r\n')

        need = target - stored(assemble([]))
        if need < 4:
            raise ValueError('SIZE0 too small')
        pad = []
        while need > 72 + self.eol:     # a pad line of k dashes costs k + eol octets
            pad.append('-' * 70)
            need -= 70 + self.eol
        pad.append('-' * (need - self.eol))
        msg = assemble(pad)
        if stored(msg) != target:
            raise ValueError(f'padding failed {stored(msg)} != {target}')
        low = msg.lower()
        present = set(toks)
        for ws in m['hdr'].values():
            present |= {w for w in ws if w != 'p'}
        for t, w in self.tok.items():
            if (w in low.decode()) != (t in present):
                raise ValueError('token leaked into boilerplate')
        return msg

    @staticmethod
    def flag_names(flags) -> bytes:
        return b' '.join(SYSFLAG[f] if f in SYSFLAG else KW[f] for f in sorted(flags))

    def flags(self, m) -> bytes:
        return self.flag_names(f for f in m['flags']
                               if f != 'Recent' and f not in self.later[m['uid']])

    def append_cmd(self, m, msg: bytes) -> bytes:
        day, clock, zone = self.datetime_parts(m['int'])
        dd = self.rng.choice([f'{day.day:02d}', f'{day.day:2d}'])
        idate = f'{dd}-{MON[day.month - 1]}-{day.year} {clock} {zone}'.encode()
        return b'APPEND INBOX (%s) "%s" {%d+}\r\n%s' % (
            self.flags(m), idate, len(msg), msg)

    @staticmethod
    def filler_cmd() -> bytes:
        msg = b'X-Filler: 1\r\n\r\nfiller\r\n'
        return b'APPEND INBOX (\\Deleted) {%d+}\r\n%s' % (len(msg), msg)

    # -- the history that produces the view --------------------------------

    def build_script(self) -> list:
        """[(session, command bytes)]: after it session 'a' has exactly the
        abstract view; hidden messages are expunged by 'b' at the very end."""
        mbox = self.mbox
        uids = [m['uid'] for m in mbox]
        nold = sum(1 for m in mbox if 'Recent' not in m['flags'])
        first = self.first_uid
        u_old = uids[nold - 1] if nold else first - 1
        maxuid = uids[-1] if uids else first - 1
        fillers = []
        script = []
        # an earlier session that had INBOX selected (and left it): what is
        # there now is no longer \\Recent for anybody
        prime = [('p', b'CREATE Other'), ('p', b'SELECT INBOX'), ('p', b'SELECT Other')]
        for u in range(first, maxuid + 1):
            if u == u_old + 1 and nold:
                script += prime
            if u in self.appends:
                script.append(('q', self.appends[u]))
            else:
                fillers.append(u)
                script.append(('q', self.filler_cmd()))
        if nold and u_old == maxuid:
            script += prime
        if self.rng.random() < 0.5:
            # a message with a HIGHER UID than any of the view that session a sees and then
            # expunges (announced): "*" and "n:*" must stand for the view's own maximum
            fillers.append(maxuid + 1)
            script.append(('q', self.filler_cmd()))
        script.append(('a', b'SELECT INBOX'))
        if fillers:
            script.append(('a', b'UID EXPUNGE ' + ','.join(map(str, fillers)).encode()))
        for m in mbox:
            if self.later[m['uid']]:
                script.append(('a', b'UID STORE %d +FLAGS%s (%s)' % (
                    m['uid'], self.rng.choice([b'', b'.SILENT']),
                    self.flag_names(self.later[m['uid']]))))
        if mbox:
            script.append(('a', b'FETCH 1:* (UID FLAGS RFC822.SIZE)'))
        hidden = [m['uid'] for m in mbox if m['hidden']]
        if hidden:
            script.append(('b', b'SELECT INBOX'))
            script.append(('b', b'UID EXPUNGE ' + ','.join(map(str, hidden)).encode()))
        return script

    # -- programs ----------------------------------------------------------

    def search_string(self, t: str) -> str:
        w = self.tok[t]
        if self.rng.random() < 0.4 and len(w) > 5:
            n = self.rng.randrange(4, len(w))
            i = self.rng.randrange(0, len(w) - n + 1)
            sub = w[i:i + n]
            ok = True
            for msg in self.messages.values():
                if sub in msg.decode().lower().replace(w, '\0'):
                    ok = False
            if any(sub in o for tt, o in self.tok.items() if tt != t):
                ok = False
            if ok:
                w = sub
        return self.case(w)

    def date_key(self, d: int) -> bytes:
        day = self.day(d)
        mon = self.rng.choice([MON[day.month - 1]] * 3 + [MON[day.month - 1].lower(),
                                                          MON[day.month - 1].upper()])
        dd = self.rng.choice([str(day.day), f'{day.day:02d}'])
        s = f'{dd}-{mon}-{day.year}'.encode()
        return b'"' + s + b'"' if self.rng.random() < 0.3 else s

    def set_text(self, ranges) -> bytes:
        out = []
        for lo, hi in ranges:
            a = b'*' if lo == 0 else str(lo).encode()
            b = b'*' if hi == 0 else str(hi).encode()
            if lo == hi and self.rng.random() < 0.85:
                out.append(a)
            else:
                out.append(a + b':' + b)
        return b','.join(out)

    def spell(self, k, top: bool = False) -> bytes:
        op = k['op']
        name = self.kwcase(op).encode()
        if op == 'NOT':
            return self.kwcase('NOT').encode() + b' ' + self.spell(k['k'])
        if op == 'OR':
            return name + b' ' + self.spell(k['a']) + b' ' + self.spell(k['b'])
        if op == 'AND':
            inner = b' '.join(self.spell(c) for c in k['ks'])
            if top and self.rng.random() < 0.6:
                return inner
            return b'(' + inner + b')'
        if op in ('KEYWORD', 'UNKEYWORD'):
            return name + b' ' + KW[k['w']]
        if op in ('LARGER', 'SMALLER'):
            return name + b' %d' % (SIZE0 + k['n'])
        if op in ('BEFORE', 'ON', 'SINCE', 'SENTBEFORE', 'SENTON', 'SENTSINCE'):
            return name + b' ' + self.date_key(k['d'])
        if op in ('FROM', 'TO', 'CC', 'BCC', 'SUBJECT', 'BODY', 'TEXT'):
            return name + b' ' + self.astring(self.search_string(k['s']))
        if op == 'HEADER':
            fname = self.rng.choice([FIELD[k['f']], FIELD[k['f']].upper(),
                                     FIELD[k['f']].lower()])
            val = self.search_string(k['s']) if k['s'] else ''
            return (name + b' ' + self.astring(fname) + b' '
                    + self.astring(val, allow_atom=bool(val)))
        if op == 'SEQ':
            return self.set_text(k['set'])
        if op == 'UID':
            return name + b' ' + self.set_text(k['set'])
        return name       # ALL, flags, NEW, OLD ...

    def program(self, key) -> bytes:
        text = self.spell(key, top=True)
        r = self.rng.random()
        if r < 0.05:
            text = b'CHARSET US-ASCII ' + text
        elif r < 0.10:
            text = b'CHARSET UTF-8 ' + text
        return text


# --------------------------------------------------------------------------
# driving the real server


class PreconditionFailed(Exception):
    size_delta: dict | None = None     # only the sizes are off: uid -> reported - wanted


class Server:
    """One World; sessions are connected and logged in on first use."""

    def __init__(self, backend: str = 'dict'):
        self.w = World(backend, users={'user1': 'pass1'},
                       config_kw={'bad_command_limit': None})
        self.log: list = []

    def cmd(self, sess: str, line: bytes) -> bytes:
        if sess not in self.w.conns:
            c = self.w.connect(sess, local=True)
            c.take()
            out = self.w.login(sess)
            if b' OK ' not in out:
                raise PreconditionFailed(f'login failed: {out!r}')
        out = self.send(sess, line)
        self.log.append((sess, line, out))
        return out

    _SYNC = re.compile(rb'\{\d+\}\r\n')

    def send(self, sess: str, line: bytes) -> bytes:
        """Like World.cmd, but a synchronising literal is only sent after the
        server asked for it (a client must not send it after a BAD)."""
        w = self.w
        c = w.conns[sess]
        c.tagno += 1
        data = b'%s%d %s\r\n' % (sess.encode(), c.tagno, line)
        pieces, pos = [], 0
        for m in self._SYNC.finditer(data):
            pieces.append(data[pos:m.end()])
            pos = m.end()
        pieces.append(data[pos:])
        out = b''
        for i, piece in enumerate(pieces):
            c.feed(piece)
            w.run_to_completion(sess)
            chunk = c.take()
            out += chunk
            if i < len(pieces) - 1 and not chunk.startswith(b'+'):
                break
        return out

    def close(self):
        self.w.close()


def tagged(resps):
    for r in resps:
        if r.kind == 'tagged':
            return r
    return None


def run_build(srv: Server, conc: Concrete, script) -> None:
    """Run the build script and verify that session 'a' really has the
    abstract view (otherwise nothing can be concluded: machinery)."""
    mbox = conc.mbox
    nexpected = conc.first_uid - 1
    for sess, line in script:
        out = srv.cmd(sess, line)
        resps = rp.parse_stream(out)
        t = tagged(resps)
        if t is None or t.cond != b'OK':
            raise PreconditionFailed(f'{sess} {line[:60]!r} -> {out[-120:]!r}')
        if line.startswith(b'APPEND'):
            nexpected += 1
            if t.code is None or t.code[0] != b'APPENDUID' \
                    or not t.code[1].split()[-1] == str(nexpected).encode():
                raise PreconditionFailed(f'APPEND did not assign UID {nexpected}: {out!r}')
        if line.startswith(b'FETCH'):
            got = {}
            for r in resps:
                if r.kind == 'untagged' and r.name == b'FETCH':
                    got[r.num] = r.data
            if sorted(got) != list(range(1, len(mbox) + 1)):
                raise PreconditionFailed(f'view has positions {sorted(got)}')
            delta = {}
            for p, m in enumerate(mbox, 1):
                d = got[p]
                want_flags = {(SYSFLAG[f] if f in SYSFLAG else KW[f]) for f in m['flags']}
                if d.get(b'UID') != m['uid'] or set(d.get(b'FLAGS', [])) != want_flags:
                    raise PreconditionFailed(
                        f'message {p}: have {d}, want uid {m["uid"]} flags '
                        f'{sorted(want_flags)} size {SIZE0 + m["size"]}')
                if d.get(b'RFC822.SIZE') != SIZE0 + m['size']:
                    delta[m['uid']] = d.get(b'RFC822.SIZE', 0) - (SIZE0 + m['size'])
            if delta:
                exc = PreconditionFailed(f'sizes reported differ from the sizes arranged: {delta}')
                exc.size_delta = delta
                raise exc
        if line == b'SELECT INBOX' and sess == 'a' and not mbox:
            pass


def ask(srv: Server, program: bytes, uid: bool):
    """-> (cond, frozenset(ids) | None, raw)"""
    line = (b'UID SEARCH ' if uid else b'SEARCH ') + program
    out = srv.cmd('a', line)
    resps = rp.parse_stream(out)
    t = tagged(resps)
    ids = None
    for r in resps:
        if r.kind == 'untagged' and r.name == b'SEARCH':
            ids = (ids or frozenset()) | frozenset(r.data)
    return (t.cond if t else None), ids, out


def classify(tr, uid: bool, cond, ids, open_known=None):
    """-> ('ok', detail) | ('dev', frozenset(names)) | ('bad', signature, what)
    When the answer is what several sets of deviations predict, one whose
    members are all open known findings is preferred (smallest first)."""
    exp = tr['exp']['uid' if uid else 'seq']
    alts = exp['alts']
    if cond == b'BAD':
        if 'SeqBeyondView' in tr['bad']:
            return ('ok', 'bad-allowed')
        if 'DoubleNotRejected' in tr['bad']:
            return ('dev', frozenset(['DoubleNotRejected']))
        return ('bad', 'UnexpectedBad', 'a grammatical program was answered BAD')
    if cond != b'OK':
        return ('bad', 'Unexpected' + (cond or b'Nothing').decode().capitalize(),
                f'tagged {cond!r}')
    got = ids if ids is not None else frozenset()
    if got in alts:
        return ('ok', 'match')
    dev = exp['dev'] if isinstance(exp['dev'], dict) else {}
    cands = [frozenset(n) for n in sorted(dev, key=lambda d: (len(d), sorted(d)))
             if got in dev[n]]
    if cands:
        if open_known is not None:
            for names in cands:
                if all(n in open_known for n in names):
                    return ('dev', names)
        return ('dev', cands[0])
    ideal = min(alts, key=lambda a: (len(a ^ got), sorted(a)))
    extra, missing = sorted(got - ideal), sorted(ideal - got)
    kind = ('Extra' if extra else '') + ('Missing' if missing else '')
    ops = sorted(key_ops(tr['key']) - {'AND', 'OR', 'NOT'})
    sig = f'{kind}[{",".join(ops)}]' + ('/uid' if uid else '')
    return ('bad', sig, f'returned {sorted(got)}, allowed {sorted(map(sorted, alts))}')


# --------------------------------------------------------------------------


def run_model(run: Run, cfg: str, seed: int, dump_dir: str | None, workers: int = 16):
    extra = ['-seed', str(seed), '-fp', '1']
    if dump_dir:
        extra += ['-dump', os.path.join(dump_dir, 'states')]
    res = tlc.run_tlc(SPEC, cfg, workers=workers, timeout=3000, extra=extra,
                      deadlock=False)
    run.add_model(res, cfg)
    return res


def jsonable(v):
    if isinstance(v, (frozenset, set)):
        return sorted((jsonable(x) for x in v), key=repr)
    if isinstance(v, dict):
        return {(k if isinstance(k, str) else '+'.join(sorted(k))): jsonable(x)
                for k, x in v.items()}
    if isinstance(v, (tuple, list)):
        return [jsonable(x) for x in v]
    if isinstance(v, bytes):
        return v.decode('latin-1')
    return v


def make_concrete(mbox, rng, backend: str) -> Concrete:
    """On maildir RFC822.SIZE is not always the size of what is stored (header
    lines are refolded on loading: C03's business).  SEARCH has to agree with
    the size the server reports, so a trial build measures the difference and
    the padding is corrected by it (same content otherwise)."""
    cseed = rng.getrandbits(64)
    conc = Concrete(mbox, random.Random(cseed), backend)
    if backend != 'dict' and mbox:
        srv = Server(backend)
        try:
            run_build(srv, conc, conc.build_script())
        except PreconditionFailed as exc:
            if not exc.size_delta:
                raise
            fix = {u: d + conc.size_fix.get(u, 0) for u, d in exc.size_delta.items()}
            conc = Concrete(mbox, random.Random(cseed), backend, fix)
        finally:
            srv.close()
    return conc


def execute_mailbox(run: Run, stats: dict, mbid, mbox, triples, rng, corrupt=None,
                    backend: str = 'dict'):
    """Build the view (as often as needed) and ask every program."""
    conc = make_concrete(mbox, rng, backend)
    script = conc.build_script()
    hidden = any(m['hidden'] for m in mbox)
    chunks = ([triples[i:i + HIDDEN_CHUNK] for i in range(0, len(triples), HIDDEN_CHUNK)]
              if hidden else [triples])
    mdig = None
    for chunk in chunks:
        srv = Server(backend)
        try:
            run_build(srv, conc, script)
            nbuild = len(srv.log)
            plan = []
            for tr in chunk:
                plan.append((tr, conc.program(tr['key']), False))
            if hidden:
                tr = rng.choice(chunk)
                plan.append((tr, conc.program(tr['key']), True))
            else:
                for tr in chunk:
                    plan.append((tr, conc.program(tr['key']), True))
                order = list(range(len(plan)))
                rng.shuffle(order)
                plan = [plan[i] for i in order]
            for tr, prog, uid in plan:
                try:
                    cond, ids, raw = ask(srv, prog, uid)
                except rp.Malformed as exc:
                    run.drift.append({'malformed': str(exc), 'program': prog.decode('latin-1')})
                    continue
                verdict = classify(tr, uid, cond, ids, run.known.open)
                if corrupt is not None and corrupt(tr, uid):
                    verdict = classify(dict(tr, exp=corrupt_exp(tr['exp'])), uid, cond, ids,
                                       run.known.open)
                stats['asked'] += 1
                stats['uid' if uid else 'seq'] += 1
                if hidden:
                    stats['hidden_view'] += 1
                    if uid:
                        stats['hidden_view_uid'] += 1
                for op in key_ops(tr['key']):
                    stats['ops'][op] = stats['ops'].get(op, 0) + 1
                alts = tr['exp']['uid' if uid else 'seq']['alts']
                nontrivial = any(a and len(a) < len(mbox) for a in alts) \
                    or key_depth(tr['key']) > 0
                run.count_exec((mbid, tr['ktext'], uid), nontrivial=nontrivial)
                if verdict[0] == 'ok':
                    stats[verdict[1]] = stats.get(verdict[1], 0) + 1
                    if len(run.cov['samples']) < 3 and key_depth(tr['key']) == 2 and ids:
                        run.sample({'view_uids': [m['uid'] for m in mbox],
                                    'hidden': [m['uid'] for m in mbox if m['hidden']],
                                    'command': ('UID SEARCH ' if uid else 'SEARCH ')
                                    + prog.decode('latin-1'),
                                    'answer': sorted(ids or ()),
                                    'allowed': jsonable(alts)})
                    continue
                replay = {
                    'check': 'C13',
                    'backend': backend,
                    'mailbox': jsonable(mbox),
                    'key': tr['ktext'],
                    'build': [[s, c.decode('latin-1')] for s, c in script],
                    'command': ('UID SEARCH ' if uid else 'SEARCH ') + prog.decode('latin-1'),
                    'uid': uid,
                    'expected': jsonable(tr['exp']['uid' if uid else 'seq']),
                    'bad': sorted(tr['bad']),
                    'answer': raw.decode('latin-1'),
                    'unsynced_after_expunge': hidden,
                }
                if verdict[0] == 'dev':
                    names = verdict[1]
                    if all(n in run.known.open for n in names):
                        for n in names:
                            run.known.excuses(n)
                            if n not in stats['known_example']:
                                stats['known_example'][n] = {
                                    'command': replay['command'],
                                    'answer': replay['answer'],
                                    'allowed': replay['expected']['alts']}
                        continue
                    sig = '+'.join(sorted(names))
                    run.violation(
                        f'{replay["command"]!r} answered as under the deviation {sig} '
                        f'(not an open known finding): {raw[-100:]!r}', replay, sig)
                else:
                    _, sig, what = verdict
                    run.violation(f'{replay["command"]!r}: {what}', replay, sig)
        finally:
            srv.close()


def late_arrival(run: Run, stats: dict, mbid, mbox, triples, rng,
                 backend: str = 'dict') -> None:
    """The session's view is what it has been told: a message delivered after
    its last command has no sequence number yet.  One world per mailbox: after
    the build another session APPENDs a copy of a message the program selects;
    the first SEARCH afterwards must still answer for the old view (only the
    first: its response announces the newcomer)."""
    if not mbox:
        return
    cands = [t for t in triples if any(t['exp']['seq']['alts']) and not t['bad']]
    if not cands:
        return
    tr = rng.choice(cands)
    conc = make_concrete(mbox, rng, backend)
    script = conc.build_script()
    ideal = max(tr['exp']['seq']['alts'], key=len)
    uid = mbox[rng.choice(sorted(ideal)) - 1]['uid']
    script.append(('q', conc.appends[uid]))
    srv = Server(backend)
    try:
        run_build(srv, conc, script)
        prog = conc.program(tr['key'])
        cond, ids, raw = ask(srv, prog, False)
        verdict = classify(tr, False, cond, ids, run.known.open)
        stats['late_arrival'] = stats.get('late_arrival', 0) + 1
        run.count_exec((mbid, tr['ktext'], 'late'), nontrivial=True)
        if verdict[0] == 'ok' or (verdict[0] == 'dev'
                                  and all(n in run.known.open for n in verdict[1])):
            if verdict[0] == 'dev':
                for n in verdict[1]:
                    run.known.excuses(n)
            return
        got = sorted(ids or ())
        sig = 'UnannouncedMessageSearched' if len(mbox) + 1 in got else (
            '+'.join(sorted(verdict[1])) if verdict[0] == 'dev' else verdict[1])
        run.violation(
            f'SEARCH {prog.decode("latin-1")!r} right after another session delivered a '
            f'message: returned {got}, allowed {jsonable(tr["exp"]["seq"]["alts"])} '
            f'(the view has {len(mbox)} messages)',
            {'check': 'C13', 'backend': backend, 'mailbox': jsonable(mbox), 'key': tr['ktext'],
             'build': [[s, c.decode('latin-1')] for s, c in script],
             'command': 'SEARCH ' + prog.decode('latin-1'), 'uid': False,
             'expected': jsonable(tr['exp']['seq']), 'bad': sorted(tr['bad']),
             'answer': raw.decode('latin-1'), 'late_arrival': True}, sig)
    finally:
        srv.close()


def commuting_numbers(run: Run, stats: dict, mbid, mbox, rng, backend: str = 'dict') -> None:
    """Search.tla: several keys are a conjunction - their order, and a pair of parentheses
    around them, cannot matter (law Rewrite).  Directed at keys that differ only in a number,
    with numbers far apart (2^32, 2^61-1, 2^64 apart: whatever equality or ordering the
    implementation keeps its keys by must tell them apart)."""
    if not mbox:
        return
    conc = make_concrete(mbox, rng, backend)
    srv = Server(backend)
    try:
        run_build(srv, conc, conc.build_script())
        for word in (b'LARGER', b'SMALLER'):
            for a in (0, 1, 2500):
                for gap in (2 ** 32, 2 ** 61 - 1, 2 ** 64):
                    b = a + gap
                    progs = [b'%s %d %s %d' % (word, a, word, b), b'%s %d %s %d' % (word, b, word, a),
                             b'(%s %d %s %d)' % (word, a, word, b)]
                    answers = []
                    for prog in progs:
                        cond, ids, raw = ask(srv, prog, False)
                        answers.append((cond, None if ids is None else tuple(sorted(ids))))
                        stats['asked'] += 1
                    run.count_exec((mbid, word, a, gap, 'commute'), nontrivial=True)
                    if any(c != b'OK' for c, _ in answers):
                        continue          # numbers this server refuses: nothing to compare
                    if len({i for _, i in answers}) != 1:
                        run.violation(
                            f'equivalent programs answered differently: '
                            + '; '.join(f'{p.decode()} -> {list(i or ())}'
                                        for p, (_, i) in zip(progs, answers)),
                            {'check': 'C13', 'backend': backend, 'mailbox': jsonable(mbox),
                             'programs': [p.decode() for p in progs], 'commute': True}, None)
                        return
    finally:
        srv.close()


def corrupt_exp(exp):
    """Spec-side corruption for the self-test: drop the lowest id of every
    allowed set / add id 1 to the empty set."""
    def c(alts, one):
        return frozenset((a - {min(a)}) if a else frozenset([one]) for a in alts)
    return tlc.FrozenDict(
        seq=tlc.FrozenDict(alts=c(exp['seq']['alts'], 1), dev=exp['seq']['dev']),
        uid=tlc.FrozenDict(alts=c(exp['uid']['alts'], 101), dev=exp['uid']['dev']))


_CALIB: dict = {}


def calibrate(run: Run, backend: str) -> str | None:
    """Which reading of "disregarding time and timezone" does this server take?
    One probe mailbox: date-times close to midnight in non-UTC zones, as internal
    date and as Date: header.  The reading must be ONE for the whole server (the
    model is then run with exactly that DateModes value), and for the internal date
    it must be the day of the date-time the server itself shows in FETCH
    INTERNALDATE - otherwise SEARCH contradicts the server's own FETCH, which no
    reading of the RFC allows.  -> "ww" | "wu" | "uw" | "uu" | None (violation)"""
    if backend in _CALIB:
        return _CALIB[backend]
    srv = Server(backend)
    probes = [  # (written date-time, written day, UTC day)
        ('01-Mar-2013 23:30:00 -0500', '1-Mar-2013', '2-Mar-2013'),
        ('05-Mar-2013 00:30:00 +0500', '5-Mar-2013', '4-Mar-2013'),
    ]
    mode = None
    try:
        for dt, _wday, _uday in probes:
            d, mon, rest = dt.split('-', 2)
            hdr = f'Date: {int(d)} {mon} {rest}'.encode()
            msg = hdr + b'\r\nSubject: calib\r\n\r\nx\r\n'
            out = srv.cmd('a', b'APPEND INBOX "%s" {%d+}\r\n%s' % (dt.encode(), len(msg), msg))
            if b' OK ' not in out:
                raise PreconditionFailed(f'calibration APPEND: {out!r}')
        srv.cmd('a', b'SELECT INBOX')
        letters = []
        for kind, key in (('internal', b'ON'), ('sent', b'SENTON')):
            seen = set()
            for i, (dt, wday, uday) in enumerate(probes, 1):
                _c, w_ids, _r = ask(srv, key + b' ' + wday.encode(), False)
                _c, u_ids, _r = ask(srv, key + b' ' + uday.encode(), False)
                w_hit, u_hit = i in (w_ids or ()), i in (u_ids or ())
                seen.add('w' if w_hit and not u_hit else 'u' if u_hit and not w_hit else '?')
            if len(seen) != 1 or '?' in seen:
                run.violation(f'{backend}: {key.decode()} is not evaluated on one day per message '
                              f'(date-times {[p[0] for p in probes]}: readings {sorted(seen)})',
                              {'check': 'C13', 'calibration': kind, 'log': jsonable(srv.log[-6:])})
                _CALIB[backend] = None
                return None
            letters.append(seen.pop())
        mode = ''.join(letters)
        # the day the server itself reports for message 1
        out = srv.cmd('a', b'FETCH 1 INTERNALDATE')
        m = re.search(rb'INTERNALDATE "\s?(\d+)-(\w+)-(\d+) ', out)
        shown = f'{int(m.group(1))}-{m.group(2).decode()}-{m.group(3).decode()}' if m else None
        want = probes[0][1] if mode[0] == 'w' else probes[0][2]
        if shown is None or shown.lower() != want.lower():
            run.violation(f'{backend}: SEARCH ON matches message 1 on {want} but FETCH INTERNALDATE '
                          f'shows it on {shown}: the internal-date keys disagree with the internal '
                          f'date the server reports', {'check': 'C13', 'calibration': 'fetch',
                                                       'log': jsonable(srv.log[-6:])})
            _CALIB[backend] = None
            return None
    finally:
        srv.w.close()
    _CALIB[backend] = mode
    run.notes.setdefault('date_reading', {})[backend] = mode
    return mode


def model_and_replay(run: Run, cfg: str, tlc_seed: int, stats: dict, rng, label: str,
                     workers: int, corrupt=None, backend: str = 'dict') -> bool:
    """Run TLC on cfg with a state dump, read the triples, execute all of them."""
    d = tempfile.mkdtemp(prefix='verif.c13.')
    try:
        t0 = time.time()
        mode = calibrate(run, backend)
        text0 = open(os.path.join(tlc.SPEC_DIR, cfg)).read()
        if mode is not None and re.search(r'DateModes = \{[^}]*,[^}]*\}', text0):
            # the measured reading, not "any of the four per query"
            text0 = re.sub(r'DateModes = \{[^}]*\}', 'DateModes = {"%s"}' % mode, text0)
            cfg = os.path.join(d, 'Search_m.cfg')
            open(cfg, 'w').write(text0)
        if os.environ.get('C13_NUMMB') and label == 'sample':   # experiments: sample size
            text = open(cfg if os.path.isabs(cfg) else os.path.join(tlc.SPEC_DIR, cfg)).read()
            text = re.sub(r'NumMb = \d+', 'NumMb = %d' % int(os.environ['C13_NUMMB']), text)
            cfg = os.path.join(d, 'Search_n.cfg')
            open(cfg, 'w').write(text)
        res = run_model(run, cfg, tlc_seed, d, workers=workers)
        if not res.ok:
            run.machinery(f'{cfg}: {res.violated or res.error}')
            return False
        try:
            mailboxes, triples = read_dump(os.path.join(d, 'states.dump'))
        except Exception as exc:   # noqa: BLE001
            run.machinery(f'{cfg}: cannot read the state dump: {exc!r}')
            return False
    finally:
        shutil.rmtree(d, ignore_errors=True)
    if len(mailboxes) + len(triples) != res.distinct:
        run.machinery(f'{cfg}: dump has {len(mailboxes) + len(triples)} states, TLC '
                      f'reports {res.distinct}')
        return False
    if any(t['law'] for t in triples):
        run.machinery(f'{cfg}: a law fails in a dumped state although TLC reported no violation')
        return False
    by_mb: dict = {}
    for tr in triples:
        by_mb.setdefault(tr['mbid'], []).append(tr)
    t1 = time.time()
    asked0 = stats['asked']
    skipped = []
    for mbid in sorted(by_mb):
        trs = sorted(by_mb[mbid], key=lambda t: t['ktext'])
        try:
            execute_mailbox(run, stats, (label, mbid), mailboxes[mbid], trs, rng, corrupt,
                            backend)
            late_arrival(run, stats, (label, mbid), mailboxes[mbid], trs, rng, backend)
            if stats.get('commute_done', 0) < 4 and len(mailboxes[mbid]) >= 2:
                stats['commute_done'] = stats.get('commute_done', 0) + 1
                commuting_numbers(run, stats, (label, mbid), mailboxes[mbid], rng, backend)
        except PreconditionFailed as exc:
            if backend == 'dict':
                run.machinery(f'{cfg}: mailbox {mbid}: the view could not be built: {exc}')
                return False
            # maildir: a view this store cannot be brought to (other properties'
            # findings, e.g. sizes or \\Recent) is left out, and counted
            skipped.append({'mbid': mbid, 'why': str(exc)[:300]})
    if skipped and len(skipped) * 2 > len(by_mb):
        run.machinery(f'{cfg}: {len(skipped)} of {len(by_mb)} views could not be built on '
                      f'{backend}: {skipped[0]["why"]}')
        return False
    run.notes.setdefault('replayed', []).append({
        'cfg': os.path.basename(cfg), 'backend': backend, 'tlc_seed': tlc_seed,
        'mailboxes': len(mailboxes), 'views_not_buildable': skipped[:3],
        'views_not_buildable_count': len(skipped),
        'views_with_hidden': sum(1 for m in mailboxes.values() if any(x['hidden'] for x in m)),
        'view_sizes': {str(n): sum(1 for m in mailboxes.values() if len(m) == n)
                       for n in range(4)},
        'triples': len(triples), 'rewritten': sum(1 for t in triples if t['rw']),
        'commands': stats['asked'] - asked0,
        'model_wall_s': round(t1 - t0, 1), 'server_wall_s': round(time.time() - t1, 1)})
    return True


SMALL_SCOPE = (
    'Search_small.cfg: every view of <= 2 messages (seen or not, recent suffix, any '
    'subset expunged-but-hidden, UIDs from {101,103}) x every key tree of depth <= 2 '
    'over {SEEN, DELETED, 2:*, UID 102:101}: the laws of the evaluator hold in all '
    '%d <<view, program>> pairs')


def main(tier: str) -> int:
    run = Run('C13', tier)
    rng = random.Random(run.seed)
    run.cov['rule'] = (
        'executions = SEARCH / UID SEARCH commands sent to the real server, each '
        'for one <<view, program>> state of Search.tla with the id set compared '
        'with the answers TLC computed; non-trivial = the program has depth >= 1 '
        'or selects a proper non-empty part of the view; distinct = distinct '
        '(mailbox, program, SEARCH|UID SEARCH)')
    run.assumptions += [
        'dict backend; a smaller sample on the maildir backend (4 views quick, 24 thorough), '
        'whose views have UIDs from 1, no keywords and no \\Recent (what that store can be '
        'brought to), with sizes as that store reports them',
        'RFC 3501 "disregarding time and timezone" is read as either the date as '
        'written or the UTC date; WHICH is measured once per backend on probe messages '
        '(the internal-date reading must agree with the day FETCH INTERNALDATE shows) '
        'and the model is then run with that one reading; RFC 2180 4.3: an expunged but '
        'unannounced message may be searched or left out',
        'sequence numbers beyond the view / "*" in an empty view: BAD or evaluated',
        'strings are ASCII words placed wholly inside one header field or the '
        'body; keyword names are matched in the case they were stored in',
        'bad_command_limit is switched off in the server under test (the known BAD '
        'answers would otherwise disconnect the session after five in a row)']
    stats = {'asked': 0, 'seq': 0, 'uid': 0, 'hidden_view': 0, 'hidden_view_uid': 0,
             'ops': {}, 'known_example': {}}
    corrupt = None
    if os.environ.get('C13_CORRUPT_SPEC'):      # self-test of the comparison
        corrupt = lambda tr, uid: key_depth(tr['key']) == 2 and not tr['rw']  # noqa: E731

    if tier == 'quick':
        # the exhaustive check of the laws runs next to the replay of the sample
        small_out = {}

        def small():
            try:
                small_out['res'] = tlc.run_tlc(SPEC, 'Search_small.cfg', workers=8,
                                               timeout=1500, deadlock=False)
            except Exception as exc:   # noqa: BLE001
                small_out['err'] = repr(exc)

        th = threading.Thread(target=small)
        th.start()
        model_and_replay(run, 'Search_sample.cfg', 1000 + run.seed, stats, rng,
                         'sample', 8, corrupt)
        # ... and a small sample on the maildir backend (4 views x about 2,000 programs)
        model_and_replay(run, 'Search_maildir_quick.cfg', 2000 + run.seed, stats, rng,
                         'maildir', 8, corrupt, backend='maildir')
        th.join()
        if 'res' in small_out:
            sres = small_out['res']
            run.add_model(sres, 'Search_small.cfg')
            if not sres.ok:
                run.machinery(f'Search_small.cfg: {sres.violated or sres.error}')
            run.notes['exhaustive_scope'] = SMALL_SCOPE % sres.generated
        else:
            run.machinery('Search_small.cfg: ' + small_out.get('err', 'no result'))
        run.cov['exhaustive'] = False
    else:
        ok = model_and_replay(run, 'Search_thorough.cfg', 1000 + run.seed, stats, rng,
                              'sample', 16, corrupt)
        # ... and every triple of the exhaustively enumerated small universe
        ok = model_and_replay(run, 'Search_small.cfg', 1, stats, rng, 'small', 16,
                              corrupt) and ok
        # ... and a sample on the maildir backend
        model_and_replay(run, 'Search_maildir.cfg', 2000 + run.seed, stats, rng, 'maildir',
                         16, corrupt, backend='maildir')
        if ok:
            n = run.notes['replayed'][-1]['triples']
            run.notes['exhaustive_scope'] = (SMALL_SCOPE % n) + (
                '; every one of them also executed on the real server')
        run.cov['exhaustive'] = ok

    run.notes['asked'] = {k: v for k, v in stats.items() if k not in ('ops', 'known_example')}
    run.notes['ops_exercised'] = dict(sorted(stats['ops'].items()))
    run.notes['known_examples'] = stats['known_example']
    return run.finish()


def replay(path: str) -> int:
    data = json.load(open(path))
    rep = data.get('replay', data)
    srv = Server(rep.get('backend', 'dict'))
    try:
        for sess, line in rep['build']:
            out = srv.cmd(sess, line.encode('latin-1'))
            print(f'{sess}> {line[:100]!r}\n   {out[-160:]!r}')
        out = srv.cmd('a', rep['command'].encode('latin-1'))
        print(f'a> {rep["command"]!r}\n   {out!r}')
        resps = rp.parse_stream(out)
        t = tagged(resps)
        ids = None
        for r in resps:
            if r.kind == 'untagged' and r.name == b'SEARCH':
                ids = sorted(set(ids or []) | set(r.data))
        print(f'expected (allowed id sets): {rep["expected"]["alts"]}  bad-explained: {rep["bad"]}')
        print(f'answer now: {t.cond if t else None} {ids}')
        ok = t is not None and ((t.cond == b'OK' and sorted(ids or []) in
                                 [sorted(a) for a in rep['expected']['alts']])
                                or (t.cond == b'BAD' and 'SeqBeyondView' in rep['bad']))
        print('REPRODUCED' if not ok else 'NOT REPRODUCED (answer is allowed now)')
        return 0 if ok else 1
    finally:
        srv.close()
